"""Small DNS packet construction library for the generators (well-formed packets with optional
name compression) plus a 'wild' grammar generator for hostile packets (C01)."""
import struct

TY = {"A": 1, "CNAME": 5, "PTR": 12, "HINFO": 13, "TXT": 16, "AAAA": 28, "SRV": 33, "NSEC": 47, "ANY": 255}


def labels_of(name):
    """name: list of label byte strings, or a dotted str (no escaping)."""
    if isinstance(name, (list, tuple)):
        return [l if isinstance(l, bytes) else l.encode() for l in name]
    if isinstance(name, bytes):
        name = name.decode()
    return [l.encode() for l in name.split(".") if l]


class Packet:
    def __init__(self, compress=True):
        self.body = bytearray()
        self.names = {}
        self.compress = compress
        self.counts = [0, 0, 0, 0]

    def off(self):
        return 12 + len(self.body)

    def name(self, name):
        labs = labels_of(name)
        for i in range(len(labs)):
            key = tuple(labs[i:])
            if self.compress and key in self.names and self.names[key] < 0x4000:
                self.body += struct.pack(">H", 0xC000 | self.names[key])
                return
            if self.off() < 0x4000:
                self.names.setdefault(key, self.off())
            self.body += bytes([len(labs[i])]) + labs[i]
        self.body += b"\x00"

    def question(self, name, ty, cls=1):
        self.name(name)
        self.body += struct.pack(">HH", ty, cls)
        self.counts[0] += 1

    def rr(self, section, name, ty, cls, ttl, rdata_fn):
        """rdata_fn(self) appends the RDATA; RDLENGTH is patched afterwards."""
        self.name(name)
        self.body += struct.pack(">HHIH", ty, cls, ttl, 0)
        start = len(self.body)
        rdata_fn(self)
        struct.pack_into(">H", self.body, start - 2, len(self.body) - start)
        self.counts[section] += 1

    def raw(self, b):
        self.body += b

    def finish(self, flags=0, ident=0, counts=None):
        c = counts or self.counts
        return struct.pack(">HHHHHH", ident, flags, *c) + bytes(self.body)


def rd_ptr(target):
    return lambda p: p.name(target)


def rd_srv(prio, weight, port, host):
    def f(p):
        p.raw(struct.pack(">HHH", prio, weight, port))
        p.name(host)
    return f


def rd_bytes(b):
    return lambda p: p.raw(b)


def rd_hinfo(cpu, os_):
    return lambda p: p.raw(bytes([len(cpu)]) + cpu + bytes([len(os_)]) + os_)


def rd_nsec(nxt, bitmap):
    def f(p):
        p.name(nxt)
        p.raw(bytes([0, len(bitmap)]) + bitmap)
    return f


LABEL_POOL = [b"a", b"b", b"local", b"_tcp", b"_udp", b"_http", b"_sub", b"host", b"My Printer", b"x" * 63,
              "é".encode(), "日本".encode(), b"a.b", b"a\\b", b"_services", b"_dns-sd", b"A", b"LOCAL", b"host-2",
              b"inst (2)"]


def rand_name(rng, pool=None):
    pool = pool or LABEL_POOL
    n = rng.choice([1, 2, 2, 3, 3, 4, 5])
    return [rng.choice(pool) for _ in range(n)]


def rand_valid_packet(rng, compress=None):
    """A well-formed query or response with a mix of record types and shared suffixes."""
    if compress is None:
        compress = rng.random() < 0.8
    p = Packet(compress)
    is_resp = rng.random() < 0.7
    base = [rng.choice([b"_http", b"_ipp", b"_x"]), rng.choice([b"_tcp", b"_udp"]), b"local"]
    inst = [rng.choice(LABEL_POOL)] + base
    host = [rng.choice([b"host", b"h2", b"My-Host", "hôte".encode()]), b"local"]
    for _ in range(rng.choice([0, 0, 1, 1, 2, 3]) if is_resp else rng.choice([1, 1, 2, 4])):
        p.question(rng.choice([base, inst, host, rand_name(rng)]), rng.choice(list(TY.values())),
                   rng.choice([1, 1, 0x8001]))
    for section in (1, 2, 3):
        for _ in range(rng.choice([0, 0, 1, 2, 3, 6])):
            k = rng.choice(["PTR", "SRV", "TXT", "A", "AAAA", "NSEC", "HINFO", "CNAME", "UNK", "ANY"])
            cls = rng.choice([1, 0x8001, 1, 0x8001, 3, 0])
            ttl = rng.choice([0, 1, 2, 120, 4500, 0xFFFFFFFF, rng.randrange(1 << 32)])
            if k == "PTR":
                p.rr(section, base, 12, cls, ttl, rd_ptr(inst))
            elif k == "CNAME":
                p.rr(section, rand_name(rng), 5, cls, ttl, rd_ptr(rand_name(rng)))
            elif k == "SRV":
                p.rr(section, inst, 33, cls, ttl, rd_srv(rng.randrange(3), rng.randrange(3), rng.randrange(65536), host))
            elif k == "TXT":
                t = b"".join(bytes([len(s)]) + s for s in [b"k=v", b"flag", b"bin=\x00\xff"][: rng.randrange(4)]) or b"\x00"
                p.rr(section, inst, 16, cls, ttl, rd_bytes(t))
            elif k == "A":
                p.rr(section, host, 1, cls, ttl, rd_bytes(bytes(rng.randrange(256) for _ in range(4))))
            elif k == "AAAA":
                p.rr(section, host, 28, cls, ttl, rd_bytes(bytes(rng.randrange(256) for _ in range(16))))
            elif k == "NSEC":
                p.rr(section, host, 47, cls, ttl, rd_nsec(host, bytes(rng.randrange(256) for _ in range(rng.choice([1, 4, 32])))))
            elif k == "HINFO":
                p.rr(section, host, 13, cls, ttl, rd_hinfo(rng.choice([b"", b"cpu", "çpu".encode()]), rng.choice([b"", b"os"])))
            elif k == "ANY":
                p.rr(section, host, 255, cls, ttl, rd_bytes(bytes(rng.randrange(256) for _ in range(rng.randrange(6)))))
            else:
                p.rr(section, rand_name(rng), rng.choice([2, 6, 15, 41, 99, 65535]), cls, ttl,
                     rd_bytes(bytes(rng.randrange(256) for _ in range(rng.choice([0, 1, 4, 30])))))
    flags = (0x8400 if is_resp else 0) | rng.choice([0, 0, 0x0200, 0x0100])
    return p.finish(flags=flags, ident=rng.choice([0, 0, rng.randrange(65536)]))


def wild_name(rng, pkt_len_hint, own_off):
    """A hostile name encoding: labels, bad length bytes, pointers forward/self/backward."""
    out = bytearray()
    for _ in range(rng.choice([0, 1, 1, 2, 3, 8])):
        r = rng.random()
        if r < 0.6:
            l = rng.choice([1, 1, 2, 5, 63])
            out += bytes([l]) + bytes(rng.choice([0x61, 0x2e, 0x5c, 0xc3, 0xa9, 0xff, 0x00]) for _ in range(l))
        elif r < 0.7:
            out += bytes([rng.choice([0x40, 0x80, 0x7f, 0xbf])])
        else:
            break
    r = rng.random()
    if r < 0.35:
        out += b"\x00"
    elif r < 0.9:
        tgt = rng.choice([own_off, own_off + len(out), max(0, own_off - 1), 12, 0, rng.randrange(max(1, pkt_len_hint)),
                          pkt_len_hint, 0x3fff, rng.randrange(0x4000)])
        out += struct.pack(">H", 0xC000 | (tgt & 0x3fff))
    return bytes(out)


def rand_wild_packet(rng):
    """Grammar-generated packet with arbitrary section counts, RDLENGTH values and pointer
    graphs (forward, self, cyclic, into RDATA)."""
    body = bytearray()
    hint = rng.choice([40, 80, 200])
    nrec = rng.choice([0, 1, 2, 3, 5])
    nq = rng.choice([0, 0, 1, 2])
    for _ in range(nq):
        body += wild_name(rng, hint, 12 + len(body))
        body += struct.pack(">HH", rng.choice(list(TY.values()) + [0, 2, 99]), rng.choice([1, 0x8001]))
    for _ in range(nrec):
        body += wild_name(rng, hint, 12 + len(body))
        ty = rng.choice(list(TY.values()) + [0, 2, 99, 99])
        rd = bytearray()
        k = rng.random()
        roff = 12 + len(body) + 10
        if ty in (12, 5, 47) or k < 0.2:
            rd += wild_name(rng, hint, roff)
            if ty == 47:
                rd += bytes([rng.choice([0, 0, 1]), rng.choice([0, 1, 4, 32, 33])]) + bytes(rng.randrange(256) for _ in range(rng.choice([0, 1, 4, 32])))
        elif ty == 33:
            rd += bytes(rng.randrange(256) for _ in range(rng.choice([0, 2, 5, 6])))
            rd += wild_name(rng, hint, roff + len(rd))
        elif ty == 13:
            for _ in range(rng.choice([0, 1, 2, 3])):
                s = bytes(rng.choice([0x61, 0xc3, 0xa9, 0xff]) for _ in range(rng.choice([0, 1, 3])))
                rd += bytes([rng.choice([len(s), len(s), len(s) + 1, 255])]) + s
        elif ty == 1:
            rd += bytes(rng.randrange(256) for _ in range(rng.choice([4, 4, 3, 5, 0])))
        elif ty == 28:
            rd += bytes(rng.randrange(256) for _ in range(rng.choice([16, 16, 15, 17, 0])))
        else:
            rd += bytes(rng.choice([1, 0x61, 0xc0, rng.randrange(256)]) for _ in range(rng.choice([0, 1, 4, 9])))
            if rng.random() < 0.3:
                # a name-like fragment inside RDATA that later pointers may hit (D2 shape)
                rd += bytes([1, 0x61]) + struct.pack(">H", 0xC000 | ((roff + len(rd)) & 0x3fff))
        rdlen = rng.choice([len(rd)] * 6 + [0, len(rd) + 1, max(0, len(rd) - 1), 0xFFFF, rng.randrange(65536)])
        body += struct.pack(">HHIH", ty, rng.choice([1, 0x8001]), rng.choice([0, 1, 120, 0xFFFFFFFF]), rdlen)
        body += rd
    counts = [nq, 0, 0, 0]
    left = nrec
    for s in (1, 2, 3):
        c = rng.randrange(left + 1) if s < 3 else left
        counts[s] = c
        left -= c
    if rng.random() < 0.25:
        counts[rng.randrange(4)] = rng.choice([0, 1, 7, 255, 65535])
    flags = rng.choice([0, 0x8400, 0x8000, 0x0200, rng.randrange(65536)])
    return struct.pack(">HHHHHH", rng.randrange(65536) if rng.random() < 0.3 else 0, flags, *counts) + bytes(body)


def mutate(rng, b):
    b = bytearray(b)
    if not b:
        return bytes(b)
    r = rng.random()
    if r < 0.35:
        for _ in range(rng.choice([1, 1, 2, 3, 8])):
            i = rng.randrange(len(b))
            b[i] = rng.choice([0, 1, 0xC0, 0x0C, 0x3F, 0x40, 0xFF, b[i] ^ (1 << rng.randrange(8)), rng.randrange(256)])
    elif r < 0.6:
        b = b[: rng.randrange(len(b) + 1)]
    elif r < 0.75:
        i = rng.randrange(len(b))
        b[i:i] = bytes(rng.randrange(256) for _ in range(rng.choice([1, 2, 4])))
    elif r < 0.9:
        i = rng.randrange(len(b))
        del b[i:i + rng.choice([1, 2, 4])]
    else:
        i = rng.randrange(len(b))
        j = rng.randrange(len(b))
        b[i] = 0xC0
        if i + 1 < len(b):
            b[i + 1] = j & 0xFF
    return bytes(b)


# --------------------------------------------------------------------------- parsing (for the
# projections of simulated-daemon traces; lenient, never raises on malformed input)

def _read_name(d, off, depth=0):
    labels = []
    end = None
    seen = 0
    while True:
        if off >= len(d) or seen > 200:
            return None, None
        l = d[off]
        if l == 0:
            if end is None:
                end = off + 1
            return labels, end
        if l & 0xC0 == 0xC0:
            if off + 1 >= len(d):
                return None, None
            if end is None:
                end = off + 2
            off = ((l & 0x3F) << 8) | d[off + 1]
            seen += 1
            continue
        if l & 0xC0:
            return None, None
        labels.append(bytes(d[off + 1:off + 1 + l]))
        off += 1 + l
        seen += 1


def parse_packet(d):
    """Returns {'id','flags','q':[(labels,type,class)], 'an':[rr], 'ns':[rr], 'ar':[rr]} with
    rr = {'name':labels,'type','class','flush','ttl','rdata':bytes,'target':labels|None,
          'srv':(prio,weight,port)|None}; None if the packet does not parse."""
    if len(d) < 12:
        return None
    ident, flags, nq, na, nn, nr = struct.unpack(">HHHHHH", d[:12])
    off = 12
    out = {"id": ident, "flags": flags, "q": [], "an": [], "ns": [], "ar": []}
    for _ in range(nq):
        name, off = _read_name(d, off)
        if name is None or off + 4 > len(d):
            return None
        ty, cl = struct.unpack(">HH", d[off:off + 4])
        off += 4
        out["q"].append((name, ty, cl))
    for sec, cnt in (("an", na), ("ns", nn), ("ar", nr)):
        for _ in range(cnt):
            name, off = _read_name(d, off)
            if name is None or off + 10 > len(d):
                return None
            ty, cl, ttl, rdlen = struct.unpack(">HHIH", d[off:off + 10])
            off += 10
            if off + rdlen > len(d):
                return None
            rr = {"name": name, "type": ty, "class": cl & 0x7FFF, "flush": bool(cl & 0x8000), "ttl": ttl,
                  "rdata": bytes(d[off:off + rdlen]), "target": None, "srv": None}
            if ty in (12, 5):
                rr["target"], _ = _read_name(d, off)
            elif ty == 33 and rdlen >= 7:
                rr["srv"] = struct.unpack(">HHH", d[off:off + 6])
                rr["target"], _ = _read_name(d, off + 6)
            off += rdlen
            out[sec].append(rr)
    return out


def dotted(labels):
    """Presentation used by the crate's decoder: labels joined with '.', trailing '.', no escaping."""
    return b"".join(l + b"." for l in labels)
