"""Common machinery of the per-property checks (see DESIGN.md section 5).

A property module (tools/props/cXX.py) provides:
  ID, THEOREM_FILE ("Props/CXX.v"), LEVELS (text), TRUSTED (list of str), PARTIAL (str)
  generate(rng, tier) -> list of Case(line, tag)           # correspondence + monitor inputs
  known_class(case_line, impl_result) -> finding id or None  (optional)
Everything else (build, proofs, correspondence, monitors, verdict, evidence) is here.
"""
import hashlib
import json
import os
import random
import re
import subprocess
import sys
import time
from concurrent.futures import ThreadPoolExecutor

VERIF = os.path.dirname(os.path.dirname(os.path.abspath(__file__)))
REPO = os.environ.get("VERIF_REPO", "/repo")
COQ = os.path.join(VERIF, "coq")
OCAML = os.path.join(VERIF, "ocaml")
HARNESS = os.path.join(VERIF, "harness")
HARNESS_BIN = os.path.join(HARNESS, "target", "release", "mdns-verif-harness")
EVIDENCE = os.path.join(VERIF, "evidence")
REPLAYS = os.path.join(VERIF, "replays")
NPROC = min(16, os.cpu_count() or 4)

ENV = dict(os.environ)
ENV.update({"CARGO_NET_OFFLINE": "true", "PIP_NO_INDEX": "1", "GOPROXY": "off"})


class Case:
    __slots__ = ("line", "tag")

    def __init__(self, line, tag):
        self.line = line
        self.tag = tag


def log(*a):
    print(*a, file=sys.stderr, flush=True)


def sh(cmd, cwd=None, timeout=None, env=None, inp=None):
    p = subprocess.run(cmd, cwd=cwd, shell=isinstance(cmd, str), stdout=subprocess.PIPE,
                       stderr=subprocess.STDOUT, timeout=timeout, env=env or ENV, input=inp)
    return p.returncode, p.stdout.decode("utf-8", "replace")


# --------------------------------------------------------------------------- builds

def build_harness():
    """cargo build of the harness (this /verif copy's harness crate, whose mdns-sd path
    dependency names the repository under test), hooks on."""
    t0 = time.time()
    rc, out = sh(["cargo", "build", "--release", "--offline", "-q"], cwd=HARNESS, timeout=1800)
    return rc == 0, out, time.time() - t0, HARNESS_BIN


def gen_params(only=None):
    """Regenerates coq/Gen/Params*.v from the Rust sources (only the item files named in
    `only`, default all). Returns (ok, message)."""
    rc, out = sh([sys.executable, os.path.join(VERIF, "tools", "extract_params.py"), REPO,
                  os.path.join(COQ, "Gen", "Params.v")] + list(only or []))
    return rc == 0, out


COQMAKE = os.path.join(VERIF, "tools", "coqmake.sh")


def ensure_makefile():
    pass  # tools/coqmake.sh regenerates _CoqProject / Makefile as needed, under a lock


def build_proofs(vfile):
    """Full .vo build of one property file and everything it depends on."""
    ensure_makefile()
    t0 = time.time()
    target = vfile[:-2] + ".vo"
    vo = os.path.join(COQ, target)
    # the .vo of the property file is always rebuilt so that Print Assumptions output is fresh
    if os.path.exists(vo):
        os.remove(vo)
    rc, out = sh(["sh", COQMAKE, target], cwd=COQ, timeout=3400)
    return rc == 0, out, time.time() - t0


def model_bin(group):
    return os.path.join(OCAML, group, "model_driver")


def build_model(group):
    """Extraction + OCaml driver of one group; rebuilt when any source is newer than the binary."""
    MODEL_BIN = model_bin(group)
    srcs = [os.path.join(OCAML, group, "Extract.v"), os.path.join(OCAML, group, "driver.ml"),
            os.path.join(OCAML, "build.sh"), os.path.join(OCAML, "drvlib.ml")]
    for d in ("Model", "Base", "Gen"):
        dd = os.path.join(COQ, d)
        srcs += [os.path.join(dd, f) for f in os.listdir(dd) if f.endswith(".v")]
    newest = max(os.path.getmtime(s) for s in srcs)
    if os.path.exists(MODEL_BIN) and os.path.getmtime(MODEL_BIN) >= newest:
        return True, "up to date"
    ensure_makefile()
    # the .vo files the group's Extract.v imports must exist (make adds their dependencies);
    # other groups' files are not touched
    ex = strip_comments(open(os.path.join(OCAML, group, "Extract.v")).read())
    mods = []
    for m in re.finditer(r"From\s+Mdns\s+Require\s+Import\s+([^.]+)\.", ex):
        mods += m.group(1).split()
    vos = []
    for name in mods:
        for d in ("Base", "Gen", "Model", "Proofs"):
            if os.path.exists(os.path.join(COQ, d, name + ".v")):
                vos.append("%s/%s.vo" % (d, name))
    rc, out = sh(["sh", COQMAKE] + vos, cwd=COQ, timeout=3400)
    if rc != 0:
        return False, out
    rc, out = sh(["sh", os.path.join(OCAML, "build.sh"), group], cwd=OCAML, timeout=1800)
    return rc == 0, out


# --------------------------------------------------------------------------- running cases

def _run_shard(binp, lines, env_extra=None, args=None):
    """Runs `binp` on lines; restarts after a HANG (exit status 3). Returns result lines."""
    results = []
    i = 0
    env = dict(ENV)
    if env_extra:
        env.update(env_extra)
    while i < len(lines):
        chunk = lines[i:]
        p = subprocess.run([binp] + list(args or []), input=("\n".join(chunk) + "\n").encode(), stdout=subprocess.PIPE,
                           stderr=subprocess.PIPE, env=env)
        out = p.stdout.decode("utf-8", "replace").split("\n")
        if out and out[-1] == "":
            out.pop()
        results += out
        i += len(out)
        if p.returncode == 0:
            if len(out) != len(chunk):
                # should not happen: pad so that the mismatch is visible
                results += ["NOOUTPUT"] * (len(chunk) - len(out))
                i = len(lines)
        elif p.returncode == 3:
            continue  # HANG was printed for the last case; go on with the rest
        else:
            # crashed (abort, stack overflow, OOM kill): the case after the last output died
            if i < len(lines):
                results.append("CRASH")
                i += 1
    return results


def run_cases(binp, lines, env_extra=None, args=None, per_shard=50):
    if not lines:
        return []
    n = max(1, min(NPROC, len(lines) // per_shard + 1))
    size = (len(lines) + n - 1) // n
    shards = [lines[k:k + size] for k in range(0, len(lines), size)]
    with ThreadPoolExecutor(max_workers=n) as ex:
        outs = list(ex.map(lambda s: _run_shard(binp, s, env_extra, args), shards))
    res = []
    for o in outs:
        res += o
    return res


def run_monitor(prop_id, lines, impl_results, MODEL_BIN=None):
    """The extracted monitor: decides for (case, implementation result) whether the property's
    statement holds on it. Input to the model driver: 'mon <ID> <case> => <result>'."""
    mon_lines = ["mon %s %s => %s" % (prop_id, l, r) for l, r in zip(lines, impl_results)]
    return run_cases(MODEL_BIN, mon_lines)


# --------------------------------------------------------------------------- proofs audit

FORBIDDEN = re.compile(r"\b(Admitted|admit|Axiom|Axioms|Parameter|Parameters|Conjecture|Conjectures|"
                       r"Hypothesis|Variable|Unset\s+Guard|bypass_check|type-in-type|"
                       r"impredicative-set|Admit\s+Obligations)\b")


def strip_comments(src):
    out = []
    depth = 0
    i = 0
    while i < len(src):
        if src.startswith("(*", i):
            depth += 1
            i += 2
        elif src.startswith("*)", i) and depth > 0:
            depth -= 1
            i += 2
        else:
            if depth == 0:
                out.append(src[i])
            i += 1
    return "".join(out)


def audit_sources():
    """grep the whole development for forbidden declarations (outside comments).
    `Variable`/`Hypothesis` are allowed only inside a Section."""
    bad = []
    for root, _, files in os.walk(COQ):
        for f in files:
            if not f.endswith(".v"):
                continue
            p = os.path.join(root, f)
            src = strip_comments(open(p).read())
            in_section = 0
            for ln, line in enumerate(src.split("\n"), 1):
                if re.match(r"\s*Section\b", line):
                    in_section += 1
                if re.match(r"\s*End\b", line) and in_section:
                    in_section -= 1
                m = FORBIDDEN.search(line)
                if m:
                    if m.group(1) in ("Variable", "Hypothesis") and in_section:
                        continue
                    bad.append("%s:%d: %s" % (os.path.relpath(p, VERIF), ln, line.strip()))
    return bad


def theorems_in(vfile):
    src = strip_comments(open(os.path.join(COQ, vfile)).read())
    return re.findall(r"^\s*(?:Theorem|Lemma|Example)\s+([A-Za-z0-9_']+)", src, re.M)


def parse_assumptions(make_output):
    """Collects the Print Assumptions blocks of the build output."""
    blocks = []
    cur = None
    for line in make_output.split("\n"):
        if line.startswith("Closed under the global context"):
            blocks.append("Closed under the global context")
            cur = None
        elif line.startswith("Axioms:"):
            cur = [line]
            blocks.append(cur)
        elif cur is not None and (line.startswith(" ") or line.startswith("\t")) and line.strip():
            cur.append(line)
        else:
            cur = None
    return ["\n".join(b) if isinstance(b, list) else b for b in blocks]


# --------------------------------------------------------------------------- known findings

def load_known():
    """known_findings.json plus per-property files known/*.json (same format); committed,
    never written at run time."""
    out = {"findings": [], "fixed": []}
    paths = [os.path.join(VERIF, "known_findings.json")]
    kd = os.path.join(VERIF, "known")
    if os.path.isdir(kd):
        paths += sorted(os.path.join(kd, f) for f in os.listdir(kd) if f.endswith(".json"))
    for p in paths:
        if os.path.exists(p):
            k = json.load(open(p))
            out["findings"] += k.get("findings", [])
            out["fixed"] += k.get("fixed", [])
    return out


def shrink_history(line, still_bad, max_tries=400):
    """Shrinks a sim history (JSON): drops steps, then calls / datagrams inside steps,
    while still_bad(line) holds."""
    h = json.loads(line)
    tries = [0]

    def bad(hh):
        tries[0] += 1
        if tries[0] > max_tries:
            return False
        return still_bad(json.dumps(hh, separators=(",", ":")))
    changed = True
    while changed and tries[0] <= max_tries:
        changed = False
        steps = h.get("steps", [])
        for i in range(len(steps) - 1, -1, -1):
            hh = dict(h)
            hh["steps"] = steps[:i] + steps[i + 1:]
            if bad(hh):
                h = hh
                changed = True
                break
        if changed:
            continue
        for i, st in enumerate(h.get("steps", [])):
            for key in ("calls", "dgrams"):
                items = st.get(key) or []
                for j in range(len(items) - 1, -1, -1):
                    hh = json.loads(json.dumps(h))
                    hh["steps"][i][key] = items[:j] + items[j + 1:]
                    if bad(hh):
                        h = hh
                        changed = True
                        break
                if changed:
                    break
            if changed:
                break
    return json.dumps(h, separators=(",", ":"))


# --------------------------------------------------------------------------- the check itself

def write_replay(prop_id, payload):
    os.makedirs(REPLAYS, exist_ok=True)
    h = hashlib.sha1(json.dumps(payload, sort_keys=True).encode()).hexdigest()[:12]
    p = os.path.join(REPLAYS, "%s-%s.json" % (prop_id, h))
    payload = dict(payload)
    payload["property"] = prop_id
    json.dump(payload, open(p, "w"), indent=1)
    return p


def corpus_cases(prop_id):
    p = os.path.join(VERIF, "corpus", prop_id + ".cases")
    if not os.path.exists(p):
        return []
    return [Case(l.rstrip("\n"), "corpus") for l in open(p) if l.strip() and not l.startswith("#")]


def shrink(prop_id, line, binp, still_bad):
    """Generic token-level shrinking of a failing case line: tries to drop list elements
    (comma separated inside a token) and to halve hex tokens, while still_bad(line) holds."""
    toks = line.split(" ")
    improved = True
    rounds = 0
    while improved and rounds < 200:
        improved = False
        rounds += 1
        for ti in range(1, len(toks)):
            t = toks[ti]
            cands = []
            if "," in t:
                parts = t.split(",")
                for k in range(len(parts)):
                    cands.append(",".join(parts[:k] + parts[k + 1:]) or "-")
            elif re.fullmatch(r"[0-9a-f]{4,}", t):
                n = len(t) // 2
                cands.append(t[: (n // 2) * 2] or "-")
                cands.append(t[(n // 2) * 2:] or "-")
                cands.append(t[:-2] or "-")
                cands.append(t[2:] or "-")
            for c in cands:
                new = " ".join(toks[:ti] + [c] + toks[ti + 1:])
                if still_bad(new):
                    toks = new.split(" ")
                    improved = True
                    break
            if improved:
                break
    return " ".join(toks)


def main_check(mod):
    import argparse
    ap = argparse.ArgumentParser()
    ap.add_argument("--tier", default=os.environ.get("VERIF_TIER", "quick"))
    ap.add_argument("--replay")
    args = ap.parse_args(sys.argv[2:])
    tier = args.tier if args.tier in ("quick", "thorough") else "quick"
    seed = int(os.environ.get("VERIF_SEED", "20260923"))
    t0 = time.time()
    pid = mod.ID
    problems = []          # things that make the property "no longer shown to hold"
    notes = []

    # 1. rebuild from the working tree
    ok, out, t_h, binp = build_harness()
    if not ok:
        log(out)
        print("check %s: the harness does not build against %s with hooks on" % (pid, REPO))
        rp = write_replay(pid, {"kind": "build", "what": "harness build failed", "output": out[-4000:]})
        print("VIOLATION property=%s replay=%s no-failing-input-found" % (pid, rp))
        return 1
    # the item files this property's proofs depend on: its own group's (plus any it names)
    item_files = list(getattr(mod, "PARAMS", [mod.MODEL_GROUP]))
    item_files = [f for f in item_files if os.path.exists(os.path.join(VERIF, "tools", "params", f + ".py"))]
    okp, outp = gen_params(item_files) if item_files else (True, "no item file")
    if not okp:
        problems.append({"kind": "params", "what": "parameter extractor lost an anchor", "detail": outp.strip()})

    # 2. proof obligations
    MODEL_BIN = model_bin(mod.MODEL_GROUP)
    okm, outm = build_model(mod.MODEL_GROUP)
    if not okm:
        log(outm)
        problems.append({"kind": "model", "what": "model/extraction does not build", "detail": outm[-3000:]})
    pr_ok, pr_out, t_p = build_proofs(mod.THEOREM_FILE)
    thms = [t for t in theorems_in(mod.THEOREM_FILE)]
    # further property-theorem files (same rules: only `exact` + Print Assumptions), e.g. the
    # statements another group's model contributes to this property
    extra_files = list(getattr(mod, "EXTRA_THEOREM_FILES", []))
    for xf in extra_files:
        ok_x, out_x, t_x = build_proofs(xf)
        thms += [t for t in theorems_in(xf)]
        t_p += t_x
        if not ok_x:
            pr_ok = False
            pr_out = out_x
        elif pr_ok:
            pr_out += "\n" + out_x
    obligations = len(thms)
    discharged = obligations if pr_ok else 0
    assumptions = parse_assumptions(pr_out)
    allowed = set(getattr(mod, "ALLOWED_AXIOMS", []))
    if not pr_ok:
        m = re.search(r'File "([^"]+)", line (\d+)', pr_out)
        problems.append({"kind": "proof", "what": "proof obligation no longer checks",
                         "theorem_file": mod.THEOREM_FILE,
                         "where": m.group(0) if m else "", "detail": pr_out[-3000:]})
    else:
        for a in assumptions:
            if a != "Closed under the global context":
                axs = [x.strip().split(" ")[0] for x in a.split("\n")[1:]]
                extra = [x for x in axs if x and x not in allowed]
                if extra:
                    problems.append({"kind": "axioms", "what": "theorem depends on axioms not in the allow-list",
                                     "detail": a})
    coqchk_out = None
    if tier == "thorough" and pr_ok:
        # independent re-check of the compiled property file and everything it depends on
        modnames = ["Mdns." + f[:-2].replace("/", ".") for f in [mod.THEOREM_FILE] + extra_files]
        rc, out = sh(["coqchk", "-o", "-silent", "-Q", ".", "Mdns"] + modnames, cwd=COQ, timeout=3000)
        coqchk_out = out[-1500:]
        if rc != 0:
            problems.append({"kind": "coqchk", "what": "coqchk rejects the compiled development", "detail": coqchk_out})
        elif "* Axioms: <none>" not in out:
            problems.append({"kind": "coqchk", "what": "coqchk reports axioms", "detail": coqchk_out})
    bad = audit_sources()
    if bad:
        problems.append({"kind": "audit", "what": "forbidden declaration in the development", "detail": bad})

    # 3./4. correspondence and monitors
    # A property module may drive the harness in another mode (HARNESS_ARGS, e.g. ["sim"]),
    # project the raw implementation output to the observation the property is about
    # (project), and derive the model driver's input from case + raw output (model_input: the
    # environment's choices the model needs, e.g. observed jitter).
    h_env = getattr(mod, "HARNESS_ENV", None)
    h_args = getattr(mod, "HARNESS_ARGS", None)
    per_shard = getattr(mod, "PER_SHARD", 50)
    project = getattr(mod, "project", lambda line, raw: raw)
    model_input = getattr(mod, "model_input", lambda line, raw: line)

    # Simulated-world runs: a listener channel holds 10 events and is read between iterations
    # only, so an iteration that sends an 11th event to one listener blocks the daemon thread
    # (known finding C14-full-listener-blocks-daemon). Such a run is judged by C14 alone.
    sim_mode = bool(h_args and "sim" in h_args)
    judges_overflow = bool(getattr(mod, "JUDGES_LISTENER_OVERFLOW", False))

    def listener_overflow(raw):
        if '"stuck"' not in raw:
            return False
        try:
            tr = json.loads(raw).get("trace", [])
        except ValueError:
            return False
        if any(t.get("exited") or t.get("panicked") for t in tr):
            return False
        st = [t for t in tr if t.get("stuck")]
        return bool(st) and max([len(v) for v in (st[-1].get("events") or {}).values()] or [0]) >= 10

    def run_impl(ls):
        raws = run_cases(binp, ls, h_env, h_args, per_shard)
        obs = []
        for l, r in zip(ls, raws):
            try:
                if sim_mode and not judges_overflow and listener_overflow(r):
                    obs.append("SKIP")
                    continue
                obs.append(project(l, r) if r not in ("HANG", "CRASH", "PANIC", "NOOUTPUT") else r)
            except Exception as e:  # a projection failure is a harness problem, made visible
                obs.append("BADPROJECTION %s" % (repr(e)[:200]))
        return raws, obs

    def run_model(ls, raws):
        if not okm:
            return ["NOMODEL"] * len(ls), ["NOMODEL"] * len(ls)
        mi = []
        for l, r in zip(ls, raws):
            try:
                mi.append(model_input(l, r))
            except Exception as e:
                mi.append("BADINPUT %s" % (repr(e)[:200]))
        return mi, run_cases(MODEL_BIN, mi)

    py_monitor = getattr(mod, "py_monitor", None)

    def run_mon(mi, obs, ls=None, raws=None):
        if not okm:
            return ["NOMODEL"] * len(mi)
        ms = run_monitor(pid, mi, obs, MODEL_BIN)
        if py_monitor and ls is not None:
            # clauses on measurements the model driver does not see (e.g. allocation sizes)
            for i in range(len(ms)):
                v = py_monitor(ls[i], raws[i], obs[i])
                if v and v.startswith("FAIL") and not ms[i].startswith("FAIL"):
                    ms[i] = v
        return ms

    if args.replay:
        rp = json.load(open(args.replay))
        cases = [Case(rp["case"], "replay")] if "case" in rp else []
        if not cases:
            # a replay that names a broken theorem/correspondence: re-run the whole check instead
            args.replay = None
    if not args.replay:
        rng = random.Random(seed)
        cases = corpus_cases(pid) + mod.generate(rng, tier)
    lines = [c.line for c in cases]
    t1 = time.time()
    raws, impl = run_impl(lines)
    minputs, model = run_model(lines, raws)
    mon = run_mon(minputs, impl, lines, raws)
    t_run = time.time() - t1

    disagreements = [i for i in range(len(lines)) if impl[i] != model[i] and impl[i] != "SKIP"]
    # a monitor verdict is PASS... or FAIL...; anything else (NOMODEL, BAD..., BADCASE) is a
    # machinery problem, not a property violation
    rejected = [i for i in range(len(lines)) if mon[i].startswith("FAIL") and impl[i] != "SKIP"]
    mon_broken = [i for i in range(len(lines)) if not (mon[i].startswith("PASS") or mon[i].startswith("FAIL"))
                  and impl[i] != "SKIP"]
    if mon_broken and okm:
        problems.append({"kind": "monitor", "what": "monitor could not judge %d cases" % len(mon_broken),
                         "detail": {"case": lines[mon_broken[0]][:500], "impl": impl[mon_broken[0]][:500],
                                    "monitor": mon[mon_broken[0]][:300]}})

    known = load_known()
    known_for = [k for k in known.get("findings", []) if k["property"] == pid]
    known_hits = {}
    new_viol = []
    for i in rejected:
        cls = None
        if hasattr(mod, "known_class"):
            cls = mod.known_class(lines[i], impl[i], mon[i])
        if cls and any(k["id"] == cls for k in known_for):
            known_hits.setdefault(cls, []).append(i)
        else:
            new_viol.append(i)
    # disagreements in a known class do not break the tie (the model is of the code as it is,
    # except where a known finding says the code is wrong)
    unexplained = []
    for i in disagreements:
        if i in rejected and i not in new_viol:
            continue
        unexplained.append(i)

    for cls, idxs in known_hits.items():
        k = [k for k in known_for if k["id"] == cls][0]
        print("KNOWN-FINDING: property=%s %s (%s; %d cases this run, e.g. %s)" %
              (pid, k["what"], cls, len(idxs), lines[idxs[0]][:200]))

    # listed findings that no generated case of this run falls into (witness recorded in the
    # known-findings file; where it is a Coq refutation theorem it was re-checked above)
    for k in known_for:
        if k["id"] not in known_hits:
            print("KNOWN-FINDING: property=%s %s (%s; no generated case of this run is in the class; recorded witness: %s)" %
                  (pid, k["what"], k["id"], str(k.get("witness", ""))[:160].replace("\n", " ")))

    def one(l):
        rw, ob = run_impl([l])
        mi, mo = run_model([l], rw)
        mn = run_mon(mi, ob, [l], rw)
        return rw[0], ob[0], mi[0], mo[0], mn[0]

    exit_code = 0
    violation_lines = []
    if new_viol:
        i = new_viol[0]

        def still_bad(l):
            rw, ob, mi, mo, mn = one(l)
            if ob == "SKIP" or not mn.startswith("FAIL") or ob.startswith("BAD"):
                return False
            cls = mod.known_class(l, ob, mn) if hasattr(mod, "known_class") else None
            return not (cls and any(k["id"] == cls for k in known_for))
        shrinker = getattr(mod, "shrink", None)
        if os.environ.get("VERIF_NO_SHRINK"):
            small = lines[i]        # batch validation runs: report the failing case as generated
        else:
            small = shrinker(lines[i], still_bad) if shrinker else shrink(pid, lines[i], binp, still_bad)
        rw, ob, mi, mo, mn = one(small)
        rp = write_replay(pid, {"kind": "case", "case": small, "original_case": lines[i],
                                "impl_result": ob, "model_result": mo, "model_input": mi,
                                "monitor": mn, "tag": cases[i].tag, "seed": seed, "tier": tier,
                                "how": "./check %s --replay <this file>" % pid})
        violation_lines.append("VIOLATION property=%s replay=%s" % (pid, rp))
        exit_code = 1
    elif unexplained or problems:
        # the property is no longer shown to hold; no monitor rejected anything: search harder
        found = None
        if not args.replay and hasattr(mod, "search"):
            rng2 = random.Random(seed + 1)
            extra = mod.search(rng2, problems, [lines[i] for i in unexplained])
            xl = [c.line for c in extra]
            xraw, xr = run_impl(xl)
            xmi, _ = run_model(xl, xraw)
            xm = run_mon(xmi, xr, xl, xraw) if okm else []
            for j in range(len(xm)):
                if xm[j].startswith("FAIL") and xr[j] != "SKIP":
                    cls = mod.known_class(xl[j], xr[j], xm[j]) if hasattr(mod, "known_class") else None
                    if cls and any(k["id"] == cls for k in known_for):
                        continue
                    found = (xl[j], xr[j], xm[j])
                    break
        if found:
            rp = write_replay(pid, {"kind": "case", "case": found[0], "impl_result": found[1],
                                    "monitor": found[2], "seed": seed, "tier": tier,
                                    "found_by": "search after broken proof/correspondence"})
            violation_lines.append("VIOLATION property=%s replay=%s" % (pid, rp))
        else:
            payload = {"kind": "unshown", "problems": problems, "seed": seed, "tier": tier}
            if unexplained:
                i = unexplained[0]
                payload["correspondence"] = {"level": mod.LEVELS, "first_disagreement": {
                    "case": lines[i], "impl": impl[i], "model": model[i], "model_input": minputs[i],
                    "monitor": mon[i]},
                    "disagreements": len(unexplained)}
            rp = write_replay(pid, payload)
            violation_lines.append("VIOLATION property=%s replay=%s no-failing-input-found" % (pid, rp))
        exit_code = 1

    # 5. evidence
    tags = {}
    for c in cases:
        tags[c.tag] = tags.get(c.tag, 0) + 1
    outcome_kinds = {}
    okind = getattr(mod, "outcome_kind", None)
    for r in impl:
        k = okind(r) if okind else r.split(" ")[0]
        k = k[:24]
        if k not in outcome_kinds and len(outcome_kinds) >= 40:
            k = "(other)"
        outcome_kinds[k] = outcome_kinds.get(k, 0) + 1
    distinct = len(set(l for l, r in zip(lines, impl) if r != "SKIP" and getattr(mod, "nontrivial", lambda l, r: True)(l, r)))
    samples = []
    step = max(1, len(lines) // 5)
    for i in range(0, len(lines), step):
        samples.append({"case": lines[i][:400], "impl": impl[i][:400], "model": model[i][:400], "monitor": mon[i][:100]})
    samples = samples[:6]
    ev = {
        "property_id": pid,
        "tier": tier,
        "seed": seed,
        "level": "proof",
        "coverage": {
            "obligations": obligations,
            "discharged": discharged,
            "checker_cmd": "make -C /verif/coq %s (coqc 8.16.1, full .vo build)" % " ".join(
                f[:-2] + ".vo" for f in [mod.THEOREM_FILE] + extra_files),
            "theorem_files": [mod.THEOREM_FILE] + extra_files,
            "trusted_base": mod.TRUSTED,
            "statements": thms,
            "print_assumptions": assumptions,
            "theorem_file_sha1": hashlib.sha1(open(os.path.join(COQ, mod.THEOREM_FILE), "rb").read()).hexdigest(),
            "params_extractor_ok": okp,
            "coqchk": coqchk_out,
            "evaluations": len(lines),
            "distinct_nontrivial": distinct,
            "rule": mod.RULE,
            "samples": samples,
            "correspondence": {"levels": mod.LEVELS, "cases": len(lines), "by_generator": tags,
                               "impl_outcomes": outcome_kinds, "disagreements": len(disagreements),
                               "unexplained_disagreements": len(unexplained)},
            "monitor": {"cases": len(lines), "rejected": len(rejected),
                        "known_finding_hits": {k: len(v) for k, v in known_hits.items()},
                        "new_violations": len(new_viol)},
            "partial": mod.PARTIAL,
            "problems": problems,
            "timing_s": {"harness_build": round(t_h, 1), "proofs": round(t_p, 1), "cases": round(t_run, 1)},
        },
        "assumptions": mod.TRUSTED,
        "wall_s": round(time.time() - t0, 2),
        "violations": len(new_viol) + (1 if (exit_code and not new_viol) else 0),
    }
    os.makedirs(EVIDENCE, exist_ok=True)
    json.dump(ev, open(os.path.join(EVIDENCE, pid + ".json"), "w"), indent=1)
    print("check %s tier=%s seed=%d: obligations %d/%d, cases %d, disagreements %d, monitor rejections %d "
          "(known %d), %.1fs" % (pid, tier, seed, discharged, obligations, len(lines), len(disagreements),
                                 len(rejected), sum(len(v) for v in known_hits.values()), time.time() - t0))
    for v in violation_lines:
        print(v)
    return exit_code
