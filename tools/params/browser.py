"""Constants and comparisons of the browser side (C03, C04, C05): record liveness tests, the
cache-flush one-second rule, TTL 0 -> 1, the follow-up (Resolve) schedule, the verify resend,
the ServiceFound TTL guard.  Regenerated into coq/Gen/ParamsBrowser.v on every run;
coq/Model/Cache.v and Browser.v call these definitions, coq/Proofs/ParamsBrowserPinned.v pins
them to the literal numbers / directions the property texts use."""
OUT = "ParamsBrowser.v"
P = "src/dns_parser.rs"
C = "src/dns_cache.rs"
D = "src/service_daemon.rs"

CONST_ITEMS = [
    ("resolve_wait_millis", D, "RESOLVE_WAIT_IN_MILLIS"),
]

GET = r"get_expiration_time\(self\.created, self\.ttl, "
WHOLE = r"(?P<e>\S[^;{}]*\S)"


def ladder(k):
    nums = [r"\d+"] * 6
    nums[k] = r"(?P<e>\d+)"
    return (r"if self\.refresh == " + GET + nums[0] + r"\) \{\s*self\.refresh = " + GET + nums[1] + r"\);\s*"
            r"\} else if self\.refresh == " + GET + nums[2] + r"\) \{\s*self\.refresh = " + GET + nums[3] + r"\);\s*"
            r"\} else if self\.refresh == " + GET + nums[4] + r"\) \{\s*self\.refresh = " + GET + nums[5] + r"\);\s*"
            r"\} else \{\s*self\.refresh_no_more\(\);\s*\}\s*true\s*$")


H_NEW = r"fn new\(name: &str, ty: RRType, class: u16, ttl: u32\) -> Self "
H_MAYBE = r"pub fn refresh_maybe\(&mut self, now: u64\) -> bool "
H_RESET = r"fn reset_ttl\(&mut self, other: &Self\) "
H_AOU = r"pub\(crate\) fn add_or_update\("
H_RR = r"fn read_rr_records\(&mut self, count: u16\) -> Result<Vec<DnsRecordBox>> "
H_RESP = r"fn handle_response\(&mut self, mut msg: DnsIncoming, if_index: u32\) "
H_PEND = r"fn add_pending_resolve\(&mut self, instance: String\) "
H_RES = r"fn exec_command_resolve\(&mut self, instance: String, try_count: u16\) "
H_VER = r"fn exec_command_verify\(&mut self, instance: String, timeout: Duration, repeating: bool\) "

ITEMS = [
    ("expiration_time", [("created", "N"), ("ttl", "N"), ("percent", "N")], "N", P,
     r"const fn get_expiration_time\(created: u64, ttl: u32, percent: u32\) -> u64 ", WHOLE,
     {"created": "created", "ttl": "ttl", "percent": "percent"}, False),
    ("new_refresh_percent", [], "N", P, H_NEW, r"let refresh = get_expiration_time\(created, ttl, (?P<e>\d+)\);", {}, False),
    ("new_expires_percent", [], "N", P, H_NEW, r"let expires = get_expiration_time\(created, ttl, (?P<e>\d+)\);", {}, False),
    ("is_expired_g", [("now", "N"), ("expires", "N")], "bool", P, r"pub const fn is_expired\(&self, now: u64\) -> bool ", WHOLE,
     {"now": "now", "self.expires": "expires"}, False),
    ("expires_soon_g", [("now", "N"), ("expires", "N")], "bool", P, r"pub const fn expires_soon\(&self, now: u64\) -> bool ", WHOLE,
     {"now": "now", "self.expires": "expires"}, False),
    ("refresh_due_g", [("now", "N"), ("refresh", "N")], "bool", P, r"pub const fn refresh_due\(&self, now: u64\) -> bool ", WHOLE,
     {"now": "now", "self.refresh": "refresh"}, False),
    ("no_more_percent", [], "N", P, r"pub fn refresh_no_more\(&mut self\) ",
     r"^\s*self\.refresh = " + GET + r"(?P<e>\d+)\);\s*$", {}, False),
    ("ladder_from1", [], "N", P, H_MAYBE, ladder(0), {}, False),
    ("ladder_to1", [], "N", P, H_MAYBE, ladder(1), {}, False),
    ("ladder_from2", [], "N", P, H_MAYBE, ladder(2), {}, False),
    ("ladder_to2", [], "N", P, H_MAYBE, ladder(3), {}, False),
    ("ladder_from3", [], "N", P, H_MAYBE, ladder(4), {}, False),
    ("ladder_to3", [], "N", P, H_MAYBE, ladder(5), {}, False),
    ("reset_expires_percent", [], "N", P, H_RESET,
     r"self\.ttl = other\.ttl;\s*self\.created = other\.created;\s*self\.expires = " + GET + r"(?P<e>\d+)\);", {}, False),
    ("reset_refresh_guard", [("ttl", "N")], "bool", P, H_RESET,
     r"self\.refresh = if (?P<e>self\.ttl [^{]+?) \{", {"self.ttl": "ttl"}, False),
    ("reset_refresh_percent", [], "N", P, H_RESET,
     r"self\.refresh = if [^{]+\{\s*" + GET + r"(?P<e>\d+)\)\s*\} else \{\s*self\.expires\s*\};\s*$", {}, False),
    ("expire_sooner_guard", [("expire_at", "N"), ("expires", "N")], "bool", P,
     r"fn set_expire_sooner\(&mut self, expire_at: u64\) ",
     r"^\s*if (?P<e>expire_at [^{]+?) \{\s*self\.get_record_mut\(\)\.set_expire\(expire_at\);",
     {"expire_at": "expire_at", "self.get_expire()": "expires"}, False),
    # TTL 0 in a response is stored as 1
    ("ttl_zero_guard", [("ttl", "N")], "bool", P, H_RR,
     r"if (?P<e>ttl == \d+) && self\.is_response\(\) \{", {"ttl": "ttl"}, False),
    ("ttl_zero_becomes", [], "N", P, H_RR,
     r"if ttl == \d+ && self\.is_response\(\) \{\s*ttl = (?P<e>\d+);\s*\}", {}, False),
    # cache-flush one-second rule (add_or_update)
    ("flush_cond", [("cls", "N"), ("r_cls", "N"), ("rtype", "N"), ("r_type", "N"), ("now", "N"), ("r_created", "N"), ("r_expire", "N")],
     "bool", C, H_AOU, r"if (?P<e>class == r\.record\.get_class\(\)\s*&&[^{]+?)\s*\{\s*should_flush = true;",
     {"class": "cls", "r.record.get_class()": "r_cls", "rtype": "rtype", "r.record.get_type()": "r_type", "now": "now",
      "r.record.get_created()": "r_created", "r.record.get_expire()": "r_expire"}, False),
    ("flush_is_addr_type", [("rtype", "N")], "bool", C, H_AOU,
     r"if (?P<e>rtype == RRType::A \|\| rtype == RRType::AAAA) \{", {"rtype": "rtype", "RRType::A": "1", "RRType::AAAA": "28"}, False),
    ("flush_same_intf", [("a_index", "N"), ("b_index", "N")], "bool", C, H_AOU,
     r"should_flush = (?P<e>addr\.interface_id\.index == addr_b\.interface_id\.index);",
     {"addr.interface_id.index": "a_index", "addr_b.interface_id.index": "b_index"}, False),
    ("flush_new_expire", [("now", "N")], "N", C, H_AOU,
     r"let new_expire = (?P<e>[^;]+);\s*r\.record\.set_expire\(new_expire\);\s*timers\.push\(new_expire\);", {"now": "now"}, False),
    # a matching record on its way out (TTL <= 1) that is announced again (TTL > 1) counts as new
    ("revived_guard", [("old_ttl", "N"), ("new_ttl", "N")], "bool", C, H_AOU,
     r"let revived =\s*(?P<e>r\.record\.get_record\(\)\.get_ttl\(\) <= \d+ && incoming\.get_record\(\)\.get_ttl\(\) > \d+);",
     {"r.record.get_record().get_ttl()": "old_ttl", "incoming.get_record().get_ttl()": "new_ttl"}, False),
    # ServiceFound only for a new PTR that does not expire soon
    ("found_ttl_guard", [("ttl", "N")], "bool", D, H_RESP,
     r"if ty == RRType::PTR && (?P<e>dns_record\.record\.get_record\(\)\.get_ttl\(\) > \d+) \{",
     {"dns_record.record.get_record().get_ttl()": "ttl"}, False),
    # follow-up (Resolve) schedule
    ("pending_wait", [], "N", D, H_PEND,
     r"let next_time = current_time_millis\(\) \+ (?P<e>RESOLVE_WAIT_IN_MILLIS);", {}, False),
    ("resolve_wait", [], "N", D, H_RES,
     r"let next_time = current_time_millis\(\) \+ (?P<e>RESOLVE_WAIT_IN_MILLIS);", {}, False),
    ("pending_first_try", [], "N", D, H_PEND,
     r"Command::Resolve\(instance\.clone\(\), (?P<e>\d+)\)", {}, False),
    ("max_try", [], "N", D, H_RES, r"let max_try = (?P<e>\d+);", {}, False),
    ("retry_guard", [("try_count", "N"), ("max_try", "N")], "bool", D, H_RES,
     r"if pending_query && (?P<e>try_count [<>=]+ max_try) \{", {"try_count": "try_count", "max_try": "max_try"}, False),
    ("retry_next", [("try_count", "N")], "N", D, H_RES,
     r"Command::Resolve\(instance, (?P<e>try_count \+ \d+)\)", {"try_count": "try_count"}, False),
    ("valid_name_min_parts", [], "N", D, r"\nfn valid_instance_name\(name: &str\) -> bool ",
     r"name\.split\('\.'\)\.count\(\) >= (?P<e>\d+)", {}, False),
    # verify: resend one second later
    ("verify_resend_time", [("now", "N")], "N", D, H_VER,
     r"self\.add_retransmission\((?P<e>now \+ \d+), Command::Verify\(instance, timeout\)\);", {"now": "now"}, False),
]
