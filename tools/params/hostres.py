"""Constants and guards of hostname resolution, the record lifetime arithmetic the address cache
uses, the query schedules and the timer heap (C17, C20).  Generated file: coq/Gen/ParamsHostres.v.
The models (Model/Hostres*.v, Model/Bounded*.v) use these definitions; Proofs/HostresPinned.v
pins them to the literal numbers / comparison directions of the property texts."""
OUT = "ParamsHostres.v"

SD = "src/service_daemon.rs"
DP = "src/dns_parser.rs"
DC = "src/dns_cache.rs"

CONST_ITEMS = [
    ("hp_ip_check_secs_default", SD, "IP_CHECK_INTERVAL_IN_SECS_DEFAULT"),
    ("hp_resolve_wait_ms", SD, "RESOLVE_WAIT_IN_MILLIS"),
]

RUN = r"fn run\(&mut self, receiver: Receiver<Command>\) -> Option<Command>"
RESOLVE_HOST = r"fn exec_command_resolve_hostname\("
BROWSE = r"fn exec_command_browse\("
RECNEW = r"fn new\(name: &str, ty: RRType, class: u16, ttl: u32\) -> Self"

ITEMS = [
    # ---- run loop -------------------------------------------------------------------------
    # resolver timeout: `.filter(|(_, (_, timeout))| timeout.map(|t| now >= t).unwrap_or(false))`
    ("hp_deadline_reached", [("now", "N"), ("t", "N")], "bool", SD, RUN,
     r"timeout\.map\(\|t\| (?P<e>now >= t)\)", {"now": "now", "t": "t"}, False),
    # due retransmission: `if now >= self.retransmissions[i].next_time`
    ("hp_rerun_due", [("now", "N"), ("next_time", "N")], "bool", SD, RUN,
     r"if (?P<e>now >= self)\.retransmissions\[i\]\.next_time", {"now": "now", "self": "next_time"}, False),
    # IP check: `} else if now >= next_ip_check {`
    ("hp_ip_check_due", [("now", "N"), ("next_ip_check", "N")], "bool", SD, RUN,
     r"else if (?P<e>now >= next_ip_check) \{", {"now": "now", "next_ip_check": "next_ip_check"}, False),
    # pop_timers_till: `if *v > now { break; }`
    ("hp_timer_kept", [("v", "N"), ("now", "N")], "bool", SD, r"fn pop_timers_till\(&mut self, now: u64\)",
     r"if \*(?P<e>v > now) \{", {"v": "v", "now": "now"}, False),
    # default IP check interval in ms
    ("hp_ip_check_ms_default", [], "N", SD, r"fn new\(\s*signal_sock: MioUdpSocket,",
     r"let ip_check_interval = (?P<e>IP_CHECK_INTERVAL_IN_SECS_DEFAULT as u64 \* 1000);", {}, False),
    # ---- resolve_hostname schedule ------------------------------------------------------------
    ("hp_host_first_delay", [], "N", SD, r"pub fn resolve_hostname\(",
     r"Command::ResolveHostname\(\s*hostname\.to_string\(\),\s*(?P<e>1),", {}, False),
    ("hp_host_delay_unit_ms", [], "N", SD, RESOLVE_HOST,
     r"let next_time = now \+ u64::from\(next_delay\) \* (?P<e>1000);", {}, False),
    ("hp_host_max_delay", [], "N", SD, RESOLVE_HOST, r"let max_delay = (?P<e>60 \* 60);", {}, False),
    ("hp_host_next_delay", [("next_delay", "N"), ("max_delay", "N")], "N", SD, RESOLVE_HOST,
     r"let delay = cmp::min\((?P<e>next_delay \* 2), max_delay\);", {"next_delay": "next_delay"}, False),
    # re-arm only before the deadline: `.map(|timeout| next_time < timeout)`
    ("hp_host_rearm", [("next_time", "N"), ("timeout", "N")], "bool", SD, RESOLVE_HOST,
     r"\.map\(\|timeout\| (?P<e>next_time < timeout)\)", {"next_time": "next_time", "timeout": "timeout"}, False),
    # ---- browse schedule ------------------------------------------------------------------
    ("hp_browse_first_delay", [], "N", SD, r"pub fn browse\(&self, service_type: &str\)",
     r"Command::Browse\(service_type\.to_string\(\), (?P<e>1), false, resp_s\)", {}, False),
    ("hp_browse_delay_unit_ms", [], "N", SD, BROWSE,
     r"let next_time = now \+ \(next_delay \* (?P<e>1000)\) as u64;", {}, False),
    ("hp_browse_max_delay", [], "N", SD, BROWSE, r"let max_delay = (?P<e>60 \* 60);", {}, False),
    ("hp_browse_next_delay", [("next_delay", "N"), ("max_delay", "N")], "N", SD, BROWSE,
     r"let delay = cmp::min\((?P<e>next_delay \* 2), max_delay\);", {"next_delay": "next_delay"}, False),
    ("hp_resolve_max_try", [], "N", SD, r"fn exec_command_resolve\(&mut self, instance: String, try_count: u16\)",
     r"let max_try = (?P<e>3);", {}, False),
    ("hp_resolve_retry", [("try_count", "N"), ("max_try", "N")], "bool", SD,
     r"fn exec_command_resolve\(&mut self, instance: String, try_count: u16\)",
     r"if pending_query && (?P<e>try_count < max_try) \{", {"try_count": "try_count", "max_try": "max_try"}, False),
    # PTR "does not expire soon": `get_ttl() > 1`
    ("hp_ptr_ttl_ok", [("ttl", "N")], "bool", SD, r"fn handle_response\(&mut self, mut msg: DnsIncoming, if_index: u32\)",
     r"if ty == RRType::PTR && (?P<e>dns_record\.record\.get_record\(\)\.get_ttl\(\) > 1) \{",
     {"dns_record.record.get_record().get_ttl()": "ttl"}, False),
    # ---- record lifetime (dns_parser.rs) ---------------------------------------------------
    ("hp_expiration_delta", [("ttl", "N"), ("percent", "N")], "N", DP,
     r"const fn get_expiration_time\(created: u64, ttl: u32, percent: u32\) -> u64",
     r"created \+ \((?P<e>ttl as u64 \* percent as u64 \* 10)\)", {"ttl": "ttl", "percent": "percent"}, False),
    ("hp_new_refresh_percent", [], "N", DP, RECNEW,
     r"let refresh = get_expiration_time\(created, ttl, (?P<e>80)\);", {}, False),
    ("hp_new_expire_percent", [], "N", DP, RECNEW,
     r"let expires = get_expiration_time\(created, ttl, (?P<e>100)\);", {}, False),
    ("hp_is_expired", [("now", "N"), ("expires", "N")], "bool", DP,
     r"pub const fn is_expired\(&self, now: u64\) -> bool", r"(?P<e>now >= self\.expires)",
     {"now": "now", "self.expires": "expires"}, False),
    ("hp_expires_soon", [("now", "N"), ("expires", "N")], "bool", DP,
     r"pub const fn expires_soon\(&self, now: u64\) -> bool", r"(?P<e>now \+ 1000 >= self\.expires)",
     {"now": "now", "self.expires": "expires"}, False),
    ("hp_refresh_due", [("now", "N"), ("refresh", "N")], "bool", DP,
     r"pub const fn refresh_due\(&self, now: u64\) -> bool", r"(?P<e>now >= self\.refresh)",
     {"now": "now", "self.refresh": "refresh"}, False),
    ("hp_no_more_percent", [], "N", DP, r"pub fn refresh_no_more\(&mut self\)",
     r"self\.refresh = get_expiration_time\(self\.created, self\.ttl, (?P<e>100)\);", {}, False),
    ("hp_reset_full_refresh", [("ttl", "N")], "bool", DP, r"fn reset_ttl\(&mut self, other: &Self\)",
     r"self\.refresh = if (?P<e>self\.ttl > 1) \{", {"self.ttl": "ttl"}, False),
    ("hp_reset_refresh_percent", [], "N", DP, r"fn reset_ttl\(&mut self, other: &Self\)",
     r"get_expiration_time\(self\.created, self\.ttl, (?P<e>80)\)", {}, False),
    ("hp_reset_expire_percent", [], "N", DP, r"fn reset_ttl\(&mut self, other: &Self\)",
     r"self\.expires = get_expiration_time\(self\.created, self\.ttl, (?P<e>100)\);", {}, False),
    ("hp_maybe_80", [], "N", DP, r"pub fn refresh_maybe\(&mut self, now: u64\) -> bool",
     r"if self\.refresh == get_expiration_time\(self\.created, self\.ttl, (?P<e>80)\) \{", {}, False),
    ("hp_maybe_85", [], "N", DP, r"pub fn refresh_maybe\(&mut self, now: u64\) -> bool",
     r"\{\s*self\.refresh = get_expiration_time\(self\.created, self\.ttl, (?P<e>85)\);", {}, False),
    ("hp_maybe_90", [], "N", DP, r"pub fn refresh_maybe\(&mut self, now: u64\) -> bool",
     r"\{\s*self\.refresh = get_expiration_time\(self\.created, self\.ttl, (?P<e>90)\);", {}, False),
    ("hp_maybe_95", [], "N", DP, r"pub fn refresh_maybe\(&mut self, now: u64\) -> bool",
     r"\{\s*self\.refresh = get_expiration_time\(self\.created, self\.ttl, (?P<e>95)\);", {}, False),
    # goodbye: TTL 0 of a response is recorded as 1
    ("hp_ttl_is_goodbye", [("ttl", "N")], "bool", DP, r"fn read_rr_records\(&mut self, count: u16\)",
     r"if (?P<e>ttl == 0) && self\.is_response\(\) \{", {"ttl": "ttl"}, False),
    ("hp_goodbye_ttl", [], "N", DP, r"fn read_rr_records\(&mut self, count: u16\)",
     r"\n\s*ttl = (?P<e>1);", {}, False),
    # ---- cache flush (dns_cache.rs add_or_update) --------------------------------------------
    ("hp_flush_old_enough", [("now", "N"), ("created", "N")], "bool", DC, r"pub\(crate\) fn add_or_update\(",
     r"&& (?P<e>now > r\.record\.get_created\(\) \+ 1000)", {"now": "now", "r.record.get_created()": "created"}, False),
    ("hp_flush_far_enough", [("now", "N"), ("expires", "N")], "bool", DC, r"pub\(crate\) fn add_or_update\(",
     r"&& (?P<e>r\.record\.get_expire\(\) > now \+ 1000)", {"now": "now", "r.record.get_expire()": "expires"}, False),
    # a record on its way out (TTL <= 1) announced again with TTL > 1 is returned as new
    ("hp_revived", [("old_ttl", "N"), ("new_ttl", "N")], "bool", DC, r"pub\(crate\) fn add_or_update\(",
     r"let revived =\s*(?P<e>r\.record\.get_record\(\)\.get_ttl\(\) <= 1 && incoming\.get_record\(\)\.get_ttl\(\) > 1);",
     {"r.record.get_record().get_ttl()": "old_ttl", "incoming.get_record().get_ttl()": "new_ttl"}, False),
    ("hp_flush_new_expire", [("now", "N")], "N", DC, r"pub\(crate\) fn add_or_update\(",
     r"let new_expire = (?P<e>now \+ 1000);", {"now": "now"}, False),
]
