"""Constants and guards of the probing / conflict / goodbye layer (C07, C08, C09).

Every number and comparison direction the property texts mention is taken from the Rust
sources on every run: 250 ms probe spacing, 750 ms probe completion, 1000 ms tie-break
deferral, jitter 0..250, 1000 ms announcement repeat, 120 ms goodbye repeat, host/other TTL,
and the directions `now >= next_send`, `now >= start_time + 750`, `start_time >= now`."""
OUT = "ParamsRegistry.v"
CONST_ITEMS = [
    ("dns_host_ttl", "src/service_info.rs", "DNS_HOST_TTL"),
    ("dns_other_ttl", "src/service_info.rs", "DNS_OTHER_TTL"),
    ("class_in", "src/dns_parser.rs", "CLASS_IN"),
]
SI = "src/service_info.rs"
SD = "src/service_daemon.rs"
ITEMS = [
    # Probe::update_next_send: self.next_send = now + 250;
    ("probe_next_send", [("now", "N")], "N", SI,
     r"pub\(crate\) fn update_next_send\(&mut self, now: u64\)", r"self\.next_send = (?P<e>[^;]+);",
     {"now": "now"}, False),
    # Probe::expired: now >= self.start_time + 750
    ("probe_expired", [("start_time", "N"), ("now", "N")], "bool", SI,
     r"pub\(crate\) fn expired\(&self, now: u64\) -> bool", r"\n\s*(?P<e>now [^\n;}]+)\n",
     {"now": "now", "self.start_time": "start_time"}, False),
    # Probe::tiebreaking: if self.start_time >= now { return; }
    ("tiebreak_not_started", [("start_time", "N"), ("now", "N")], "bool", SI,
     r"pub\(crate\) fn tiebreaking\(&mut self", r"if (?P<e>self\.start_time [^{]+?) \{",
     {"now": "now", "self.start_time": "start_time"}, False),
    # ... self.start_time = now + 1000; self.next_send = now + 1000;
    ("tiebreak_defer_start", [("now", "N")], "N", SI,
     r"pub\(crate\) fn tiebreaking\(&mut self", r"self\.start_time = (?P<e>[^;]+);",
     {"now": "now"}, False),
    ("tiebreak_defer_next", [("now", "N")], "N", SI,
     r"pub\(crate\) fn tiebreaking\(&mut self", r"self\.next_send = (?P<e>[^;]+);",
     {"now": "now"}, False),
    # check_probing: if now >= probe.next_send
    ("probe_due", [("next_send", "N"), ("now", "N")], "bool", SD,
     r"\nfn check_probing\(", r"if (?P<e>now [^{]+?probe\.next_send) \{",
     {"now": "now", "probe.next_send": "next_send"}, False),
    # prepare_announce / conflict_handler: fastrand::u64(0..250)
    ("jitter_bound_announce", [], "N", SD,
     r"\nfn prepare_announce\(", r"fastrand::u64\(0\.\.(?P<e>\d+)\)", {}, False),
    ("jitter_bound_conflict", [], "N", SD,
     r"fn conflict_handler\(&mut self", r"fastrand::u64\(0\.\.(?P<e>\d+)\)", {}, False),
    # probing_handler: let next_time = now + 1000;  (second announcement)
    ("announce_repeat_probing", [("now", "N")], "N", SD,
     r"fn probing_handler\(&mut self\)", r"let next_time = (?P<e>now [^;]+);",
     {"now": "now"}, False),
    # send_unsolicited_response: let next_time = current_time_millis() + 1000;
    ("announce_repeat_register", [], "N", SD,
     r"fn send_unsolicited_response\(&mut self", r"let next_time = current_time_millis\(\) \+ (?P<e>\d+);", {}, False),
    # add_interface: let next_time = current_time_millis() + 1000;  (second announcement on a new interface)
    ("announce_repeat_add_interface", [], "N", SD,
     r"fn add_interface\(&mut self", r"let next_time = current_time_millis\(\) \+ (?P<e>\d+);", {}, False),
    # exec_command_unregister: let next_time = current_time_millis() + 120;  (IPv4 and IPv6 arm)
    ("goodbye_repeat_v4", [], "N", SD,
     r"fn exec_command_unregister\(", r"(?s)let next_time = current_time_millis\(\) \+ (?P<e>\d+);(?:(?!let next_time).)*?UnregisterResend\(packet, \*if_index, true\)", {}, False),
    ("goodbye_repeat_v6", [], "N", SD,
     r"fn exec_command_unregister\(", r"(?s)let next_time = current_time_millis\(\) \+ (?P<e>\d+);(?:(?!let next_time).)*?UnregisterResend\(packet, \*if_index, false\)", {}, False),
    # name_change / hostname_change: number.checked_add(1) on a value parsed as u32
    ("name_suffix_step", [], "N", SD,
     r"\nfn name_change\(original: &str\) -> String", r"parse::<u32>\(\)[^}]*?number\.checked_add\((?P<e>\d+)\)", {}, False),
    ("host_suffix_step", [], "N", SD,
     r"\nfn hostname_change\(original: &str\) -> String", r"parse::<u32>\(\)[^}]*?number\.checked_add\((?P<e>\d+)\)", {}, False),
]
