"""Guards of the codec / TXT layer (C16)."""
OUT = "Params.v"
CONST_ITEMS = []
ITEMS = [
    ("txt_prop_refused_len", [("prop_len", "N")], "bool", "src/service_info.rs",
     r"pub fn new<Ip: AsIpAddrs, P: IntoTxtProperties>\(", r"if (?P<e>prop_len [^{]+?) \{",
     {"prop_len": "prop_len"}, False),
]
