"""Record lifetime arithmetic, refresh ladder, cache-flush rule, known-answer rule (C11, C10).

Every one-line body / constant / comparison direction the property texts mention is regenerated
from the Rust source into coq/Gen/ParamsLife.v; coq/Model/Life.v and LifeCache.v call these
definitions, coq/Proofs/ParamsLifePinned.v pins them to the literal numbers by reflexivity.
"""
OUT = "ParamsLife.v"
P = "src/dns_parser.rs"
C = "src/dns_cache.rs"

CONST_ITEMS = []

GET = r"get_expiration_time\(self\.created, self\.ttl, "
WHOLE = r"(?P<e>\S[^;{}]*\S)"        # the whole (comment-stripped) body is one expression


def ladder(k):
    """The if/else-if ladder of refresh_maybe with the k-th percent literal captured.
    Positions: 0 from1, 1 to1, 2 from2, 3 to2, 4 from3, 5 to3."""
    nums = [r"\d+"] * 6
    nums[k] = r"(?P<e>\d+)"
    return (r"if self\.refresh == " + GET + nums[0] + r"\) \{\s*self\.refresh = " + GET + nums[1] + r"\);\s*"
            r"\} else if self\.refresh == " + GET + nums[2] + r"\) \{\s*self\.refresh = " + GET + nums[3] + r"\);\s*"
            r"\} else if self\.refresh == " + GET + nums[4] + r"\) \{\s*self\.refresh = " + GET + nums[5] + r"\);\s*"
            r"\} else \{\s*self\.refresh_no_more\(\);\s*\}\s*true\s*$")


H_NEW = r"fn new\(name: &str, ty: RRType, class: u16, ttl: u32\) -> Self "
H_MAYBE = r"pub fn refresh_maybe\(&mut self, now: u64\) -> bool "
H_RESET = r"fn reset_ttl\(&mut self, other: &Self\) "
H_UPD = r"pub fn update_ttl\(&mut self, now: u64\) "
H_REM = r"fn get_remaining_ttl\(&self, now: u64\) -> u32 "
H_AOU = r"pub\(crate\) fn add_or_update\("
H_KA = r"pub\(crate\) fn get_known_answers<'a>\("
H_SUPP = r"fn suppressed_by_answer\(&self, other: &dyn DnsRecordExt\) -> bool "
H_RR = r"fn read_rr_records\(&mut self, count: u16\) -> Result<Vec<DnsRecordBox>> "

ITEMS = [
    # get_expiration_time(created, ttl, percent) = created + ttl*percent*10
    ("expiration_time", [("created", "N"), ("ttl", "N"), ("percent", "N")], "N", P,
     r"const fn get_expiration_time\(created: u64, ttl: u32, percent: u32\) -> u64 ", WHOLE,
     {"created": "created", "ttl": "ttl", "percent": "percent"}, False),
    # DnsRecord::new
    ("new_refresh_percent", [], "N", P, H_NEW, r"let refresh = get_expiration_time\(created, ttl, (?P<e>\d+)\);", {}, False),
    ("new_expires_percent", [], "N", P, H_NEW, r"let expires = get_expiration_time\(created, ttl, (?P<e>\d+)\);", {}, False),
    # one-line predicates
    ("is_expired_g", [("now", "N"), ("expires", "N")], "bool", P, r"pub const fn is_expired\(&self, now: u64\) -> bool ", WHOLE,
     {"now": "now", "self.expires": "expires"}, False),
    ("expires_soon_g", [("now", "N"), ("expires", "N")], "bool", P, r"pub const fn expires_soon\(&self, now: u64\) -> bool ", WHOLE,
     {"now": "now", "self.expires": "expires"}, False),
    ("expires_soon_lhs", [("now", "N")], "N", P, r"pub const fn expires_soon\(&self, now: u64\) -> bool ",
     r"^\s*(?P<e>now \+ \d+) [<>=]+ self\.expires\s*$", {"now": "now"}, False),
    ("refresh_due_g", [("now", "N"), ("refresh", "N")], "bool", P, r"pub const fn refresh_due\(&self, now: u64\) -> bool ", WHOLE,
     {"now": "now", "self.refresh": "refresh"}, False),
    ("halflife_percent", [], "N", P, r"pub fn halflife_passed\(&self, now: u64\) -> bool ",
     r"let halflife = " + GET + r"(?P<e>\d+)\);", {}, False),
    ("halflife_passed_g", [("now", "N"), ("halflife", "N")], "bool", P, r"pub fn halflife_passed\(&self, now: u64\) -> bool ",
     r";\s*(?P<e>now\s*[<>=!]+\s*halflife)\s*$", {"now": "now", "halflife": "halflife"}, False),
    ("no_more_percent", [], "N", P, r"pub fn refresh_no_more\(&mut self\) ",
     r"^\s*self\.refresh = " + GET + r"(?P<e>\d+)\);\s*$", {}, False),
    # refresh_maybe: guard structure and the ladder
    ("refresh_maybe_guard_returns", [], "bool", P, H_MAYBE,
     r"^\s*if self\.is_expired\(now\) \|\| !self\.refresh_due\(now\) \{\s*return (?P<e>false);\s*\}", {"false": "false"}, False),
    ("ladder_from1", [], "N", P, H_MAYBE, ladder(0), {}, False),
    ("ladder_to1", [], "N", P, H_MAYBE, ladder(1), {}, False),
    ("ladder_from2", [], "N", P, H_MAYBE, ladder(2), {}, False),
    ("ladder_to2", [], "N", P, H_MAYBE, ladder(3), {}, False),
    ("ladder_from3", [], "N", P, H_MAYBE, ladder(4), {}, False),
    ("ladder_to3", [], "N", P, H_MAYBE, ladder(5), {}, False),
    # reset_ttl
    ("reset_expires_percent", [], "N", P, H_RESET,
     r"self\.ttl = other\.ttl;\s*self\.created = other\.created;\s*self\.expires = " + GET + r"(?P<e>\d+)\);", {}, False),
    ("reset_refresh_guard", [("ttl", "N")], "bool", P, H_RESET,
     r"self\.refresh = if (?P<e>self\.ttl [^{]+?) \{", {"self.ttl": "ttl"}, False),
    ("reset_refresh_percent", [], "N", P, H_RESET,
     r"self\.refresh = if [^{]+\{\s*" + GET + r"(?P<e>\d+)\)\s*\} else \{\s*self\.expires\s*\};\s*$", {}, False),
    # update_ttl
    ("update_ttl_guard", [("now", "N"), ("created", "N")], "bool", P, H_UPD,
     r"^\s*if (?P<e>now [^{]+?) \{", {"now": "now", "self.created": "created"}, False),
    ("update_ttl_elapsed", [("now", "N"), ("created", "N")], "N", P, H_UPD,
     r"let elapsed = (?P<e>[^;]+);", {"now": "now", "self.created": "created"}, True),
    ("update_ttl_dec", [("elapsed", "N")], "N", P, H_UPD,
     r"self\.ttl -= (?P<e>[^;]+?) as u32;\s*\}\s*$", {"elapsed": "elapsed"}, False),
    # get_remaining_ttl
    ("remaining_percent", [], "N", P, H_REM,
     r"let remaining_millis = get_expiration_time\(self\.created, self\.ttl, (?P<e>\d+)\) - now;", {}, False),
    ("remaining_secs", [("remaining_millis", "N")], "N", P, H_REM,
     r"cmp::max\(0, (?P<e>[^)]+)\) as u32\s*$", {"remaining_millis": "remaining_millis"}, False),
    # set_expire_sooner
    ("expire_sooner_guard", [("expire_at", "N"), ("expires", "N")], "bool", P,
     r"fn set_expire_sooner\(&mut self, expire_at: u64\) ", r"^\s*if (?P<e>expire_at [^{]+?) \{\s*self\.get_record_mut\(\)\.set_expire\(expire_at\);",
     {"expire_at": "expire_at", "self.get_expire()": "expires"}, False),
    # known-answer suppression: same_record && (other.ttl > self.ttl / 2); same_record = matches
    # with the other record's cache-flush bit overridden by our own
    ("suppress_ttl_cond", [("self_ttl", "N"), ("other_ttl", "N")], "bool", P, H_SUPP,
     r"\};\s*same_record && (?P<e>\([^\n]+\))\s*$",
     {"other.get_record().ttl": "other_ttl", "self.get_record().ttl": "self_ttl"}, False),
    ("suppress_flush_override", [("self_flush", "bool")], "bool", P, H_SUPP,
     r"^\s*let same_record = if other\.get_cache_flush\(\) == self\.get_cache_flush\(\) \{\s*self\.matches\(other\)\s*\} else \{\s*"
     r"let mut other = other\.clone_box\(\);\s*other\.get_record_mut\(\)\.entry\.cache_flush = (?P<e>self\.get_cache_flush\(\));\s*"
     r"self\.matches\(other\.as_ref\(\)\)\s*\};",
     {"self.get_cache_flush()": "self_flush"}, False),
    # TTL 0 in a response is stored as 1
    ("ttl_zero_guard", [("ttl", "N")], "bool", P, H_RR,
     r"if (?P<e>ttl == \d+) && self\.is_response\(\) \{", {"ttl": "ttl"}, False),
    ("ttl_zero_becomes", [], "N", P, H_RR,
     r"if ttl == \d+ && self\.is_response\(\) \{\s*ttl = (?P<e>\d+);\s*\}", {}, False),
    # cache-flush one-second rule (add_or_update)
    ("flush_cond", [("cls", "N"), ("r_cls", "N"), ("rtype", "N"), ("r_type", "N"), ("now", "N"), ("r_created", "N"), ("r_expire", "N")],
     "bool", C, H_AOU, r"if (?P<e>class == r\.record\.get_class\(\)\s*&&[^{]+?)\s*\{\s*should_flush = true;",
     {"class": "cls", "r.record.get_class()": "r_cls", "rtype": "rtype", "r.record.get_type()": "r_type", "now": "now",
      "r.record.get_created()": "r_created", "r.record.get_expire()": "r_expire"}, False),
    ("flush_created_lhs", [("r_created", "N")], "N", C, H_AOU,
     r"&& now > (?P<e>r\.record\.get_created\(\) \+ \d+)\s", {"r.record.get_created()": "r_created"}, False),
    ("flush_now_rhs", [("now", "N")], "N", C, H_AOU,
     r"&& r\.record\.get_expire\(\) > (?P<e>now \+ \d+)\s", {"now": "now"}, False),
    ("flush_is_addr_type", [("rtype", "N")], "bool", C, H_AOU,
     r"if (?P<e>rtype == RRType::A \|\| rtype == RRType::AAAA) \{", {"rtype": "rtype", "RRType::A": "1", "RRType::AAAA": "28"}, False),
    ("flush_same_intf", [("a_index", "N"), ("b_index", "N")], "bool", C, H_AOU,
     r"should_flush = (?P<e>addr\.interface_id\.index == addr_b\.interface_id\.index);",
     {"addr.interface_id.index": "a_index", "addr_b.interface_id.index": "b_index"}, False),
    ("flush_new_expire", [("now", "N")], "N", C, H_AOU,
     r"let new_expire = (?P<e>[^;]+);\s*r\.record\.set_expire\(new_expire\);\s*timers\.push\(new_expire\);", {"now": "now"}, False),
    # a matching record on its way out (TTL <= 1) renewed with TTL > 1 is reported as new
    ("revived_cond", [("old_ttl", "N"), ("new_ttl", "N")], "bool", C, H_AOU,
     r"let revived =\s*(?P<e>r\.record\.get_record\(\)\.get_ttl\(\) <= \d+ && incoming\.get_record\(\)\.get_ttl\(\) > \d+);\s*"
     r"r\.record\.reset_ttl\(incoming\.as_ref\(\)\);\s*\(i, revived\)",
     {"r.record.get_record().get_ttl()": "old_ttl", "incoming.get_record().get_ttl()": "new_ttl"}, False),
    # known-answer list of a query: shared records only, not past half life
    ("ka_shared_filter", [("is_unique", "bool")], "bool", C, H_KA,
     r"\.filter\(move \|r\| \{\s*(?P<e>!r\.record\.get_record\(\)\.is_unique\(\)) && !r\.record\.get_record\(\)\.halflife_passed\(now\)\s*\}\)",
     {"r.record.get_record().is_unique()": "is_unique"}, False),
]
