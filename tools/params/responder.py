"""Constants and guards of the responder / interface layer (C06, C18).

Regenerated from the Rust sources into coq/Gen/ParamsResponder.v on every run;
coq/Model/Intf.v, Responder.v, ResponderSpec.v, IntfDaemon.v use these definitions and
coq/Proofs/ParamsResponderPinned.v pins them to the literal numbers / comparison directions of
the property texts by reflexivity.
"""
OUT = "ParamsResponder.v"
D = "src/service_daemon.rs"
P = "src/dns_parser.rs"
S = "src/service_info.rs"

CONST_ITEMS = [
    ("dns_host_ttl", S, "DNS_HOST_TTL"),            # SRV / address records: 120 s
    ("dns_other_ttl", S, "DNS_OTHER_TTL"),          # PTR / TXT records: 4500 s
    ("mdns_port", D, "MDNS_PORT"),                  # 5353
    ("ip_check_interval_secs_default", D, "IP_CHECK_INTERVAL_IN_SECS_DEFAULT"),
    ("flags_qr_response", P, "FLAGS_QR_RESPONSE"),
    ("flags_aa", P, "FLAGS_AA"),
    ("class_in", P, "CLASS_IN"),
    ("class_cache_flush", P, "CLASS_CACHE_FLUSH"),
    ("class_mask", P, "CLASS_MASK"),
]

BOOL = {"true": "true", "false": "false"}
H_HQ = r"fn handle_query\(&mut self, msg: DnsIncoming, if_index: u32, querier_addr: SocketAddr\) "

ITEMS = [
    # known-answer suppression: matches && other.ttl > self.ttl / 2
    ("suppress_ttl_test", [("other_ttl", "N"), ("self_ttl", "N")], "bool", P,
     r"fn suppressed_by_answer\(&self, other: &dyn DnsRecordExt\) -> bool ",
     r"same_record && \((?P<e>[^()]*(?:\(\))?[^()]*(?:\(\))?[^()]*)\)\s*$",
     {"other.get_record().ttl": "other_ttl", "self.get_record().ttl": "self_ttl"}, False),
    # a response is sent only when at least one answer was added
    ("respond_guard", [("answers_count", "N")], "bool", D, H_HQ,
     r"if (?P<e>out\.answers_count\(\) > 0) \{", {"out.answers_count()": "answers_count"}, False),
    # legacy unicast: source port other than 5353
    ("legacy_unicast_test", [("port", "N")], "bool", D, H_HQ,
     r"let unicast_dest = if (?P<e>querier_addr\.port\(\) != MDNS_PORT) \{", {"querier_addr.port()": "port"}, False),
    # DnsOutgoing::new: the multicast flag every outgoing message starts with (never changed afterwards)
    ("outgoing_multicast_default", [], "bool", P, r"pub fn new\(flags: u16\) -> Self ",
     r"multicast: (?P<e>true|false),", BOOL, False),
    # handle_query: a legacy unicast response is marked as not multicast, so that its id is written
    ("legacy_multicast_flag", [], "bool", D, H_HQ, r"out\.set_multicast\((?P<e>true|false)\);", BOOL, False),
    # to_packets: the id written into the header of a message whose multicast flag is set
    ("wire_id_when_multicast", [], "N", P, r"pub fn to_packets\(&self\) -> Vec<DnsOutPacket> ",
     r"let id = if self\.multicast \{ (?P<e>\d+) \} else \{ self\.id \};", {}, False),
    # interface selection: every interface is selected unless a selection says otherwise
    ("selection_default", [], "bool", D, r"fn selected_intfs\(&self, interfaces: Vec<Interface>\) -> HashSet<Interface> ",
     r"let mut intf_selections = vec!\[(?P<e>true|false); intf_count\];", BOOL, False),
    ("apply_selection_default", [], "bool", D, r"fn apply_intf_selections\(&mut self, interfaces: Vec<Interface>\) ",
     r"let mut intf_selections = vec!\[(?P<e>true|false); intf_count\];", BOOL, False),
    # valid_ip_on_intf: equality of the masked addresses (v4 and v6 arm)
    ("subnet_test_v4", [("addr_net", "N"), ("intf_net", "N")], "bool", S,
     r"pub\(crate\) fn valid_ip_on_intf\(addr: &IpAddr, if_addr: &IfAddr\) -> bool ",
     r"let addr_net = u32::from\(\*addr\) & netmask;\s*(?P<e>addr_net == intf_net)", {"addr_net": "addr_net", "intf_net": "intf_net"}, False),
    ("subnet_test_v6", [("addr_net", "N"), ("intf_net", "N")], "bool", S,
     r"pub\(crate\) fn valid_ip_on_intf\(addr: &IpAddr, if_addr: &IfAddr\) -> bool ",
     r"let addr_net = u128::from\(\*addr\) & netmask;\s*(?P<e>addr_net == intf_net)", {"addr_net": "addr_net", "intf_net": "intf_net"}, False),
    # run loop: when the periodic IP check is due, and when the next one is scheduled
    ("ip_check_due", [("now", "N"), ("next_ip_check", "N")], "bool", D,
     r"fn run\(&mut self, receiver: Receiver<Command>\) -> Option<Command> ",
     r"\} else if (?P<e>now >= next_ip_check) \{", {"now": "now", "next_ip_check": "next_ip_check"}, False),
    ("ip_check_default_millis", [], "N", D, None,
     r"let ip_check_interval = (?P<e>IP_CHECK_INTERVAL_IN_SECS_DEFAULT as u64 \* 1000);", {}, False),
]
