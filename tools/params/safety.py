"""Guards and constants of the safety group (C14 shutdown / command queue, C15 validators)."""
OUT = "ParamsSafety.v"
SD = "src/service_daemon.rs"
DP = "src/dns_parser.rs"
SI = "src/service_info.rs"
CONST_ITEMS = [
    # DOMAIN_LEN = "._tcp.local.".len() is passed as a parameter (the model computes it from the
    # same literal); the shared const evaluator mangles string literals containing '_'.
    ("service_name_len_max_default", SD, "SERVICE_NAME_LEN_MAX_DEFAULT"),
    ("service_name_len_max_limit", SD, "SERVICE_NAME_LEN_MAX_LIMIT"),
]
ITEMS = [
    # bounded(100): capacity of the command channel
    ("cmd_queue_bound", [], "N", SD, r"pub fn new_with_port\(port: u16\) -> Result<Self>",
     r"let \(sender, receiver\) = bounded\((?P<e>[^)]+)\);", {}, False),
    # bounded(10): capacity of a browse / hostname-resolution listener (the daemon's `send` blocks when full)
    ("browse_listener_bound", [], "N", SD, r"pub fn browse\(&self, service_type: &str\) -> Result<Receiver<ServiceEvent>>",
     r"bounded\((?P<e>[^)]+)\);", {}, False),
    ("resolver_listener_bound", [], "N", SD, r"pub fn resolve_hostname\(",
     r"bounded\((?P<e>[^)]+)\);", {}, False),
    # check_service_name_length
    ("svc_type_too_short", [("ty_len", "N"), ("domain_len", "N")], "bool", SD, r"(?m)^fn check_service_name_length\(ty_domain: &str, limit: u8\) -> Result<\(\)>",
     r"if (?P<e>ty_domain\.len\(\) <= [^{]+?) \{", {"ty_domain.len()": "ty_len", "DOMAIN_LEN": "domain_len"}, False),
    ("svc_name_len", [("ty_len", "N"), ("domain_len", "N")], "N", SD, r"(?m)^fn check_service_name_length\(ty_domain: &str, limit: u8\) -> Result<\(\)>",
     r"let service_name_len = (?P<e>[^;]+);", {"ty_domain.len()": "ty_len", "DOMAIN_LEN": "domain_len"}, True),
    ("svc_name_too_long", [("service_name_len", "N"), ("limit", "N")], "bool", SD,
     r"(?m)^fn check_service_name_length\(ty_domain: &str, limit: u8\) -> Result<\(\)>",
     r"if (?P<e>service_name_len > [^{]+?) \{", {"service_name_len": "service_name_len", "limit": "limit"}, False),
    # set_service_name_len_max
    ("len_max_refused", [("len_max", "N")], "bool", SD, r"pub fn set_service_name_len_max\(&self, len_max: u8\) -> Result<\(\)>",
     r"if (?P<e>len_max > [^{]+?) \{", {"len_max": "len_max"}, False),
    # check_hostname
    ("hostname_too_long", [("hostname_len", "N")], "bool", SD, r"(?m)^fn check_hostname\(hostname: &str\) -> Result<\(\)>",
     r"if (?P<e>hostname\.len\(\) > [^{]+?) \{", {"hostname.len()": "hostname_len"}, False),
    # name_labels_fit / write_utf8
    ("label_fits", [("label_len", "N")], "bool", DP, r"pub\(crate\) fn name_labels_fit\(name: &str\) -> bool",
     r"\.all\(\|label\| (?P<e>label\.len\(\) < \d+)\)", {"label.len()": "label_len"}, False),
    ("write_utf8_assert", [("s_len", "N")], "bool", DP, r"fn write_utf8\(&mut self, s: &str\)",
     r"assert!\((?P<e>[^)]+\) < \d+)\);", {"s.len()": "s_len"}, False),
    # valid_instance_name: name.split('.').count() >= 5
    ("instance_min_parts", [], "N", SD, r"(?m)^fn valid_instance_name\(name: &str\) -> bool",
     r"\.count\(\) >= (?P<e>\d+)", {}, False),
]
