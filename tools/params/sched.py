"""Constants and comparisons of the scheduling core (C19, C13, C12): back-off arithmetic of
browse / resolve_hostname retransmissions, timer popping, resolver deadline tests, interface
check re-arming.  Every anchor isolates ONE Rust expression; the surrounding regex text pins
the shape of the statement it sits in (e.g. `cmp::min(<e>, max_delay)`)."""
OUT = "ParamsSched.v"
F = "src/service_daemon.rs"

CONST_ITEMS = [
    ("ip_check_interval_default_secs", F, "IP_CHECK_INTERVAL_IN_SECS_DEFAULT"),
]

BROWSE = r"fn exec_command_browse\("
RESOLVE = r"fn exec_command_resolve_hostname\("
RUN = r"fn run\(&mut self, receiver: Receiver<Command>\)"

ITEMS = [
    # ---- browse chain
    ("browse_next_time", [("now", "N"), ("next_delay", "N")], "N", F, BROWSE,
     r"let next_time = (?P<e>now \+ \(next_delay \* \d+\) as u64);",
     {"now": "now", "next_delay": "next_delay"}, False),
    ("browse_max_delay", [], "N", F, BROWSE,
     r"let max_delay = (?P<e>[^;]+);", {}, False),
    ("browse_doubled", [("next_delay", "N")], "N", F, BROWSE,
     r"let delay = cmp::min\((?P<e>next_delay \* \d+), max_delay\);",
     {"next_delay": "next_delay"}, False),
    ("browse_first_delay", [], "N", F, r"pub fn browse\(&self, service_type: &str\)",
     r"Command::Browse\(service_type\.to_string\(\), (?P<e>\d+), false, resp_s\)", {}, False),
    ("browse_cache_first_delay", [], "N", F, r"pub fn browse_cache\(&self, service_type: &str\)",
     r"Command::Browse\(service_type\.to_string\(\), (?P<e>\d+), true, resp_s\)", {}, False),
    # ---- resolve_hostname chain
    ("resolve_millis_per_sec", [], "N", F, RESOLVE,
     r"let next_time = now \+ u64::from\(next_delay\) \* (?P<e>\d+);", {}, False),
    ("resolve_max_delay", [], "N", F, RESOLVE,
     r"let max_delay = (?P<e>[^;]+);", {}, False),
    ("resolve_doubled", [("next_delay", "N")], "N", F, RESOLVE,
     r"let delay = cmp::min\((?P<e>next_delay \* \d+), max_delay\);",
     {"next_delay": "next_delay"}, False),
    ("resolve_requeue_guard", [("next_time", "N"), ("timeout", "N")], "bool", F, RESOLVE,
     r"\.map\(\|timeout\| (?P<e>next_time [<>=]+ timeout)\)\s*\.unwrap_or\(true\)",
     {"next_time": "next_time", "timeout": "timeout"}, False),
    ("resolve_first_delay", [], "N", F, r"pub fn resolve_hostname\(",
     r"Command::ResolveHostname\(\s*hostname\.to_string\(\),\s*(?P<e>\d+),\s*resp_s,\s*timeout,\s*\)", {}, False),
    # ---- run loop: timers, resolver deadlines, interface check
    ("timer_kept", [("v", "N"), ("now", "N")], "bool", F, r"fn pop_timers_till\(&mut self, now: u64\)",
     r"if \*(?P<e>v [<>=]+ now) \{\s*break;", {"v": "v", "now": "now"}, False),
    ("resolver_expired", [("now", "N"), ("t", "N")], "bool", F, RUN,
     r"\.filter\(\|\(_, \(_, timeout\)\)\| timeout\.map\(\|t\| (?P<e>now [<>=]+ t)\)\.unwrap_or\(false\)\)",
     {"now": "now", "t": "t"}, False),
    ("ip_check_disabled", [("ival", "N")], "bool", F, RUN,
     r"if (?P<e>self\.ip_check_interval == 0) \{\s*next_ip_check = 0;",
     {"self.ip_check_interval": "ival"}, False),
    ("ip_check_unarmed", [("next_ip_check", "N")], "bool", F, RUN,
     r"\} else if (?P<e>next_ip_check == 0) \{", {"next_ip_check": "next_ip_check"}, False),
    ("ip_check_rearm_time", [("now", "N"), ("ival", "N")], "N", F, RUN,
     r"\} else if next_ip_check == 0 \{\s*next_ip_check = (?P<e>now \+ self\.ip_check_interval);\s*self\.add_timer\(next_ip_check\);",
     {"now": "now", "self.ip_check_interval": "ival"}, False),
    ("ip_check_due", [("now", "N"), ("next_ip_check", "N")], "bool", F, RUN,
     r"\} else if (?P<e>now [<>=]+ next_ip_check) \{", {"now": "now", "next_ip_check": "next_ip_check"}, False),
    ("ip_check_next_time", [("now", "N"), ("ival", "N")], "N", F, RUN,
     r"\} else if now >= next_ip_check \{\s*next_ip_check = (?P<e>now \+ self\.ip_check_interval);\s*self\.add_timer\(next_ip_check\);",
     {"now": "now", "self.ip_check_interval": "ival"}, False),
    ("ip_check_first_armed", [("ival", "N")], "bool", F, RUN,
     r"let mut next_ip_check = if (?P<e>self\.ip_check_interval > 0) \{\s*current_time_millis\(\) \+ self\.ip_check_interval",
     {"self.ip_check_interval": "ival"}, False),
    ("ip_check_interval_of_secs", [("interval_in_secs", "N")], "N", F,
     r"pub fn set_ip_check_interval\(&self, interval_in_secs: u32\)",
     r"let interval_in_millis = (?P<e>interval_in_secs as u64 \* \d+);",
     {"interval_in_secs": "interval_in_secs"}, False),
    ("ip_check_interval_initial", [], "N", F, r"fn new\(\s*signal_sock: MioUdpSocket,",
     r"let ip_check_interval = (?P<e>IP_CHECK_INTERVAL_IN_SECS_DEFAULT as u64 \* \d+);", {}, False),
]
