#!/bin/sh
# run a command in a private network namespace that looks like the sandbox (lo + one ethernet-like intf)
ip link set lo up
ip link add eth0 type veth peer name peer0
sysctl -q -w net.ipv6.conf.peer0.disable_ipv6=1
ip link set peer0 up
ip addr add 192.0.2.2/24 dev eth0
ip link set eth0 up
ip -6 addr add fd00::2/64 dev eth0 nodad
ip route add 224.0.0.0/4 dev eth0 2>/dev/null
sleep 3
exec "$@"
