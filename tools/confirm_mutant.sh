#!/bin/sh
# Confirms a seeded change in a scratch worktree (outside /repo and /verif):
#   tools/confirm_mutant.sh <dir with patch.diff + demo.rs> <append:src/file.rs | tests:name.rs> <cargo test args for the demo>
# 1. unmodified tree + demo  -> demo must pass
# 2. tree + patch: builds, the existing suite passes (up to 3 attempts: the integration tests
#    use real multicast sockets and are timing-sensitive), demo must fail.
# Prints one line per step and a final CONFIRMED / NOT-CONFIRMED. The worktree /tmp/confirm_wt
# is reused between calls (warm target dir) and must be removed by the caller at the end.
set -u
D="$(readlink -f "$1")"; WHERE="$2"; shift 2
W=${CONFIRM_WT:-/tmp/confirm_wt}
L=$W.log
# run cargo test in a private network namespace when possible: the integration tests use real
# multicast on port 5353 and see the traffic of every other job on the machine otherwise
if unshare -n true 2>/dev/null; then NS="unshare -n sh /verif/tools/netns_run.sh"; else NS=""; fi
[ -d "$W" ] || git -C /repo worktree add -q --detach "$W" HEAD || exit 2
cd "$W" && git checkout -q -- . && git clean -fdq -e target
place() {
  case "$WHERE" in
    append:*) cat "$D/demo.rs" >> "${WHERE#append:}" ;;
    tests:*) cp "$D/demo.rs" "tests/${WHERE#tests:}" ;;
  esac
}
place
if $NS cargo test --offline "$@" >$L.demo0 2>&1; then echo "demo on unmodified tree: PASS"; ok0=1; else echo "demo on unmodified tree: FAIL (unexpected)"; ok0=0; fi
git checkout -q -- . && git clean -fdq -e target
git apply "$D/patch.diff" || { echo "patch does not apply"; exit 2; }
if cargo build --offline >$L.build 2>&1; then echo "build with change: OK"; okb=1; else echo "build with change: FAILED"; okb=0; fi
oks=0
for i in 1 2 3; do
  if $NS cargo test --workspace --no-fail-fast --offline >$L.suite 2>&1; then oks=1; echo "existing suite with change: PASS (attempt $i)"; break; fi
  echo "existing suite with change: attempt $i failed: $(grep -E '^test .* FAILED' $L.suite | tr '\n' ' ' | cut -c1-300)"
done
place
if $NS cargo test --offline "$@" >$L.demo1 2>&1; then echo "demo with change: PASS (unexpected)"; ok1=0; else echo "demo with change: FAIL (expected): $(grep -E 'panicked|FAILED' $L.demo1 | head -2 | tr '\n' ' ' | cut -c1-300)"; ok1=1; fi
git checkout -q -- . && git clean -fdq -e target
if [ $ok0 = 1 ] && [ $okb = 1 ] && [ $oks = 1 ] && [ $ok1 = 1 ]; then echo CONFIRMED; else echo NOT-CONFIRMED; exit 1; fi
