#!/bin/sh
# Validation of the checks against a seeded change WITHOUT touching /repo or /verif:
#   tools/selftest_mutant.sh <patch.diff> <ID> [<ID> ...]
# Makes scratch copies of /repo (git worktree of HEAD) and /verif under /tmp, applies the patch
# to the repo copy, runs ./check <ID> there (VERIF_REPO points the checks at the copy), prints
# the verdict lines, removes the copies.  Exit status: 0 if every listed check reported a
# VIOLATION (the change was caught), 1 otherwise.
set -u
PATCH="$(readlink -f "$1")"; shift
N=$$
R=/tmp/selftest_repo_$N
V=/tmp/selftest_verif_$N
[ -n "${KEEP:-}" ] || trap 'git -C /repo worktree remove --force "$R" >/dev/null 2>&1; rm -rf "$R" "$V"' EXIT
git -C /repo worktree add -q --detach "$R" HEAD || exit 2
if [ "$PATCH" != "/dev/null" ]; then
  git -C "$R" apply "$PATCH" || { echo "patch does not apply"; exit 2; }
fi
mkdir -p "$V"
# consistent snapshot: no Coq build may be in progress while copying
flock /verif/coq/.build.lock rsync -a --exclude '.git' --exclude 'harness/target' --exclude 'replays' /verif/ "$V"/
sed -i "s|path = \"/repo\"|path = \"$R\"|" "$V/harness/Cargo.toml"
cp "$R/Cargo.lock" "$V/harness/Cargo.lock" 2>/dev/null || true
# reuse compiled dependencies: hard-link copy of the release target dir (falls back to a fresh build)
mkdir -p "$V/harness/target"
cp -al /verif/harness/target/release "$V/harness/target/release" 2>/dev/null || true
caught=1
for id in "$@"; do
  out=$(cd "$V" && VERIF_REPO="$R" ./check "$id" 2>&1)
  rc=$?
  echo "== $id exit=$rc"
  echo "$out" | grep -E "^(check |VIOLATION|KNOWN-FINDING)" | cut -c1-300
  if echo "$out" | grep -q "^VIOLATION"; then
    f=$(echo "$out" | grep "^VIOLATION" | head -1 | sed 's/.*replay=\([^ ]*\).*/\1/')
    [ -f "$f" ] && { echo "-- replay:"; head -c 1500 "$f"; echo; }
  else
    caught=0
  fi
done
[ "$caught" = 1 ]
