#!/usr/bin/env python3
"""Intake of one independently written seeded change: register, confirm, self-test.
usage: intake.py <name> <srcdir> <breaks> <needs text>
 - copies patch.diff / demo.rs / README.md to seeded/<name>/, meta.json from README's PLACE:/RUN: lines
 - tools/confirm_mutant.sh in its own scratch worktree (/tmp/confirm_wt_<name>, removed afterwards)
 - tools/selftest_all.py <name> (scratch copies), then fills caught_by
Prints one summary line. Several intakes may run in parallel."""
import json, os, re, subprocess, sys
V = os.path.dirname(os.path.dirname(os.path.abspath(__file__)))
name, src, pid, needs = sys.argv[1:5]
rd = open(os.path.join(src, "README.md")).read()
place = re.search(r"PLACE:\s*`?([^\s`]+)", rd).group(1)
run = re.search(r"RUN:\s*`?([^`\n]+)", rd).group(1).strip()
subprocess.check_call(["python3", os.path.join(V, "tools/register_mutant.py"), name, src, pid, place, run, needs, "(pending)"],
                      stdout=subprocess.DEVNULL)
mp = os.path.join(V, "seeded", name, "meta.json")
m = json.load(open(mp))
if subprocess.call(["git", "-C", "/repo", "apply", "--check", os.path.join(V, "seeded", name, "patch.diff")]) != 0:
    m["confirmed"] = "patch does not apply on /repo HEAD"
    json.dump(m, open(mp, "w"), indent=1)
    print(name, "PATCH DOES NOT APPLY")
    sys.exit(1)
wt = "/tmp/confirm_wt_" + name
env = dict(os.environ, CONFIRM_WT=wt)
p = subprocess.run([os.path.join(V, "tools/confirm_mutant.sh"), os.path.join(V, "seeded", name), place] + run.split()[3:],
                   env=env, stdout=subprocess.PIPE, stderr=subprocess.STDOUT)
out = p.stdout.decode("utf-8", "replace")
subprocess.call(["git", "-C", "/repo", "worktree", "remove", "--force", wt], stdout=subprocess.DEVNULL, stderr=subprocess.DEVNULL)
subprocess.call(["rm", "-rf", wt] + [wt + ".log." + x for x in ("demo0", "build", "suite", "demo1")])
ok = out.strip().endswith("CONFIRMED") and "NOT-CONFIRMED" not in out
m["confirmed"] = ("tools/confirm_mutant.sh (private network namespace): demo passes on the unmodified tree; with the change the crate "
                  "builds, the 80 existing tests pass, the demo fails") if ok else "NOT CONFIRMED: " + out[-600:]
json.dump(m, open(mp, "w"), indent=1)
if not ok:
    print(name, "NOT CONFIRMED", out[-300:].replace("\n", " | "))
    sys.exit(1)
p = subprocess.run(["python3", os.path.join(V, "tools/selftest_all.py"), name], stdout=subprocess.PIPE, stderr=subprocess.STDOUT)
line = [l for l in p.stdout.decode().split("\n") if l.startswith(name)]
print("CONFIRMED", line[0] if line else p.stdout.decode()[-300:])
