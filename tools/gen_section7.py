#!/usr/bin/env python3
"""Regenerates the two tables of DESIGN.md section 7 from known_findings.json and known/*.json
(the headings carry the counts; the prose around the tables is kept)."""
import glob, json, os, re
V = os.path.dirname(os.path.dirname(os.path.abspath(__file__)))
p = os.path.join(V, "DESIGN.md")
s = open(p).read()
k = json.load(open(os.path.join(V, "known_findings.json")))
fixed = []
for e in k.get("fixed", []):
    m = re.match(r"fixed: property=(C\d+) ([0-9a-f]{7,}) (.*)", e)
    if m:
        fixed.append(m.groups())
finds = list(k.get("findings", []))
for f in sorted(glob.glob(os.path.join(V, "known", "*.json"))):
    finds += json.load(open(f)).get("findings", [])


def cell(x):
    return str(x).replace("|", "/").replace("\n", " ")


t1 = "| commit | property | what failed (witness) |\n|---|---|---|\n" + "\n".join(
    "| %s | %s | %s |" % (c, pr, cell(w)) for pr, c, w in fixed) + "\n"
t2 = "| id | property | what fails |\n|---|---|---|\n" + "\n".join(
    "| `%s` | %s | %s |" % (f.get("id"), f.get("property"), cell(f.get("what") or f.get("class") or "")) for f in finds) + "\n"


def replace_table(s, heading_re, new_heading, table):
    m = re.search(heading_re, s, flags=re.M)
    assert m, heading_re
    i = s.index("\n|", m.end()) + 1
    j = i
    lines = s[i:].split("\n")
    n = 0
    for ln in lines:
        if ln.startswith("|"):
            n += len(ln) + 1
        else:
            break
    return s[:m.start()] + new_heading + s[m.end():i] + table + s[i + n:]


s = replace_table(s, r"^### 7\.1 Repaired \(\d+ `fix:` commits\)", "### 7.1 Repaired (%d `fix:` commits)" % len(fixed), t1)
s = replace_table(s, r"^### 7\.2 Recorded, not repaired \(\d+ known findings\)", "### 7.2 Recorded, not repaired (%d known findings)" % len(finds), t2)
# the summary sentence of section 0
nind = len([n for n in os.listdir(os.path.join(V, "seeded")) if re.match(r"C\d+-m\d+$", n)])
s = re.sub(r"\d+ defects were\s+repaired by `fix:` commits and \d+ are recorded as known findings \(section 7\)\. \d+ independent",
           "%d defects were\nrepaired by `fix:` commits and %d are recorded as known findings (section 7). %d independent" % (len(fixed), len(finds), nind), s)
open(p, "w").write(s)
print("section 7: %d fixed, %d known" % (len(fixed), len(finds)))
