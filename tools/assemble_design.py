#!/usr/bin/env python3
"""Rebuilds section 6 of DESIGN.md from design/_section6_head.md and design/<group>.md."""
import os, re
V = os.path.dirname(os.path.dirname(os.path.abspath(__file__)))
p = os.path.join(V, "DESIGN.md")
s = open(p).read()
s6 = s.index("## 6. ")
s7 = s.index("## 7. Register of genuine defects")
head = open(os.path.join(V, "design", "_section6_head.md")).read()
parts = [head]
for g in ("codec", "browser", "responder", "registry", "life", "sched", "safety", "hostres"):
    f = os.path.join(V, "design", g + ".md")
    if not os.path.exists(f):
        continue
    t = open(f).read()
    # demote headings by two levels
    t = re.sub(r"^(#+) ", lambda m: "#" * (len(m.group(1)) + 2) + " ", t, flags=re.M)
    parts.append(t.rstrip() + "\n")
new6 = "\n".join(parts) + "\n\n"
open(p, "w").write(s[:s6] + new6 + s[s7:])
print("section 6 rebuilt:", len(new6), "chars")
