#!/usr/bin/env python3
"""Rebuilds section 6 of DESIGN.md from design/_section6_head.md and design/<group>.md."""
import os, re
V = os.path.dirname(os.path.dirname(os.path.abspath(__file__)))
p = os.path.join(V, "DESIGN.md")
s = open(p).read()
s6 = s.index("## 6. ")
s7 = s.index("## 7. Register of genuine defects")


def section6b():
    import json
    S = os.path.join(V, "seeded")
    out = [open(os.path.join(V, "design", "_section6b_head.md")).read()]
    out.append("| change | written to break | result per check | what it needs / note |\n|---|---|---|---|")
    for n in sorted(os.listdir(S)):
        mp, rp = os.path.join(S, n, "meta.json"), os.path.join(S, n, "result.json")
        if not os.path.exists(mp):
            continue
        m = json.load(open(mp))
        cells = "not run"
        if os.path.exists(rp):
            r = json.load(open(rp)).get("checks", {})
            cs = []
            for c, v in r.items():
                if not isinstance(v, dict):
                    continue
                cs.append("%s %s" % (c, {"replay": "replay", "no-failing-input-found": "no-input"}.get(v.get("violation"), "-")))
            cells = ", ".join(cs) or "skipped"
        note = (m.get("note") or m.get("needs") or "").replace("|", "/").replace("\n", " ")
        out.append("| %s | %s | %s | %s |" % (n, m.get("breaks"), cells, note[:260]))
    return "\n".join(out) + "\n\n"


head = open(os.path.join(V, "design", "_section6_head.md")).read()
parts = [head]
for g in ("codec", "browser", "responder", "registry", "life", "sched", "safety", "hostres"):
    f = os.path.join(V, "design", g + ".md")
    if not os.path.exists(f):
        continue
    t = open(f).read()
    # demote headings by two levels
    t = re.sub(r"^(#+) ", lambda m: "#" * (len(m.group(1)) + 2) + " ", t, flags=re.M)
    parts.append(t.rstrip() + "\n")
new6 = "\n".join(parts) + "\n\n" + section6b()
open(p, "w").write(s[:s6] + new6 + s[s7:])
print("section 6 rebuilt:", len(new6), "chars")
