#!/usr/bin/env python3
"""Stores a confirmed seeded change under /verif/seeded/<name>/.
usage: register_mutant.py <name> <srcdir> <breaks> <place> <run> <needs> <caught_by> [<first_missed>]"""
import json, os, shutil, sys
name, src, pid, place, run, needs, caught = sys.argv[1:8]
missed = sys.argv[8] if len(sys.argv) > 8 else None
d = os.path.join(os.path.dirname(os.path.dirname(os.path.abspath(__file__))), "seeded", name)
os.makedirs(d, exist_ok=True)
for f in ("patch.diff", "demo.rs", "README.md"):
    shutil.copy(os.path.join(src, f), os.path.join(d, f))
meta = {"breaks": pid, "origin": "independent sub-agent (given only the property text and a scratch worktree of /repo)",
        "needs": needs, "demo": {"place": place, "run": run},
        "confirmed": "tools/confirm_mutant.sh: demo passes on the unmodified tree; with the change the crate builds, the existing tests pass, the demo fails",
        "check_result": "tools/selftest_mutant.sh seeded/%s/patch.diff <check> -> VIOLATION (exit 1)" % name,
        "caught_by": caught}
if missed:
    meta["first_missed"] = missed
json.dump(meta, open(os.path.join(d, "meta.json"), "w"), indent=1)
print("registered", name)
