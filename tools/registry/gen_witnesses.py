#!/usr/bin/env python3
"""Generates coq/Proofs/RegistryWitnesses.v: small concrete histories (run on the real daemon in the
simulated world, observed jitter and timing included) as Gallina terms, for the refutation and
non-vacuity lemmas of Props/C07-C09.  Usage: python3 tools/registry/gen_witnesses.py
(only the `registry` group uses this; it needs the harness binary)."""
import json
import os
import subprocess
import sys

HERE = os.path.dirname(os.path.abspath(__file__))
VERIF = os.path.dirname(os.path.dirname(HERE))
sys.path.insert(0, os.path.join(VERIF, "tools"))
sys.path.insert(0, os.path.join(VERIF, "tools", "props"))
import dnsgen  # noqa: E402
import reglib  # noqa: E402

HARNESS = os.path.join(VERIF, "harness", "target", "release", "mdns-verif-harness")


def blist(hexs):
    b = b"" if hexs in ("-", "") else bytes.fromhex(hexs)
    return "[" + ";".join(str(x) for x in b) + "]"


def coq_rdata(s):
    k, v = s[0], s[1:]
    if k == "A":
        return "(RAddr %s)" % blist(v)
    if k == "P":
        return "(RPtr %s)" % blist(v)
    if k == "S":
        p, w, o, h = v.split("_")
        return "(RSrv %s %s %s %s)" % (p, w, o, blist(h))
    if k == "T":
        return "(RTxt %s)" % blist(v)
    raise ValueError(s)


def coq_rr(s):
    name, ty, cls, fl, ttl, rd = s.split("/")
    return "(mkRR %s %s %s %s %s %s)" % (blist(name), ty, cls, "true" if fl == "1" else "false", ttl, coq_rdata(rd))


def items(c, s):
    return [] if s == "n" else s.split(c)


def coq_list(xs):
    return "[" + "; ".join(xs) + "]"


def coq_dgram(s):
    i, v4, src, port, resp, qs, an, ns, ar = s.split(",")
    q = coq_list(["(%s, %s)" % (blist(x.split("/")[0]), x.split("/")[1]) for x in items("+", qs)])
    return "(mkDg %s %s %s %s %s %s %s %s %s)" % (
        i, "true" if v4 == "1" else "false", blist(src), port, "true" if resp == "1" else "false", q,
        coq_list([coq_rr(x) for x in items("+", an)]), coq_list([coq_rr(x) for x in items("+", ns)]),
        coq_list([coq_rr(x) for x in items("+", ar)]))


def coq_call(s):
    f = s.split(",")
    if f[0] == "m":
        return "CMonitor"
    if f[0] == "s":
        return "CShutdown"
    if f[0] == "o":
        return "COther"
    if f[0] == "u":
        return "(CUnregister %s %s)" % (blist(f[1]), blist(f[2]))
    if f[0] == "r":
        _, ty, sub, full, host, addrs, port, txt, probe, auto = f
        return "(CRegister (mkSvc %s %s %s %s %s %s %s %s [] %s))" % (
            blist(ty), "None" if sub == "~" else "(Some %s)" % blist(sub), blist(full), blist(host),
            coq_list([blist(a) for a in items("+", addrs)]), port, blist(txt), "true" if probe == "1" else "false",
            "true" if auto == "1" else "false")
    if f[0] == "i":
        ks = []
        for k in items("+", f[2]):
            ks.append("KAll" if k == "A" else "KV4" if k == "4" else "KV6" if k == "6"
                      else "(KName %s)" % blist(k[1:]) if k.startswith("N") else "KUnsupported")
        return "(CIfSel %s %s)" % ("true" if f[1] == "1" else "false", coq_list(ks))
    raise ValueError(s)


def to_coq(name, h):
    line = reglib.jdump(h)
    raw = subprocess.run([HARNESS, "sim"], input=(line + "\n").encode(), stdout=subprocess.PIPE).stdout.decode().strip()
    mi = reglib.model_input("W", line, raw)
    toks = mi.split(" ")
    ifs, its, wakes = None, [], []
    for t in toks:
        if t.startswith("D:"):
            _, k, spec = t.split(":")
            assert k == "0", "single-daemon witnesses only"
            lst = []
            for one in items(";", spec):
                idx, nm, addrs = one.split(",")
                lst.append("(mkIntf %s %s %s)" % (idx, blist(nm), coq_list(
                    ["(mkIA %s %s)" % (blist(a.split("_")[0]), blist(a.split("_")[1])) for a in items("+", addrs)])))
            ifs = coq_list(lst)
        elif t.startswith("I:"):
            _, d, now, wake, jit, calls, dgs = t.split(":")
            its.append("(mkIter %s %s %s %s)" % (now, coq_list([coq_dgram(x) for x in items(";", dgs)]),
                                                 coq_list([coq_call(x) for x in items(";", calls)]),
                                                 coq_list(items(".", jit))))
    out = ["(* %s : %s *)" % (name, h.get("doc", ""))]
    out.append("Definition %s_ifs : list intf := %s." % (name, ifs))
    out.append("Definition %s_its : list iter :=\n  [ %s ]." % (name, ";\n    ".join(its)))
    return "\n".join(out), mi, reglib.project(line, raw)


V4 = [reglib.iface("eth0", 2, "192.168.1.10")]
TWO4 = reglib.IFCFGS["two4"]
T0 = 1000000


def hist(doc, ifaces, steps, seed=3):
    return {"id": "w", "doc": doc, "t0": T0, "daemons": [{"seed": seed, "ifaces": ifaces}], "link": "none", "steps": steps}


def reg(name="inst", host="h.local.", ips="192.168.1.10", port=80, probe=None, ty="_t._tcp.local."):
    return {"op": "register", "svc": reglib.svc(ty, name, host, ips, port, [], probe)}


def srv_conflict(name="inst", port=81, host=b"h"):
    return reglib.r_dgram(2, True, [([name.encode(), b"_t", b"_tcp", b"local"], 33, 0x8001, 120,
                                     dnsgen.rd_srv(0, 0, port, [host, b"local"]))])


def a_conflict(host=b"h"):
    return reglib.r_dgram(2, True, [([host, b"local"], 1, 0x8001, 120, dnsgen.rd_bytes(bytes([192, 168, 1, 200])))])


def query(qs):
    return reglib.q_dgram(None, 2, True, qs)


WITNESSES = [
    ("w_exact", hist("one registration, jitter 145, woken exactly when asked: probes at +145, +395, +645, "
                     "announcements at +895 and +1895", V4,
                     [{"t": T0, "d": 0, "calls": [{"op": "monitor", "ch": "m"}, reg()]}, {"run_until": T0 + 3000}])),
    ("w_late", hist("woken late: one probe at +145, next iteration at +900: announced after a single probe", V4,
                    [{"t": T0, "d": 0, "calls": [{"op": "monitor", "ch": "m"}, reg()]}, {"t": T0 + 145, "d": 0},
                     {"t": T0 + 900, "d": 0}])),
    ("w_join", hist("a second service with another address for the same host is registered 300 ms later: the "
                    "address joins the host probe in flight and is announced after two probes", V4,
                    [{"t": T0, "d": 0, "calls": [{"op": "monitor", "ch": "m"}, reg()]}, {"run_until": T0 + 300},
                     {"t": T0 + 300, "d": 0, "calls": [reg("inst2", "h.local.", "192.168.1.10,192.168.1.77", 81)]},
                     {"run_until": T0 + 3000}])),
    ("w_renamed", hist("conflicting SRV during probing: rename to 'inst (2)', announcements, then unregister: the "
                       "goodbye names 'inst'", V4,
                       [{"t": T0, "d": 0, "calls": [{"op": "monitor", "ch": "m"}, reg()]}, {"run_until": T0 + 400},
                        {"t": T0 + 400, "d": 0, "dgrams": [srv_conflict()]}, {"run_until": T0 + 4000},
                        {"t": T0 + 4000, "d": 0, "calls": [{"op": "unregister", "name": "inst._t._tcp.local.", "ch": "u1"}]},
                        {"run_until": T0 + 4500}])),
    ("w_hostrenamed", hist("conflicting A during probing: host renamed to 'h-2'; a later SRV question for the instance is "
                           "answered with target 'h.local.'", V4,
                           [{"t": T0, "d": 0, "calls": [{"op": "monitor", "ch": "m"}, reg()]}, {"run_until": T0 + 400},
                            {"t": T0 + 400, "d": 0, "dgrams": [a_conflict()]}, {"run_until": T0 + 4000},
                            {"t": T0 + 4000, "d": 0, "dgrams": [query([([b"inst", b"_t", b"_tcp", b"local"], 33)])]}])),
    ("w_probing_goodbye", hist("unregister 50 ms after register, before the first probe: reply OK and a goodbye for "
                               "records never announced", V4,
                               [{"t": T0, "d": 0, "calls": [{"op": "monitor", "ch": "m"}, reg()]},
                                {"t": T0 + 50, "d": 0, "calls": [{"op": "unregister", "name": "inst._t._tcp.local.", "ch": "u1"}]},
                                {"run_until": T0 + 400}])),
    ("w_resend_if", hist("two IPv4 interfaces, service (no probing) with an address on each; unregister: both repeats "
                         "at +120 ms leave on one interface", TWO4,
                         [{"t": T0, "d": 0, "calls": [{"op": "monitor", "ch": "m"},
                                                       reg(ips="192.168.1.10,10.0.0.5", probe=False)]},
                          {"run_until": T0 + 1500},
                          {"t": T0 + 1500, "d": 0, "calls": [{"op": "unregister", "name": "inst._t._tcp.local.", "ch": "u1"}]},
                          {"run_until": T0 + 2000}])),
    ("w_longlabel", hist("instance label of 62 bytes, conflicting SRV during probing: the renamed label has 66 bytes, "
                         "the daemon thread dies at the next probe", V4,
                         [{"t": T0, "d": 0, "calls": [{"op": "monitor", "ch": "m"}, reg("n" * 62)]}, {"run_until": T0 + 400},
                          {"t": T0 + 400, "d": 0, "dgrams": [srv_conflict("n" * 62)]}, {"run_until": T0 + 1500}])),
    ("w_mixedcase", hist("instance 'Printer' renamed by a conflict; a later SRV question for 'Printer._t._tcp.local.' is "
                         "still answered", V4,
                         [{"t": T0, "d": 0, "calls": [{"op": "monitor", "ch": "m"}, reg("Printer")]}, {"run_until": T0 + 400},
                          {"t": T0 + 400, "d": 0, "dgrams": [srv_conflict("Printer")]}, {"run_until": T0 + 4000},
                          {"t": T0 + 4000, "d": 0, "dgrams": [query([([b"Printer", b"_t", b"_tcp", b"local"], 33)])]}])),
    ("w_skipreprobe", hist("a competing probe wins the tie-break at +471 ms (the instance probe is deferred to +1471 ms), a "
                           "conflicting A record renames the host at +472 ms: update_hostname moves the instance probe's "
                           "start_time back, so at +1471 ms it counts as finished - announced after one probe query", V4,
                           [{"t": T0, "d": 0, "calls": [{"op": "monitor", "ch": "m"},
                                                         {"op": "register", "svc": reglib.svc("_s1._sub._t._tcp.local.", "dev-1", "h-2.local.",
                                                                                               "192.168.1.10", 80, [["61", "62"]])}]},
                            {"run_until": T0 + 470},
                            {"t": T0 + 471, "d": 0, "dgrams": [{"if": 2, "v4": True, "src": "192.168.1.99:5353", "hex":
                                "000000000001000000020000056465762d31025f74045f746370056c6f63616c0000ff0001c00c0021800100000078000c00000000005003682d32c01ac00c0010800100001194000403613d62"}]},
                            {"t": T0 + 472, "d": 0, "dgrams": [{"if": 2, "v4": True, "src": "192.168.1.98:5353", "hex":
                                "00008400000000010000000003682d32056c6f63616c0000018001000000780004c0a801c8"}]},
                            {"run_until": T0 + 1972}], seed=10)),
    ("w_toggle", hist("an addr_auto service is probing (two probes sent) when its interface is disabled; it is enabled "
                      "again 600 ms later: three new probes on the new incarnation of the interface, then two "
                      "announcements", reglib.IFCFGS["dual"],
                      [{"t": T0, "d": 0, "calls": [{"op": "monitor", "ch": "m"}, reg(ips="auto")]}, {"run_until": T0 + 400},
                       {"t": T0 + 400, "d": 0, "calls": [{"op": "disable_interface", "kinds": [{"k": "Name", "v": "eth0"}]}]},
                       {"run_until": T0 + 1000},
                       {"t": T0 + 1000, "d": 0, "calls": [{"op": "enable_interface", "kinds": [{"k": "Name", "v": "eth0"}]}]},
                       {"run_until": T0 + 4000}])),
    ("w_prefix_lost", hist("a competing probe whose authority list extends the daemon's own (TXT, SRV, SRV'): equal on "
                           "the common prefix, the shorter list loses; the daemon defers by one second", V4,
                           [{"t": T0, "d": 0, "calls": [{"op": "monitor", "ch": "m"}, reg()]}, {"run_until": T0 + 300},
                            {"t": T0 + 300, "d": 0, "dgrams": [reglib.q_dgram(None, 2, True, [([b"inst", b"_t", b"_tcp", b"local"], 255)],
                                authorities=[([b"inst", b"_t", b"_tcp", b"local"], 16, 0x8001, 4500, dnsgen.rd_bytes(b"\x00")),
                                             ([b"inst", b"_t", b"_tcp", b"local"], 33, 0x8001, 120, dnsgen.rd_srv(0, 0, 80, [b"h", b"local"])),
                                             ([b"inst", b"_t", b"_tcp", b"local"], 33, 0x8001, 120, dnsgen.rd_srv(0, 0, 81, [b"h", b"local"]))])]},
                            {"run_until": T0 + 4000}])),
    ("w_added_twice", hist("a requires_probe(false) addr_auto service; its interface is disabled at +2500 ms and enabled "
                           "at +2600 ms: add_interface announces at once and (fix 4b0055d) again one second later", V4,
                           [{"t": T0, "d": 0, "calls": [{"op": "monitor", "ch": "m"}, reg(ips="auto", probe=False)]},
                            {"run_until": T0 + 2500},
                            {"t": T0 + 2500, "d": 0, "calls": [{"op": "disable_interface", "kinds": [{"k": "Name", "v": "eth0"}]}]},
                            {"t": T0 + 2600, "d": 0, "calls": [{"op": "enable_interface", "kinds": [{"k": "Name", "v": "eth0"}]}]},
                            {"run_until": T0 + 5000}])),
    ("w_resend_probes", hist("a fixed-address service; the interface goes and returns between its two announcements: the "
                             "pending second announcement finds a fresh registry, starts probes and (fix 2ff6a49) asks "
                             "for their wake-up: three probes at +1993, +2243, +2493 ms (no announcement follows: the status "
                             "stayed Announced, finding C07-static-service-answers-unprobed-after-interface-return)", V4,
                             [{"t": T0, "d": 0, "calls": [{"op": "monitor", "ch": "m"}, reg(name="dev", host="box.local.", ips="192.168.1.77", port=8080)]},
                              {"run_until": T0 + 1000},
                              {"t": T0 + 1000, "d": 0, "calls": [{"op": "disable_interface", "kinds": [{"k": "Name", "v": "eth0"}]}]},
                              {"t": T0 + 1100, "d": 0, "calls": [{"op": "enable_interface", "kinds": [{"k": "Name", "v": "eth0"}]}]},
                              {"run_until": T0 + 5000}])),
    ("w_unreg_probing", hist("unregister (OK) after the second probe: the interface registry forgets the instance name (fix "
                             "d685fcf) - the third probe query at +645 ms is for the host name only; the re-registration at "
                             "+3000 ms is probed three times anew (+3079, +3329, +3579) and announced twice (+3829, +4829)", V4,
                             [{"t": T0, "d": 0, "calls": [{"op": "monitor", "ch": "m"}, reg()]}, {"run_until": T0 + 400},
                              {"t": T0 + 400, "d": 0, "calls": [{"op": "unregister", "name": "inst._t._tcp.local.", "ch": "u1"}]},
                              {"run_until": T0 + 3000},
                              {"t": T0 + 3000, "d": 0, "calls": [reg()]},
                              {"run_until": T0 + 5000}])),
    ("w_unregister", hist("register, both announcements, unregister, repeat, then a PTR question: no answer", V4,
                          [{"t": T0, "d": 0, "calls": [{"op": "monitor", "ch": "m"}, reg()]}, {"run_until": T0 + 2500},
                           {"t": T0 + 2500, "d": 0, "calls": [{"op": "unregister", "name": "INST._t._tcp.local.", "ch": "u1"}]},
                           {"run_until": T0 + 3000},
                           {"t": T0 + 3000, "d": 0, "dgrams": [query([([b"_t", b"_tcp", b"local"], 12)])],
                            "calls": [{"op": "unregister", "name": "inst._t._tcp.local.", "ch": "u2"}]}])),
]


def main():
    parts = ["(* GENERATED by tools/registry/gen_witnesses.py from histories run on the real daemon in the",
             "   simulated world (jitter values and wake-up times as observed). Concrete inputs for the",
             "   refutation and non-vacuity lemmas of Props/C07.v, C08.v, C09.v. *)",
             "From Coq Require Import List NArith Bool.",
             "From Mdns Require Import Bytes Rec Registry RegistryDaemon.",
             "Import ListNotations.", "Open Scope N_scope.", ""]
    cases = []
    for name, h in WITNESSES:
        text, mi, obs = to_coq(name, h)
        parts.append(text)
        parts.append("")
        cases.append((name, mi, obs))
    open(os.path.join(VERIF, "coq", "Proofs", "RegistryWitnesses.v"), "w").write("\n".join(parts))
    # the same histories as committed corpus cases (they run first in every check)
    hist_lines = []
    for name, h in WITNESSES:
        hh = dict(h)
        hh.pop("doc", None)
        hh["id"] = name
        hist_lines.append(reglib.jdump(hh))
    comp = ["nc " + ("n" * 60 + "._t._tcp.local.").encode().hex(), "hc " + ("h" * 62 + ".local.").encode().hex(),
            "nc " + "My\\.Svc._t._tcp.local.".encode().hex(), "nc " + "x (4294967295)._t._tcp.local.".encode().hex(),
            "nc " + "x (4294967294)._t._tcp.local.".encode().hex(), "hc " + "h-4294967295.local.".encode().hex(),
            "nc " + "x (+5).local.".encode().hex(), "hc " + "h-+3.local.".encode().hex(), "nc " + "x (9).local.".encode().hex(),
            "hc " + "h-99.local.".encode().hex()]
    reg_file = os.path.join(VERIF, "tools", "registry", "regressions.cases")
    if os.path.exists(reg_file):
        hist_lines += [l for l in open(reg_file).read().split("\n") if l and not l.startswith("#")]
    for pid, lines in (("C07", hist_lines), ("C09", hist_lines), ("C08", comp + ["sim " + l for l in hist_lines])):
        with open(os.path.join(VERIF, "corpus", pid + ".cases"), "w") as f:
            f.write("# witness histories of tools/registry/gen_witnesses.py (see coq/Proofs/RegistryWitnesses.v)\n")
            f.write("\n".join(lines) + "\n")
    # what the monitors say about the implementation on these histories
    for pid in ("C07", "C08", "C09"):
        lines = "\n".join("mon %s %s => %s" % (pid, mi.replace("simh W", "simh " + pid, 1), obs) for _, mi, obs in cases)
        res = subprocess.run([os.path.join(VERIF, "ocaml", "registry", "model_driver")], input=(lines + "\n").encode(),
                             stdout=subprocess.PIPE).stdout.decode().strip().split("\n")
        for (name, _, _), r in zip(cases, res):
            print(pid, name, r)


if __name__ == "__main__":
    main()
