#!/usr/bin/env python3
"""Parameter and guard extractor: a small translator from anchored Rust expressions in /repo
to Gallina definitions (coq/Gen/Params.v), regenerated on every check run.

Usage: extract_params.py <repo> <out.v>

Each ITEM names a Gallina definition, its parameters, the Rust file, an anchor regex that
isolates ONE Rust expression (group 'e'), and the result type.  The expression is parsed by a
tiny recursive-descent parser (integers, identifiers, field paths, `as` casts, + - * /,
comparisons, && || !) and printed as a Gallina term over N / bool.  If an anchor does not match
exactly once the extractor fails (exit 1): a lost anchor is an error, never a default.

Numbers are N.  `a - b` is emitted as N subtraction only when the item is marked
`allow_sub` (the model then guards the underflow itself).
"""
import re
import sys

# --------------------------------------------------------------------------- expression parser

TOKEN = re.compile(r"\s*(?:(\d[\d_]*(?:u8|u16|u32|u64|usize|i64)?)|(0x[0-9a-fA-F_]+)|"
                   r"([A-Za-z_][A-Za-z0-9_]*(?:::[A-Za-z_][A-Za-z0-9_]*)*(?:\.[A-Za-z_][A-Za-z0-9_]*(?:\(\))?)*)|"
                   r"(\|\||&&|>=|<=|==|!=|[-+*/()<>!]))")

CONSTS = {"u8::MAX": 255, "u16::MAX": 65535, "u32::MAX": 4294967295, "u64::MAX": 18446744073709551615}


class ParseError(Exception):
    pass


def tokenize(s):
    toks = []
    i = 0
    s = s.strip()
    while i < len(s):
        m = TOKEN.match(s, i)
        if not m:
            raise ParseError("cannot tokenize at: %r" % s[i:i + 30])
        if m.group(1):
            toks.append(("int", int(re.sub(r"(u8|u16|u32|u64|usize|i64)$", "", m.group(1)).replace("_", ""))))
        elif m.group(2):
            toks.append(("int", int(m.group(2).replace("_", ""), 16)))
        elif m.group(3):
            toks.append(("id", m.group(3)))
        else:
            toks.append(("op", m.group(4)))
        i = m.end()
    return toks


class P:
    def __init__(self, toks, env, consts, allow_sub):
        self.t = toks
        self.i = 0
        self.env = env
        self.consts = consts
        self.allow_sub = allow_sub

    def peek(self):
        return self.t[self.i] if self.i < len(self.t) else (None, None)

    def eat(self, v=None):
        k = self.peek()
        if v is not None and k[1] != v:
            raise ParseError("expected %r, got %r" % (v, k))
        self.i += 1
        return k

    def parse(self):
        e = self.p_or()
        if self.i != len(self.t):
            raise ParseError("trailing tokens: %r" % (self.t[self.i:],))
        return e

    def p_or(self):
        e = self.p_and()
        while self.peek() == ("op", "||"):
            self.eat()
            e = "(%s || %s)" % (e, self.p_and())
        return e

    def p_and(self):
        e = self.p_cmp()
        while self.peek() == ("op", "&&"):
            self.eat()
            e = "(%s && %s)" % (e, self.p_cmp())
        return e

    def p_cmp(self):
        a = self.p_add()
        k = self.peek()
        if k[0] == "op" and k[1] in (">=", "<=", "==", "!=", "<", ">"):
            self.eat()
            b = self.p_add()
            return {">=": "(%s <=? %s)" % (b, a), ">": "(%s <? %s)" % (b, a),
                    "<=": "(%s <=? %s)" % (a, b), "<": "(%s <? %s)" % (a, b),
                    "==": "(%s =? %s)" % (a, b), "!=": "(negb (%s =? %s))" % (a, b)}[k[1]]
        return a

    def p_add(self):
        e = self.p_mul()
        while self.peek()[0] == "op" and self.peek()[1] in ("+", "-"):
            op = self.eat()[1]
            r = self.p_mul()
            if op == "-" and not self.allow_sub:
                raise ParseError("subtraction in an item not marked allow_sub")
            e = "(%s %s %s)" % (e, op, r)
        return e

    def p_mul(self):
        e = self.p_un()
        while self.peek()[0] == "op" and self.peek()[1] in ("*", "/"):
            op = self.eat()[1]
            e = "(%s %s %s)" % (e, op, self.p_un())
        return e

    def p_un(self):
        if self.peek() == ("op", "!"):
            self.eat()
            return "(negb %s)" % self.p_un()
        return self.p_cast()

    def p_cast(self):
        e = self.p_atom()
        while self.peek() == ("id", "as"):
            self.eat()
            ty = self.eat()
            if ty[1] not in ("u64", "u32", "u16", "u8", "usize", "u128"):
                raise ParseError("unsupported cast to %r" % (ty,))
        return e

    def p_atom(self):
        k = self.eat()
        if k[0] == "int":
            return str(k[1])
        if k == ("op", "("):
            e = self.p_or()
            self.eat(")")
            return e
        if k[0] == "id":
            name = k[1]
            if name in CONSTS:
                return str(CONSTS[name])
            if name in self.consts:
                return str(self.consts[name])
            if name in self.env:
                return self.env[name]
            raise ParseError("unknown identifier %r" % name)
        raise ParseError("unexpected token %r" % (k,))


def translate(expr, env, consts, allow_sub=False):
    return P(tokenize(expr), env, consts, allow_sub).parse()


# --------------------------------------------------------------------------- items

def body_of(src, header_re):
    """Returns the text between the braces of the item whose header matches header_re."""
    ms = list(re.finditer(header_re, src))
    if len(ms) != 1:
        raise ParseError("anchor %r matched %d times" % (header_re, len(ms)))
    i = src.index("{", ms[0].end() - 1)
    depth = 0
    j = i
    while True:
        if src[j] == "{":
            depth += 1
        elif src[j] == "}":
            depth -= 1
            if depth == 0:
                break
        j += 1
    return src[i + 1:j]


def strip_rust_comments(s):
    s = re.sub(r"/\*.*?\*/", "", s, flags=re.S)
    s = re.sub(r"//[^\n]*", "", s)
    return s


def const_value(src, name):
    ms = re.findall(r"const\s+%s\s*:\s*\w+\s*=\s*([^;]+);" % re.escape(name), src)
    if len(ms) != 1:
        raise ParseError("const %s found %d times" % (name, len(ms)))
    v = ms[0].strip()
    m = re.fullmatch(r'"(.*)"\.len\(\)', v)
    if m:
        return len(m.group(1))
    v = re.sub(r"(u8|u16|u32|u64|usize)$", "", v).replace("_", "")
    if v.startswith("0x"):
        return int(v, 16)
    if re.fullmatch(r"\d+", v):
        return int(v)
    raise ParseError("cannot evaluate const %s = %s" % (name, v))


# Item files: tools/params/<group>.py, each defining
#   OUT = "ParamsXxx.v"            (file name under coq/Gen/)
#   CONST_ITEMS = [(gallina name, rust file, const name), ...]
#   ITEMS = [(gallina name, [(param, type)], result type, rust file,
#             function header regex (or None = whole file),
#             regex inside the body with group 'e' = the expression,
#             {rust identifier -> gallina term}, allow_sub), ...]
# One Gallina file is generated per item file.


def gen_one(repo, modname, itemmod, outdir):
    files = {}

    def src(f):
        if f not in files:
            files[f] = strip_rust_comments(open("%s/%s" % (repo, f)).read())
        return files[f]

    lines = ["(* GENERATED by tools/extract_params.py from the Rust sources (tools/params/%s.py) - do not edit. *)" % modname,
             "From Coq Require Import NArith Bool.", "Open Scope N_scope.", ""]
    errors = []
    consts = {}
    for gname, f, cname in getattr(itemmod, "CONST_ITEMS", []):
        try:
            v = const_value(src(f), cname)
            consts[cname] = v
            lines.append("Definition %s : N := %d." % (gname, v))
        except (ParseError, ValueError, OSError) as e:
            errors.append("%s: %s" % (gname, e))
    for gname, params, rty, f, header, inner, env, allow_sub in getattr(itemmod, "ITEMS", []):
        try:
            body = body_of(src(f), header) if header else src(f)
            ms = list(re.finditer(inner, body))
            if len(ms) != 1:
                raise ParseError("inner anchor %r matched %d times" % (inner, len(ms)))
            g = translate(ms[0].group("e"), env, consts, allow_sub)
            ps = " ".join("(%s : %s)" % p for p in params)
            lines.append("Definition %s %s : %s := %s." % (gname, ps, rty, g))
        except (ParseError, ValueError, OSError) as e:
            errors.append("%s: %s" % (gname, e))
    text = "\n".join(lines) + "\n"
    out = "%s/%s" % (outdir, itemmod.OUT)
    if not errors:
        try:
            old = open(out).read()
        except OSError:
            old = None
        if old != text:
            open(out, "w").write(text)
    return errors


def main():
    import importlib.util
    import os
    repo = sys.argv[1]
    outdir = os.path.dirname(sys.argv[2]) if sys.argv[2].endswith(".v") else sys.argv[2]
    here = os.path.join(os.path.dirname(os.path.abspath(__file__)), "params")
    only = sys.argv[3:]  # optional: item-file names
    errors = []
    n = 0
    for fn in sorted(os.listdir(here)):
        if not fn.endswith(".py") or fn.startswith("_"):
            continue
        name = fn[:-3]
        if only and name not in only:
            continue
        spec = importlib.util.spec_from_file_location("params_" + name, os.path.join(here, fn))
        m = importlib.util.module_from_spec(spec)
        spec.loader.exec_module(m)
        errs = gen_one(repo, name, m, outdir)
        errors += ["%s: %s" % (name, e) for e in errs]
        n += 1
    if errors:
        sys.stderr.write("extract_params: lost anchors:\n  " + "\n  ".join(errors) + "\n")
        print("\n".join(errors))
        sys.exit(1)
    print("ok: %d item files" % n)


if __name__ == "__main__":
    main()
