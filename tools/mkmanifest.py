#!/usr/bin/env python3
"""Regenerates /verif/MANIFEST.json from the property modules (tools/props/cXX.py)."""
import importlib
import json
import os
import sys

HERE = os.path.dirname(os.path.abspath(__file__))
sys.path.insert(0, HERE)
sys.path.insert(0, os.path.join(HERE, "props"))
VERIF = os.path.dirname(HERE)

HOOK_COMMITS = json.load(open(os.path.join(VERIF, "tools", "hook_commits.json")))

props = [json.loads(l) for l in open(os.path.join(VERIF, "properties.jsonl"))]
checks = []
na = []
claimed = []
for p in props:
    pid = p["id"]
    try:
        mod = importlib.import_module(pid.lower())
    except ModuleNotFoundError:
        mod = None
    if mod is None or not getattr(mod, "CLAIMED", False):
        reason = getattr(mod, "NOT_CLAIMED_REASON", None) if mod else None
        na.append({"property_id": pid,
                   "reason": reason or "not claimed yet: model, theorems and correspondence for this property are not built "
                                       "(work in progress, DESIGN.md section 10); the technique itself applies"})
        continue
    claimed.append(pid)
    checks.append({
        "property_id": pid,
        "quick_cmd": "./check %s --tier quick" % pid,
        "thorough_cmd": "./check %s --tier thorough" % pid,
        "evidence_file": "/verif/evidence/%s.json" % pid,
        "replay_cmd_template": "./check %s --replay {path}" % pid,
        "engine": "coq-proof",
        "level_claimed": {"category": "proof", "text": mod.LEVEL_TEXT, "design_ref": "DESIGN.md section 6, " + pid},
        "level_note": "Trusted base: " + " | ".join(mod.TRUSTED) + " || Partial: " + mod.PARTIAL,
        "technique": mod.TECHNIQUE,
    })
m = {
    "version": 1,
    "setup_cmd": "sh /verif/setup.sh",
    "hooks": {"guard": "verif-hooks",
              "enable": "cargo feature: the harness crate /verif/harness depends on mdns-sd { path = \"/repo\", features = [\"verif-hooks\"] }",
              "baseline_off_cmd": "cd /repo && cargo test --workspace --no-fail-fast --offline",
              "source_commits": HOOK_COMMITS, "add_only": True},
    "engines": [{"name": "coq-proof", "path": "/verif/coq", "serves_properties": claimed,
                 "kind_free_text": "Coq 8.16.1 development (Model/, Proofs/, Props/) + extracted OCaml model driver (ocaml/) "
                                   "+ Rust harness (harness/) for the model/implementation correspondence and the monitors; "
                                   "entry point ./check"}],
    "checks": checks,
    "notes": "See DESIGN.md. Known findings and fixed defects: /verif/known_findings.json. Seeded changes used to "
             "validate the checks: /verif/seeded/.",
    "not_applicable": na,
}
json.dump(m, open(os.path.join(VERIF, "MANIFEST.json"), "w"), indent=1)
print("claimed:", claimed)
