"""Helpers shared by the property modules of group `responder` (C06, C18): address and name
tokens of the model driver's case format, canonical projection of sent packets, alignment of
history steps with trace records, bookkeeping of registrations as observed in a trace."""
import ipaddress
import json

import dnsgen

T0 = 1_000_000


def hx(b):
    if isinstance(b, str):
        b = b.encode()
    return b.hex() if b else "-"


def ip_tok(s):
    """'192.168.1.10' -> '4.c0a8010a' ; 'fe80::1' -> '6.fe80...01'"""
    a = ipaddress.ip_address(s)
    return ("4." if a.version == 4 else "6.") + a.packed.hex()


def ifaddr_tok(addr, mask):
    return ip_tok(addr) + "." + ipaddress.ip_address(mask).packed.hex()


def default_mask(addr):
    return "255.255.255.0" if ipaddress.ip_address(addr).version == 4 else "ffff:ffff:ffff:ffff::"


def in_subnet(a, ifaddr, mask):
    a = ipaddress.ip_address(a)
    i = ipaddress.ip_address(ifaddr)
    if a.version != i.version:
        return False
    m = int(ipaddress.ip_address(mask))
    return (int(a) & m) == (int(i) & m)


def group_ifaces(ifaces):
    """history 'ifaces' list -> [(index, name, [(addr, mask)])] in order of first appearance"""
    out = []
    for e in ifaces:
        if e.get("up", True) is False:
            continue
        mask = e.get("mask") or default_mask(e["addr"])
        for g in out:
            if g[0] == e["index"]:
                if (e["addr"], mask) not in g[2]:
                    g[2].append((e["addr"], mask))
                break
        else:
            out.append((e["index"], e["name"], [(e["addr"], mask)]))
    return out


def myintf_tok(g):
    return "%d/%s/%s" % (g[0], hx(g[1]), ",".join(ifaddr_tok(a, m) for a, m in g[2]) or "-")


def split_ty(ty):
    """split_sub_domain"""
    if "._sub." in ty:
        return ty.rsplit("._sub.", 1)[1], ty
    return ty, None


def svc_fullname(svc):
    ty_domain, _ = split_ty(svc["ty"])
    return svc["name"] + "." + ty_domain


def svc_addrs(svc):
    if svc.get("ips", "") in ("", "auto"):
        return []
    seen = []
    for a in svc["ips"].split(","):
        a = str(ipaddress.ip_address(a.strip()))
        if a not in seen:
            seen.append(a)
    return seen


def txt_rdata(svc):
    out = b""
    for k, v in svc.get("props") or []:
        e = bytes.fromhex(k) if v is None else bytes.fromhex(k) + b"=" + bytes.fromhex(v)
        out += bytes([len(e)]) + e
    return out or b"\x00"


def props_tok(svc):
    ps = svc.get("props") or []
    return ",".join("%s:%s" % (k or "-", "~" if v is None else (v or "-")) for k, v in ps) or "-"


def svc_tok(svc, letter, addrs=None):
    ty_domain, sub = split_ty(svc["ty"])
    addrs = svc_addrs(svc) if addrs is None else addrs
    return "/".join([hx(ty_domain), hx(sub) if sub else "-", hx(svc_fullname(svc)), hx(svc["host"]),
                     str(svc.get("port", 80)), ",".join(ip_tok(a) for a in addrs) or "-", props_tok(svc), letter])


def src_tok(src):
    """'192.168.1.99:5353' / '[fe80::9]:5353' -> '4.hex.port'"""
    host, port = src.rsplit(":", 1)
    return ip_tok(host.strip("[]")) + "." + port


# --------------------------------------------------------------------------- packets

def rr_tok(rr):
    ty = rr["type"]
    if ty in (12, 5) and rr["target"] is not None:
        rd = "p" + hx(dnsgen.dotted(rr["target"]))
    elif ty == 33 and rr["srv"] is not None and rr["target"] is not None:
        rd = "s%d_%d_%d_%s" % (rr["srv"][0], rr["srv"][1], rr["srv"][2], hx(dnsgen.dotted(rr["target"])))
    elif ty == 16:
        rd = "t" + hx(rr["rdata"])
    elif ty in (1, 28):
        rd = "a" + hx(rr["rdata"])
    else:
        rd = "o" + hx(rr["rdata"])
    return "%s.%d.%d.%d.%d.%s" % (hx(dnsgen.dotted(rr["name"])), ty, rr["class"], 1 if rr["flush"] else 0, rr["ttl"], rd)


def section_tok(rrs):
    return ",".join(sorted(rr_tok(r) for r in rrs)) or "-"


def dest_tok(x):
    if x["kind"] == "mcast":
        return "m4" if x["v4"] else "m6"
    if x["kind"] == "ucast":
        return "u" + src_tok(x["dest"])
    return "none"


def packet_tok(x, pk=None):
    """canonical form of one sent packet (trace 'sent' entry)"""
    pk = pk or dnsgen.parse_packet(bytes.fromhex(x["hex"]))
    if pk is None:
        return "unparsable"
    s = "dest=%s;if=%s;id=%d;flags=%d;q=%s;an=%s;ar=%s" % (
        dest_tok(x), "?" if x.get("if") is None else x["if"], pk["id"], pk["flags"],
        ",".join("%s.%d" % (hx(dnsgen.dotted(n)), t) for n, t, _ in pk["q"]) or "-",
        section_tok(pk["an"]), section_tok(pk["ar"]))
    if pk["ns"]:
        s += ";ns=" + section_tok(pk["ns"])
    return s


def parsed_sent(rec):
    out = []
    for x in rec.get("sent", []):
        out.append((x, dnsgen.parse_packet(bytes.fromhex(x["hex"]))))
    return out


# --------------------------------------------------------------------------- steps <-> trace

def align(history, result):
    """Pairs every explicit step (numeric 't') with its trace record; run_until steps get the
    list of records they produced.  Returns [(step, record | [records])]. Requires that explicit
    step times are later than the target of any earlier run_until (the generators do that)."""
    recs = [r for r in result.get("trace", []) if "it" in r and r.get("d", 0) == 0]
    pos = 0
    out = []
    for st in history.get("steps", []):
        if "run_until" in st:
            got = []
            while pos < len(recs) and recs[pos]["now"] <= st["run_until"]:
                got.append(recs[pos])
                pos += 1
            out.append((st, got))
        else:
            if pos < len(recs):
                out.append((st, recs[pos]))
                pos += 1
            else:
                out.append((st, None))
    return out


class Registrations:
    """What a client knows about its registrations from its own calls and from what it saw on
    the wire: which services are registered, on which interfaces each one has been announced
    since its (re-)registration, and the name changes reported by the monitor."""

    def __init__(self, ifaces):
        self.svcs = {}          # lower-cased fullname -> {"svc":..., "ann": set(ifidx), "order": n}
        self.renames = {}       # intf name -> [(original, new)] latest first
        self.n = 0
        self.set_ifaces(ifaces)

    def set_ifaces(self, ifaces):
        self.ifname = {}
        for e in ifaces:
            self.ifname.setdefault(e["name"], e["index"])

    def names_of(self, svc):
        full = svc_fullname(svc)
        names = {full}
        for lst in self.renames.values():
            for o, n in lst:
                if o == full:
                    names.add(n)
        return names

    def apply_calls(self, step, rec):
        for c, r in zip(step.get("calls") or [], rec.get("calls") or []):
            if c["op"] == "register" and r.get("r") == "Ok":
                key = svc_fullname(c["svc"]).lower()
                self.n += 1
                self.svcs[key] = {"svc": c["svc"], "ann": set(), "order": self.n}
            elif c["op"] == "unregister" and r.get("r") == "Ok":
                self.svcs.pop(c["name"].lower(), None)

    def observe(self, rec):
        """events and unsolicited packets of a record without injected datagrams"""
        for evs in (rec.get("events") or {}).values():
            for e in evs:
                if e.get("e") == "NameChange":
                    self.renames.setdefault(e["intf"], []).insert(0, (e["original"], e["new_name"]))
        for x, pk in parsed_sent(rec):
            if pk is None or not (pk["flags"] & 0x8000):
                continue
            addrs = {str(ipaddress.ip_address(rr["rdata"])) for rr in pk["an"] if rr["type"] in (1, 28)}
            ports = {rr["srv"][2] for rr in pk["an"] if rr["type"] == 33 and rr["srv"]}
            txts = {rr["rdata"] for rr in pk["an"] if rr["type"] == 16}
            for rr in pk["an"]:
                if rr["type"] == 12 and rr["ttl"] > 0 and rr["target"] is not None:
                    tgt = dnsgen.dotted(rr["target"]).decode("utf-8", "replace")
                    own = dnsgen.dotted(rr["name"]).decode("utf-8", "replace")
                    for v in self.svcs.values():
                        # the announcement of THIS registration (a name can be registered again in the
                        # same iteration): same port, same TXT, only addresses of this registration
                        if (own == split_ty(v["svc"]["ty"])[0] and tgt in self.names_of(v["svc"])
                                and ports <= {v["svc"].get("port", 80)}
                                and addrs <= set(svc_addrs(v["svc"]))
                                and txts <= {txt_rdata(v["svc"])}):
                            v["ann"].add(x.get("if"))

    def nc_tok(self, ifname):
        lst = self.renames.get(ifname, [])
        return ",".join("%s>%s" % (hx(o), hx(n)) for o, n in lst) or "-"

    def svcs_tok(self, ifidx):
        items = sorted(self.svcs.values(), key=lambda v: v["order"])
        return ";".join(svc_tok(v["svc"], "A" if ifidx in v["ann"] else "P") for v in items) or "-"


def mixcase(rng, s, p=0.5):
    return "".join((c.upper() if rng.random() < 0.5 else c.lower()) if c.isascii() and c.isalpha() and rng.random() < p else c for c in s)


def jdump(h):
    return json.dumps(h, separators=(",", ":"))
