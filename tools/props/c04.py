"""C04  Everything advertised for a browsed type is found and resolved."""
import browser_common as bc
from browser_common import HARNESS_ARGS, PER_SHARD  # noqa: F401

ID = "C04"
CLAIMED = True
MODEL_GROUP = "browser"
THEOREM_FILE = "Props/C04.v"
LEVEL_TEXT = ("Coq theorems about the model of the cache + browser logic. History level (all histories in which time does "
              "not run backwards): C04_resolved_only_after_found_partial - clause F of chk_C04 in the standard shape for known "
              "findings: outside the executable class known_browse_expiring (a browse call executed while a cached PTR "
              "record of the type with TTL > 1 is in its last second) the checker viol_C04 run on the model's trace never "
              "reports F04_order, i.e. every ServiceResolved is preceded by ServiceFound of that instance on that channel "
              "(invariant FI: every cached PTR entry of a browsed type with TTL > 1 is in the checker's found list under "
              "the type's channel; carried through every step of the iteration, C04_iteration_resolved_only_after_found); "
              "C04_complete_is_up_partial (round 8) - the completeness clause: outside complete_class = safe_class (no PTR "
              "variants, one SRV target, no root names) && fresh_channels && not known_refresh_completes the checker never "
              "reports F04_complete: at the end of EVERY iteration every instance with PTR, SRV and address live under a "
              "browsed name is up on that name's channel (invariant AU; known_refresh_completes = some delivery that is not "
              "reported as a new record turns an instance of a browsed name strongly alive - the class of both "
              "C04-last-second-refresh-not-new and the aftermath of C04-browse-over-expiring-ptr, evaluated along the model's "
              "run); C04_followup_schedule_invariant - after every iteration every follow-up retransmission is "
              "try 1..3 and due within the next 500 ms; C04_pending_has_followup_queued (round 7, ALL histories, no "
              "hypothesis) - an instance that is in pending_resolves has a follow-up retransmission queued, so "
              "(C04_pending_followup_within_500) its next try is due within 500 ms: the bookkeeping the follow-up clause rests "
              "on, and what the seeded change C04-m6 breaks; C04_try_asks_expected - a try asks exactly the question the checker "
              "expects (expected_followup on the same cache); C04_spec_cache_is_model_cache - the cache chk_C04 judges against is "
              "the model's cache. Per response message, for every reachable state outside the executable classes "
              "known_ptr_variant / known_srv_targets: C04_completing_response_resolves_partial - a message that leaves an "
              "instance of a browsed type complete and cached a new/revived record of it yields exactly one "
              "ServiceResolved for it in that handle_response; plus the step theorems (ServiceFound for a new PTR, "
              "follow-up chain +500 ms x 3, (instance, ANY) then (host, A/AAAA), new round after the chain is over; after fix "
              "48ec5c0 a try asks only while some cached PTR record points to the instance - has_ptr_to - otherwise the "
              "chain ends: C04_followup_stops_without_ptr; the checker's expected_followup follows). "
              "The universal statement chk_C04 = true is REFUTED for the faithful model in the four classes that stay "
              "as known findings (one vm_compute witness each: dotted label, record refreshed in its last second, second "
              "SRV target, PTR withdrawn in the message that announces it (round 9), a leftover Resolve command overlapping a new "
              "series (seed sweep after round 9), browse over an expiring PTR - the last found by the proof of clause F in round 5 and confirmed on "
              "the daemon). Model tied to the Rust daemon by the K6 simulation (model trace = projected implementation "
              "trace); the extracted viol_C04 runs on the implementation's events, questions and requested wake-ups")
TECHNIQUE = ("machine-checked proof in Coq (component theorems, refutation witnesses by vm_compute) + model/implementation "
             "correspondence on the simulated daemon + history-level monitor")
LEVELS = bc_levels = ("K6 sim: one real daemon thread in the simulated world; per iteration the channel events (canonical "
                      "order), the non-PTR questions as label lists, the cache sizes are compared with the model")
RULE = ("all partitions/orders/duplications of an instance's record set (PTR, SRV, TXT, 1-3 addresses, optionally under a "
        "subtype) into 1-4 packets over 1-3 iterations with foreign records; PTR-only histories with the SRV/TXT and "
        "A/AAAA answers arriving before, between, after the follow-up questions or never, PTR expiry and re-announcement; "
        "lifecycle histories (updates, goodbyes, restarts, stop/re-browse, verify); instance labels with spaces, "
        "backslash, non-ASCII, dots (known finding), hosts whose case differs between SRV target and address owner "
        "(repaired: must resolve), instances under type and subtype PTR; browse started over a cached PTR that is about to "
        "expire; stop_browse inside the follow-up window, browse again, PTR-only again (the follow-up question must come: "
        "seeded change C04-m6), also with a subtype that shares the instance and stays browsed (cached while the type was not browsed: additional section, or beside a browsed subtype's PTR); timer-exact and late schedules; non-trivial = at least one event or follow-up question")
TRUSTED = bc.TRUSTED_COMMON
PARTIAL = ("Case mapping of NON-ASCII letters (the daemon lower-cases host names with Unicode rules, the Coq model folds "
           "ASCII only) is covered by the model-free family `na-` only: SRV target and address owner differing in the case of "
           "a non-ASCII letter; the expectation is computed in the Python projection, no theorem speaks about it. Status of viol_C04's failure kinds over all histories of the model: F04_order and F04_complete are excluded by "
           "theorems about viol_C04 (outside known_browse_expiring / complete_class). F04_followup and F04_many are NOT "
           "excluded as statements about viol_C04: proved is the clause in the property's own terms on the model's trace "
           "(C04_followups_as_specified_partial, C04_queued_due_is_tried, C04_tried_asks_expected, the step theorems, the "
           "schedule and pending invariants). Missing is the correspondence with the checker's bookkeeping: (i) non-stale "
           "obligation (inst, due, n) <-> queued (due, RResolve inst n), (ii) stale obligation => a queued try due not "
           "later, (iii) pending => open episode or up or obligation. Round 9 found that (iii) is false as it stands: an "
           "instance found on a second channel while still up on the first (no obligation, not open) and invalid becomes "
           "pending; stop_browse of the first name leaves it pending, neither up nor open, and the checker would open a "
           "non-stale obligation at the next ServiceFound while the model continues the old series - a further class "
           "(stop_browse while an instance is up under two names) is needed, and F04_many needs 'no two found instances "
           "with the same lower-cased labels'. The seed sweep after round 9 then found the concrete shape of the obstacle - series "
           "DO overlap: finding C04-stale-resolve-overlaps-series (class known_overlapping_series), the only F04_many "
           "failures ever observed. F04_labels: not proved; needs "
           "the explicit datagram hypothesis (for every PTR record the decoder reads, the lower-cased labels of "
           "name_labels(alias) are among the reference parser's PTR targets of that datagram; C02 proves only ref_parse => "
           "decode) and the invariant 'cached PTR aliases and queued Resolve instances have their labels among the "
           "targets; ANY questions only come from Resolve tries'. F04_wake: outside the model (no timers). "
           "Outside the known classes the statement is checked by the monitor on model and implementation for every "
           "generated history. 'At least one address in the interface's subnet' is not used by the code and not required. "
           "Requested wake-ups are checked against the monitor's due times, the model does not compute timers.")

project = bc.project_line
model_input = bc.model_input_line
nontrivial = bc.nontrivial_obs
shrink = bc.shrink_hist

KNOWN = {
    "labels:presentation": "C04-D20-dotted-label-followup",
    "complete:refresh-only": "C04-last-second-refresh-not-new",
    "complete:srv-targets": "C04-second-srv-target",
    "order:browse-expiring-ptr": "C04-browse-over-expiring-ptr",
    "followup:withdrawn-same-message": "C04-found-withdrawn-in-same-message",
    "many:overlapping-series": "C04-stale-resolve-overlaps-series",
}


def known_class(line, impl_result, mon_result):
    return bc.known_from_tags(mon_result, KNOWN)


def generate(rng, tier):
    k = 1 if tier == "quick" else 12
    return bc.mk_cases(rng, [
        ("na-", 40 * k, lambda r, i: bc.gen_nonascii_host(r, i, False)),
        ("order", 1200 * k, bc.gen_order),
        ("follow", 800 * k, bc.gen_followup),
        ("life", 1000 * k, bc.gen_lifecycle),
        ("dotted", 20 * k, lambda r, i: bc.gen_special(r, i, "dotted")),
        ("case", 120 * k, lambda r, i: bc.gen_special(r, i, "case")),
        ("twotypes", 30 * k, lambda r, i: bc.gen_special(r, i, "two-types")),
        ("srvtargets", 20 * k, lambda r, i: bc.gen_special(r, i, "srv-targets")),
        ("brexp", 40 * k, lambda r, i: bc.gen_special(r, i, "browse-expiring")),
        ("stoprebrowse", 120 * k, lambda r, i: bc.gen_special(r, i, "stop-rebrowse")),
        ("withdrawn", 30 * k, lambda r, i: bc.gen_special(r, i, "found-withdrawn")),
        ("staleresolve", 60 * k, lambda r, i: bc.gen_special(r, i, "stale-resolve")),
        ("long", 3 * k, bc.gen_long),
    ])


def search(rng, problems, disagreeing):
    return generate(rng, "quick")
