"""C04  Everything advertised for a browsed type is found and resolved."""
import browser_common as bc
from browser_common import HARNESS_ARGS, PER_SHARD  # noqa: F401

ID = "C04"
CLAIMED = True
MODEL_GROUP = "browser"
THEOREM_FILE = "Props/C04.v"
LEVEL_TEXT = ("Coq theorems about the model of the cache + browser logic: a response that completes an instance of a "
              "browsed type (live PTR, SRV, address) with a NEW record yields ServiceResolved in the same "
              "handle_response, a new PTR with TTL > 1 yields ServiceFound first; the follow-up chain asks at +500 ms, "
              "at most 3 times, (instance, ANY) while no SRV is cached and (host, A/AAAA) afterwards; the history-level "
              "statement chk_C04 is REFUTED for the faithful model (witness in Props/C04.v) in the two classes that "
              "stay as known findings (dotted instance label; record refreshed in its last second); the spec cache "
              "chk_C04 judges against is proved to be the model's cache for all histories. Model tied to the Rust daemon by the K6 simulation (model trace = projected "
              "implementation trace); the extracted viol_C04 runs on the implementation's events, questions and "
              "requested wake-ups")
TECHNIQUE = ("machine-checked proof in Coq (component theorems, refutation witnesses by vm_compute) + model/implementation "
             "correspondence on the simulated daemon + history-level monitor")
LEVELS = bc_levels = ("K6 sim: one real daemon thread in the simulated world; per iteration the channel events (canonical "
                      "order), the non-PTR questions as label lists, the cache sizes are compared with the model")
RULE = ("all partitions/orders/duplications of an instance's record set (PTR, SRV, TXT, 1-3 addresses, optionally under a "
        "subtype) into 1-4 packets over 1-3 iterations with foreign records; PTR-only histories with the SRV/TXT and "
        "A/AAAA answers arriving before, between, after the follow-up questions or never, PTR expiry and re-announcement; "
        "lifecycle histories (updates, goodbyes, restarts, stop/re-browse, verify); instance labels with spaces, "
        "backslash, non-ASCII, dots (known finding), hosts whose case differs between SRV target and address owner "
        "(repaired: must resolve), instances under type and subtype PTR; timer-exact and late schedules; non-trivial = at least one event or follow-up question")
TRUSTED = bc.TRUSTED_COMMON
PARTIAL = ("History-level completeness (chk_C04 over all histories) is not a theorem: it is false of the faithful model "
           "(2 known-finding classes, refutation witness proved; the witnesses of the classes repaired in round 2 - restart, "
           "stale pending_resolves, host case - are examples/corpus cases that pass); outside those classes it is checked by the monitor on "
           "the implementation and on the model for every generated history, and the component theorems cover the "
           "resolution step and the follow-up chain. 'At least one address in the interface's subnet' is not used by "
           "the code and not required by the checker. The third and second follow-up times are tied by model/"
           "implementation equality and by the monitor's chained obligations (each try at +500 ms of the previous one, "
           "right question, wake-up requested), the bound of 3 and the asked names.")

project = bc.project_line
model_input = bc.model_input_line
nontrivial = bc.nontrivial_obs
shrink = bc.shrink_hist

KNOWN = {
    "labels:presentation": "C04-D20-dotted-label-followup",
    "complete:refresh-only": "C04-last-second-refresh-not-new",
}


def known_class(line, impl_result, mon_result):
    return bc.known_from_tags(mon_result, KNOWN)


def generate(rng, tier):
    k = 1 if tier == "quick" else 12
    return bc.mk_cases(rng, [
        ("order", 1200 * k, bc.gen_order),
        ("follow", 800 * k, bc.gen_followup),
        ("life", 1000 * k, bc.gen_lifecycle),
        ("dotted", 20 * k, lambda r, i: bc.gen_special(r, i, "dotted")),
        ("case", 120 * k, lambda r, i: bc.gen_special(r, i, "case")),
        ("twotypes", 30 * k, lambda r, i: bc.gen_special(r, i, "two-types")),
        ("long", 3 * k, bc.gen_long),
    ])


def search(rng, problems, disagreeing):
    return generate(rng, "quick")
