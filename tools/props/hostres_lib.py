"""Shared helpers of the `hostres` group (C17, C20): abstract records <-> DNS packets, mapping of
sim trace records to the history's steps, canonical tokens.  Used by c17.py and c20.py."""
import ipaddress
import json
import os
import sys

sys.path.insert(0, os.path.dirname(os.path.dirname(os.path.abspath(__file__))))
import dnsgen  # noqa: E402

T0 = 1_000_000
TY = {"A": 1, "PTR": 12, "TXT": 16, "AAAA": 28, "SRV": 33, "NSEC": 47}

IF2_V4 = {"name": "eth0", "index": 2, "addr": "192.168.1.10", "mask": "255.255.255.0"}
IF2_V6 = {"name": "eth0", "index": 2, "addr": "fe80::10", "mask": "ffff:ffff:ffff:ffff::"}
IF3_V4 = {"name": "wlan0", "index": 3, "addr": "10.0.0.10", "mask": "255.255.255.0"}


def hx(b):
    if isinstance(b, str):
        b = b.encode()
    return b.hex() if b else "-"


# --------------------------------------------------------------------------- abstract records
# rec = {"sec": 1|2|3, "ty": int, "name": str, "cls": int(15 bit), "flush": bool, "ttl": int,
#        "data": bytes (address bytes / TXT bytes / NSEC bitmap), "target": str|None (PTR alias,
#        SRV host, NSEC next name), "srv": (prio, weight, port)|None}

def rec_addr(sec, name, addr, ttl, flush=True, cls=1):
    ip = ipaddress.ip_address(addr)
    return {"sec": sec, "ty": 1 if ip.version == 4 else 28, "name": name, "cls": cls, "flush": flush, "ttl": ttl,
            "data": ip.packed, "target": None, "srv": None}


def rec_ptr(sec, name, alias, ttl, flush=False, cls=1):
    return {"sec": sec, "ty": 12, "name": name, "cls": cls, "flush": flush, "ttl": ttl, "data": b"",
            "target": alias, "srv": None}


def rec_srv(sec, name, host, ttl, port=80, flush=True, cls=1, prio=0, weight=0):
    return {"sec": sec, "ty": 33, "name": name, "cls": cls, "flush": flush, "ttl": ttl, "data": b"",
            "target": host, "srv": (prio, weight, port)}


def rec_txt(sec, name, text, ttl, flush=True, cls=1):
    return {"sec": sec, "ty": 16, "name": name, "cls": cls, "flush": flush, "ttl": ttl, "data": text,
            "target": None, "srv": None}


def rec_nsec(sec, name, ttl, bitmap=b"\x40", flush=True, cls=1):
    return {"sec": sec, "ty": 47, "name": name, "cls": cls, "flush": flush, "ttl": ttl, "data": bitmap,
            "target": name, "srv": None}


def build_packet(recs, compress=True):
    """Response packet carrying the records, sections in wire order."""
    p = dnsgen.Packet(compress)
    for r in sorted(recs, key=lambda r: r["sec"]):
        cls = r["cls"] | (0x8000 if r["flush"] else 0)
        if r["ty"] == 12:
            rd = dnsgen.rd_ptr(r["target"])
        elif r["ty"] == 33:
            rd = dnsgen.rd_srv(r["srv"][0], r["srv"][1], r["srv"][2], r["target"])
        elif r["ty"] == 47:
            rd = dnsgen.rd_nsec(r["target"], r["data"])
        else:
            rd = dnsgen.rd_bytes(r["data"])
        p.rr(r["sec"], r["name"], r["ty"], cls, r["ttl"], rd)
    return p.finish(flags=0x8400).hex()


def recs_of_packet(hexs):
    """Abstract records of a response packet (all_records order), or None if not a response /
    unparsable.  Mirrors what the crate's decoder presents: dotted names, no escaping."""
    d = bytes.fromhex(hexs) if hexs != "-" else b""
    m = dnsgen.parse_packet(d)
    if m is None or not (m["flags"] & 0x8000):
        return None
    out = []
    for sec, key in ((1, "an"), (2, "ns"), (3, "ar")):
        for rr in m[key]:
            name = dnsgen.dotted(rr["name"]).decode("utf-8", "replace")
            r = {"sec": sec, "ty": rr["type"], "name": name, "cls": rr["class"], "flush": rr["flush"], "ttl": rr["ttl"],
                 "data": rr["rdata"], "target": None, "srv": None}
            if rr["type"] in (12, 5) and rr["target"] is not None:
                r["target"] = dnsgen.dotted(rr["target"]).decode("utf-8", "replace")
                r["data"] = b""
            elif rr["type"] == 33 and rr["target"] is not None:
                r["target"] = dnsgen.dotted(rr["target"]).decode("utf-8", "replace")
                r["srv"] = rr["srv"]
                r["data"] = b""
            elif rr["type"] == 47:
                # generator convention: the next-domain name of an NSEC record is its owner;
                # the identity of the record is then (owner, type bitmap)
                rd = rr["rdata"]
                i = 0
                while i < len(rd):
                    l = rd[i]
                    if l == 0:
                        i += 1
                        break
                    if l & 0xC0 == 0xC0:
                        i += 2
                        break
                    i += 1 + l
                r["target"] = name
                r["data"] = rd[i + 2:]
            out.append(r)
    return out


def iface_families(ifaces):
    """{index: set('4','6')} of a daemon's interface table."""
    fam = {}
    for i in ifaces:
        v = "6" if ":" in i["addr"] else "4"
        fam.setdefault(i["index"], set()).add(v)
    return fam


def first_pair(ifaces):
    """The (index, is_v4) pair used to pick one copy of every multicast message."""
    fam = iface_families(ifaces)
    idx = sorted(fam)[0]
    return idx, ("4" in fam[idx])


# --------------------------------------------------------------------------- trace <-> steps

def iterations(h, res):
    """Maps the iteration records of a sim result to the history's steps.
    Returns a list of (trace_record, step or None); step is the explicit step whose calls /
    dgrams were applied in that iteration (None for iterations inside run_until)."""
    trace = [r for r in res["trace"]]
    init = [r for r in trace if r.get("init")]
    recs = [r for r in trace if "it" in r]
    last_wake = init[0].get("wake") if init else None
    out = []
    k = 0
    for st in h["steps"]:
        if "run_until" in st:
            until = st["run_until"]
            n = 0
            max_iters = st.get("max_iters", 5000)
            while k < len(recs) and last_wake is not None and last_wake <= until and n < max_iters:
                r = recs[k]
                out.append((r, None))
                last_wake = r.get("wake")
                if r.get("exited") or r.get("stuck"):
                    last_wake = None
                k += 1
                n += 1
            continue
        if st.get("t") == "wake" and last_wake is None:
            continue
        if k >= len(recs):
            break
        r = recs[k]
        out.append((r, st))
        last_wake = r.get("wake")
        if r.get("exited") or r.get("stuck"):
            last_wake = None
        k += 1
    if k != len(recs):
        raise ValueError("trace/step mapping failed: %d of %d records mapped" % (k, len(recs)))
    return out


def delivered_msgs(h, step):
    """The dgrams of a step that reach handle_response, in processing order (the daemon drains
    the IPv4 socket first, then the IPv6 socket): list of (if_index, [abstract recs])."""
    fam = iface_families(h["daemons"][0]["ifaces"])
    out = []
    for want_v4 in (True, False):
        for g in step.get("dgrams") or []:
            v4 = g.get("v4", True)
            if v4 != want_v4:
                continue
            idx = g.get("if", 0)
            if idx not in fam or ("4" if v4 else "6") not in fam[idx]:
                continue
            recs = recs_of_packet(g["hex"])
            if recs is None:
                continue
            out.append((idx, recs))
    return out


def addr_token(s):
    """'192.168.1.99@2' or 'a@2+3' -> list of (bytes, ifindex)."""
    ip, ids = s.rsplit("@", 1)
    packed = ipaddress.ip_address(ip).packed
    return [(packed, int(i)) for i in ids.split("+") if i != ""]


def sent_queries(rec, pair):
    """Question lists of the query messages sent in one iteration (one copy per message)."""
    out = []
    for p in rec.get("sent") or []:
        if p.get("kind") != "mcast" or p.get("if") != pair[0] or p.get("v4") != pair[1]:
            continue
        m = dnsgen.parse_packet(bytes.fromhex(p["hex"]))
        if m is None or (m["flags"] & 0x8000):
            continue
        out.append([(dnsgen.dotted(n), t) for (n, t, c) in m["q"]])
    return out


def check_copies(rec, ifaces):
    """Every multicast message must have been sent once per (interface, family) pair."""
    fam = iface_families(ifaces)
    pairs = [(i, f == "4") for i in fam for f in fam[i]]
    counts = {}
    for p in rec.get("sent") or []:
        if p.get("kind") == "mcast":
            counts[(p.get("if"), p.get("v4"))] = counts.get((p.get("if"), p.get("v4")), 0) + 1
    vals = set(counts.get(p, 0) for p in pairs)
    return len(vals) <= 1


def dumps(h):
    return json.dumps(h, separators=(",", ":"))
