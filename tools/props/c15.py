"""C15  No API argument and no packet can crash a caller or kill the daemon."""
import json
import os
import sys

sys.path.insert(0, os.path.dirname(os.path.dirname(os.path.abspath(__file__))))
import vlib
from vlib import Case
import dnsgen
from dnsgen import Packet, rd_ptr, rd_srv, rd_bytes

ID = "C15"
CLAIMED = True
MODEL_GROUP = "safety"
THEOREM_FILE = "Props/C15.v"
HARNESS_ENV = {"VERIF_WATCHDOG_MS": "40000"}
PER_SHARD = 40
LEVEL_TEXT = ("Coq theorems over a Gallina model of every argument validator and renaming function (str slicing, "
              "truncate and usize subtraction return an explicit Panic): none of them panics on ANY valid UTF-8 string; "
              "every name accepted by browse / resolve_hostname / register (full name, type, subtype, host) splits, under "
              "the encoder's own label split (Model/WireOut.v, shared with C02), into labels of 1..63 bytes, so "
              "write_utf8's assertion cannot fire on it; any number of conflict renames (split_first_label / "
              "label_with_suffix modelled exactly) keeps a name encodable; since 4c6b25c the argument checks also test "
              "the lower-cased spelling (the daemon's map keys): str::to_lowercase is an explicit function argument "
              "`lc` of the model, every theorem holds for every `lc`, and accepted names are encodable as given AND "
              "as `lc name`; every name that passes read_name's fit test "
              "re-encodes without panic. The model is tied to the Rust on every run "
              "by regenerated guards (Gen/ParamsSafety.v), a differential run of every validator on generated strings, "
              "and simulated-daemon histories whose outcome (call results, daemon alive and serving) is monitored")
TECHNIQUE = ("machine-checked proof in Coq (char-boundary lemmas over valid UTF-8, label-split lemmas over the encoder "
             "model) + model/implementation correspondence + monitor chk_C15 on simulated-daemon runs")
LEVELS = ("K2 (check_domain_suffix, check_service_name, check_service_name_length, check_hostname, "
          "valid_instance_name, name_change, hostname_change, split_sub_domain, escape_instance_name, "
          "normalize_hostname, parse_escaped_name/name_labels_fit, ServiceInfo::new names) + "
          "K6 (real daemon thread in the simulated world: hostile API calls and hostile packets against a daemon "
          "with an active browse, resolver and registration, then virtual time for deferred work, then status + fresh browse)")
RULE = ("strings: empty, long (to 5000 bytes; 20000 in the thorough tier), labels of 59..65/255 bytes, a multi-byte "
        "character / '.' / '\\\\' inserted at every byte position of base names (position 0 of every label included), "
        "missing, doubled and truncated suffixes, ' (N)' and '-N' suffix forms around u32::MAX and with signs, "
        "non-ASCII digits; each string goes through every validator. Histories: setup (monitor, browse, resolver, "
        "registration), one hostile step (API calls with generated strings and huge numbers, and/or packets: "
        "structured responses/queries aimed at the active searches and the registration with hostile labels, "
        "C01's wild and mutated packets; family probe-conflict: a service being probed receives peer probe queries "
        "(ANY question for its instance / host name, authority lists empty / strict prefix / equal / extended / "
        "different, built from its own records, IPv4 and IPv4+IPv6, with and without TXT data); family "
        "lowercase-growth: resolve_hostname / browse / verify / register / subtype with labels of U+0130, U+023A, "
        "U+023E (2 bytes, lower-cased 3) whose lower-cased length is 62, 63, 64, 90 (given <= 63), answers with TTL "
        "2-5 s, 9 s of virtual time for the 80 % refresh and the retransmissions; backslash chains of 3-7 labels), 2-9 s of "
        "timer-exact virtual time, final status + fresh browse. "
        "non-trivial = not SKIP; distinct = distinct case lines")
TRUSTED = [
    "Coq 8.16.1 kernel (coqc); vm_compute only in Examples and in the two refutation witnesses",
    "axioms: none (Print Assumptions: Closed under the global context)",
    "extraction (ExtrOcamlBasic only) + ocaml/safety/driver.ml",
    "tools/extract_params.py: guards of check_service_name_length, check_hostname, name_labels_fit, write_utf8, "
    "set_service_name_len_max, valid_instance_name and the channel bound -> Gen/ParamsSafety.v, pinned in Proofs/SafetyNamesProofs.v",
    "hooks: verif-hooks facade (field copying) and the simulated world of DESIGN.md section 4",
    "str::to_lowercase (Unicode case mapping of the Rust std library) is NOT modelled: the harness (`simh`) "
    "computes the lower-cased spelling of every name the argument checks look at and hands the table to the "
    "model as the oracle `lc` (names not in the table are folded on ASCII); that the daemon really uses "
    "to_lowercase for its map keys is read from the source, not proved",
    "modelled, not verified: str::find/rfind/split/ends_with/strip_suffix/rsplit_once as byte-list functions; "
    "u32::from_str (optional '+', decimal digits, overflow -> Err); String::truncate and &s[a..b] panic exactly off "
    "char boundaries / out of range",
    "the encoder's label split is WireOut.name_labels (model of parse_escaped_name after strip_suffix('.')), the same "
    "definition C02's round-trip theorem is about",
]
PARTIAL = ("Proved: panic-freedom of the validators/renaming functions and encodability of accepted names. NOT proved: "
           "panic-freedom of the whole daemon iteration (handle_response, handle_query, probing, cache): the daemon-level "
           "part of the statement is covered by the K6 monitor only (hostile packets and calls, then status + fresh "
           "browse), together with C01's decode_total for the decoder. AsIpAddrs (std::net parsers), TXT size checks "
           "(C16) are outside the model; Unicode case mapping is an oracle input (`lc`), so the theorems say nothing "
           "about WHICH lower-cased spelling the daemon computes, only that whatever spelling passed the check is "
           "encodable; that no other derived spelling is ever encoded is covered by the K6 family lowercase-growth only; "
           "set_multicast_loop_* unwraps depend on the OS. The name reader itself is Model/Wire.v (C01); here only its "
           "final fit test is modelled (read_name_fit).")

TCP = "._tcp.local."
UDP = "._udp.local."
MB = ["é", "日", "\U0001F600", "ß"]
ALPHA = "abcxyzABZ019-_ ()\\"


def hx(s):
    b = s.encode() if isinstance(s, str) else s
    return b.hex() if b else "-"


# --------------------------------------------------------------------------- string generators

def rand_label(rng, n=None):
    if n is None:
        n = rng.choice([0, 1, 1, 2, 3, 5, 8, 15, 16, 30, 31, 59, 60, 61, 62, 63, 64, 65, 255])
    r = rng.random()
    if r < 0.5:
        return "".join(rng.choice("abcdefgh") for _ in range(n))
    if r < 0.8:
        return "".join(rng.choice(ALPHA) for _ in range(n))
    out = ""
    while len(out.encode()) < n:
        out += rng.choice(MB + list("ab-_."))
    while len(out.encode()) > n and out:
        out = out[:-1]
    return out


SUFFIXES = [TCP, UDP, ".local.", ".local.local.", "._tcp.local", "_tcp.local.", TCP + TCP[1:], TCP + UDP[1:],
            "._sub._x" + TCP, "._sub.", "", ".", "..", "._tcp.local.x", "._TCP.local.", ".Local."]


def rand_string(rng):
    n = rng.choice([0, 1, 1, 2, 2, 3, 5])
    s = ".".join(rand_label(rng) for _ in range(n))
    if rng.random() < 0.5:
        s += rng.choice(["._x", "._http", ".x", "._-x", "._x-", "._x--y", "._1", "._é", "._", ""])
    return s + rng.choice(SUFFIXES)


RENAME_NUMS = ["", "2", "9", "10", "007", "+5", "-5", "+", "-", "4294967294", "4294967295", "4294967296",
               "99999999999999999999", "2a", " 2", "²", "２", "0", "00", "1 1", "2)", "(2"]


def rename_strings():
    out = []
    for n in RENAME_NUMS:
        for base in ["a", "", "é", "a b", "a (1)", "x" * 59, "x" * 63]:
            out.append("%s (%s)._x._tcp.local." % (base, n))
            out.append("%s (%s)" % (base, n))
            out.append("%s (%s)z._x._tcp.local." % (base, n))
            out.append("%s-%s.local." % (base, n))
            out.append("%s-%s" % (base, n))
    out += ["a (2) (3).x.", "a ()", "a (2", "a 2)", " (2)", "(2)", " (", ")", " ()", "a (é)", "a (2)é", "a(2)",
            "a (2).", ".a (2)", "a\\.b (2)._x._tcp.local.", "h-", "-", "--", "-2", "h--2", "h-é", "h-2-", "é-2", "h-2.é-3.local."]
    return out


def cut_strings():
    """first labels around the 63-byte limit: label_with_suffix has to shorten the base on a
    character boundary and must not cut an escape sequence"""
    out = []
    fillers = ["a", "é", "日", "\U0001F600", "\\", "\\.", "a\\", "\\\\", "é\\."]
    for n in range(44, 70):
        for f in fillers:
            base = ""
            while len((base + f).encode()) <= n:
                base += f
            base += "b" * (n - len(base.encode()))
            for tail in ["._x._tcp.local.", ".local.", "", "\\.c._x._tcp.local."]:
                out.append(base + tail)
                out.append(base + " (9)" + tail)
                out.append(base + " (4294967294)" + tail)
                out.append(base + "-9" + tail)
                out.append(base + "-99999" + tail)
    return out


def sweep_strings():
    """a multi-byte character, '.', '\\' inserted at every byte position of base names"""
    out = []
    bases = ["_ab._tcp.local.", "in (2)._ab._udp.local.", "host-7.local.", "_p._sub._b._udp.local.", "a.local.local."]
    for b in bases:
        for pos in range(len(b) + 1):
            for ins in ["é", "日", "\U0001F600", ".", "\\", "_", "-"]:
                out.append(b[:pos] + ins + b[pos:])
    return out


def boundary_strings():
    out = ["", ".", "..", "\\", "\\\\", "\\.", "_", "é", TCP, UDP, ".local.", "local.", "x.local.", "x" + TCP, "_x" + TCP,
           "_" + TCP, "_-" + TCP, "_x-" + TCP, "_1" + TCP, "_é" + TCP, "é" + TCP, "_aé" + TCP, "i._x" + TCP]
    for n in [15, 16, 30, 31, 59, 60, 61, 62, 63, 64, 65, 255, 256]:
        lab = "a" * n
        out += [lab + ".local.", lab + TCP, "_" + lab + TCP, lab + "._x" + TCP, "_x._sub._" + lab + TCP,
                "é" * (n // 2) + ("a" if n % 2 else "") + ".local.",
                lab[: n - 1] + "\\.b._x" + TCP if n > 1 else "b", "a" * (n - 1) + "\\" + "." + "b" * 40 + "._x" + TCP]
    for n in [240, 248, 249, 250, 255, 256, 1000, 5000]:
        out.append(".".join(["a" * 50] * (n // 51)) + "." + "b" * (n % 51) + ".local.")
    return out


KINDS1 = ["v_dom", "v_svc", "v_host", "v_inst", "v_nc", "v_hc", "v_esc", "v_norm", "v_sub", "v_lab"]


def k2_cases(s, tag, rng):
    if tag == "cut":
        return [Case("%s %s" % (k, hx(s)), tag) for k in ("v_nc", "v_hc", "v_lab")]
    cs = [Case("%s %s" % (k, hx(s)), tag) for k in KINDS1]
    cs.append(Case("v_len %s %d" % (hx(s), rng.choice([15, 15, 30, 0, 255, 1])), tag))
    return cs


# --------------------------------------------------------------------------- simulated histories

IFACES = [{"name": "eth0", "index": 2, "addr": "192.168.1.10", "mask": "255.255.255.0"}]
T0 = 1000000
GOOD_TY = "_good._tcp.local."
GOOD_HOST = "goodhost.local."
GOOD_INST = "inst"
RES_HOST = "look.local."


def setup_calls():
    return [{"op": "monitor", "ch": "m"},
            {"op": "browse", "ty": GOOD_TY, "ch": "b0"},
            {"op": "resolve_hostname", "host": RES_HOST, "ch": "r0"},
            {"op": "register", "svc": {"ty": GOOD_TY, "name": GOOD_INST, "host": GOOD_HOST, "ips": "192.168.1.10", "port": 80}}]


def history(hid, hostile_steps, settle_ms=3000, setup=True):
    steps = []
    t = T0
    if setup:
        steps.append({"t": t, "d": 0, "calls": setup_calls()})
    for st in hostile_steps:
        t += st.pop("dt", 100)
        st.update({"t": t, "d": 0})
        steps.append(st)
    steps.append({"run_until": t + settle_ms, "max_iters": 400})
    steps.append({"t": t + settle_ms + 1, "d": 0,
                  "calls": [{"op": "status", "ch": "zs"}, {"op": "browse", "ty": "_fresh._udp.local.", "ch": "zb"}]})
    h = {"id": hid, "t0": T0, "daemons": [{"seed": 3, "ifaces": IFACES}], "link": "none", "steps": steps}
    return "simh " + json.dumps(h, separators=(",", ":"), ensure_ascii=False)


def dg(pkt, src="192.168.1.99:5353"):
    return {"if": 2, "v4": True, "src": src, "hex": pkt.hex()}


def labs(*ls):
    return [l if isinstance(l, bytes) else l.encode() for l in ls]


GOOD_LABS = labs("_good", "_tcp", "local")

HOSTILE_LABELS = [b"a\\", b"a" * 40 + b"\\", b"b" * 40, b"c" * 29 + b"\\", b"d" * 29 + b"\\", b"e" * 20 + b"\\", b"a" * 62 + b"\\", b"x" * 63, b"a.b.c", b".", b"\\", b"\\\\",
                  b"\\.", b"a\\.b", "é".encode() * 31 + b"a", b"_good", b"local", b"inst", b"Inst", b"(2)", b"inst (2)",
                  b"a" * 60, b"goodhost", b"look", b"LOOK", b"\xff\xfe", b" ", b"a b"]


def hostile_response(rng):
    """a response aimed at the active browse / resolver / registration with hostile labels"""
    p = Packet(compress=rng.random() < 0.7)
    n_inst = rng.choice([1, 1, 2, 3, 4])
    inst = [rng.choice(HOSTILE_LABELS) for _ in range(n_inst)] + GOOD_LABS
    host = [rng.choice(HOSTILE_LABELS) for _ in range(rng.choice([1, 1, 2]))] + [b"local"]
    for _ in range(rng.choice([1, 2, 3, 5])):
        k = rng.choice(["PTR", "PTR", "SRV", "TXT", "A", "AAAA", "PTRsub", "NSEC", "Amine", "SRVmine", "Alook"])
        cls = rng.choice([1, 0x8001])
        ttl = rng.choice([0, 1, 120, 4500, 0xFFFFFFFF])
        sec = rng.choice([1, 1, 1, 3])
        if k == "PTR":
            p.rr(sec, GOOD_LABS, 12, cls, ttl, rd_ptr(inst))
        elif k == "PTRsub":
            p.rr(sec, labs("_s", "_sub") + GOOD_LABS, 12, cls, ttl, rd_ptr(inst))
        elif k == "SRV":
            p.rr(sec, inst, 33, cls, ttl, rd_srv(0, 0, rng.randrange(65536), host))
        elif k == "TXT":
            p.rr(sec, inst, 16, cls, ttl, rd_bytes(rng.choice([b"\x00", b"", b"\x03a=b", b"\xff" + b"a" * 10, b"\x01"])))
        elif k == "A":
            p.rr(sec, host, 1, cls, ttl, rd_bytes(bytes(rng.randrange(256) for _ in range(rng.choice([4, 4, 0, 3, 16])))))
        elif k == "AAAA":
            p.rr(sec, host, 28, cls, ttl, rd_bytes(bytes(rng.randrange(256) for _ in range(rng.choice([16, 16, 4, 0])))))
        elif k == "NSEC":
            p.rr(sec, host, 47, cls, ttl, dnsgen.rd_nsec(host, bytes(rng.randrange(256) for _ in range(rng.choice([0, 1, 32, 33])))))
        elif k == "Amine":
            p.rr(sec, labs("goodhost", "local"), 1, cls, ttl, rd_bytes(bytes([192, 168, 1, rng.choice([10, 77])])))
        elif k == "SRVmine":
            p.rr(sec, labs(rng.choice(["inst", "INST"])) + GOOD_LABS, 33, cls, ttl, rd_srv(0, 0, rng.choice([80, 81]), rng.choice([labs("goodhost", "local"), host])))
        else:
            p.rr(sec, labs(rng.choice(["look", "LOOK"]), "local"), 1, cls, ttl, rd_bytes(bytes([192, 168, 1, rng.randrange(256)])))
    return p.finish(flags=rng.choice([0x8400, 0x8400, 0x8000, 0x8600]))


def hostile_query(rng):
    p = Packet(compress=rng.random() < 0.7)
    for _ in range(rng.choice([1, 1, 2, 4])):
        name = rng.choice([GOOD_LABS, labs("inst") + GOOD_LABS, labs("INST") + GOOD_LABS, labs("goodhost", "local"),
                           labs("_services", "_dns-sd", "_udp", "local"), [rng.choice(HOSTILE_LABELS)] + GOOD_LABS,
                           [rng.choice(HOSTILE_LABELS), b"local"]])
        p.question(name, rng.choice([12, 33, 16, 1, 28, 255, 47, 99]), rng.choice([1, 0x8001, 255]))
    for _ in range(rng.choice([0, 0, 1, 2])):
        p.rr(1, GOOD_LABS, 12, 1, rng.choice([0, 2000, 4500]), rd_ptr(labs(rng.choice(["inst", "other"])) + GOOD_LABS))
    for _ in range(rng.choice([0, 0, 1])):
        p.rr(2, labs("inst") + GOOD_LABS, 33, 1, 120, rd_srv(0, 0, 99, labs("zz", "local")))
    return p.finish(flags=rng.choice([0, 0, 0x0200]), ident=rng.choice([0, 7]))


def rand_dgram(rng):
    r = rng.random()
    if r < 0.35:
        b = hostile_response(rng)
    elif r < 0.55:
        b = hostile_query(rng)
    elif r < 0.7:
        b = dnsgen.rand_wild_packet(rng)
    elif r < 0.8:
        b = dnsgen.rand_valid_packet(rng)
    else:
        b = dnsgen.mutate(rng, rng.choice([hostile_response, hostile_query, dnsgen.rand_valid_packet])(rng))
    src = rng.choice(["192.168.1.99:5353", "192.168.1.99:5353", "192.168.1.99:40000", "10.9.9.9:5353", "192.168.1.10:5353"])
    return dg(b, src)


def rand_api_call(rng, k):
    s = rng.choice([rand_string, rand_string, lambda r: r.choice(boundary_strings()), lambda r: r.choice(rename_strings())])(rng)
    if len(s.encode()) > 1200:
        s = s[:600]
    op = rng.choice(["browse", "browse", "resolve_hostname", "resolve_hostname", "register", "register", "register",
                     "stop_browse", "stop_resolve_hostname", "unregister", "verify", "lenmax", "ipcheck", "browse_cache"])
    ch = "h%d" % k
    if op in ("browse", "browse_cache"):
        return {"op": op, "ty": s, "ch": ch}
    if op == "resolve_hostname":
        return {"op": op, "host": s, "timeout": rng.choice([None, 0, 1, 1000, 2 ** 63, 2 ** 64 - 1]), "ch": ch}
    if op == "register":
        name = rng.choice([rand_label(rng), "inst", "a.b", "a\\", "x" * 63, "x" * 64, "", "é" * 31 + "a"])
        ty = rng.choice([s, GOOD_TY, "_s._sub." + GOOD_TY, rand_label(rng, rng.choice([1, 14, 15, 16, 63, 64])) + TCP,
                         "_" + rand_label(rng, rng.choice([1, 14, 15, 16, 62, 63])) + TCP])
        host = rng.choice([s, GOOD_HOST, "x" * 63 + ".local.", "x" * 64 + ".local.", "h.local.local.", ".local."])
        return {"op": op, "svc": {"ty": ty, "name": name, "host": host, "ips": rng.choice(["192.168.1.10", "auto", "192.168.1.10,fe80::1"]),
                                  "port": rng.choice([0, 80, 65535])}}
    if op in ("stop_browse",):
        return {"op": op, "ty": s}
    if op == "stop_resolve_hostname":
        return {"op": op, "host": s}
    if op == "unregister":
        return {"op": op, "name": s, "ch": ch}
    if op == "verify":
        return {"op": op, "name": s, "timeout": rng.choice([0, 1000, 2 ** 63, 2 ** 64 - 1])}
    if op == "lenmax":
        return {"op": "set_service_name_len_max", "len": rng.choice([0, 1, 15, 30, 31, 255])}
    return {"op": "set_ip_check_interval", "secs": rng.choice([0, 1, 2 ** 32 - 1])}


# witnesses of the two refuted statements (known findings), and of repaired defects
def rename_history(hid, inst, host=GOOD_HOST, conflict="srv"):
    p = Packet()
    if conflict == "srv":
        p.rr(1, labs(inst, "_x", "_tcp", "local"), 33, 0x8001, 120, rd_srv(0, 0, 9999, "other.local."))
    else:
        p.rr(1, labs(host.split(".")[0], "local"), 1, 0x8001, 120, rd_bytes(bytes([192, 168, 1, 77])))
    return history(hid, [
        {"dt": 0, "calls": [{"op": "register", "svc": {"ty": "_x._tcp.local.", "name": inst, "host": host, "ips": "192.168.1.10", "port": 80}}]},
        {"dt": 300, "dgrams": [dg(p.finish(flags=0x8400))]}], settle_ms=4000)


def reencode_history(hid, alias_labels, via="ptr"):
    p = Packet()
    if via == "ptr":
        p.rr(1, GOOD_LABS, 12, 1, 4500, rd_ptr(list(alias_labels) + GOOD_LABS))
    else:
        inst = labs("remote") + GOOD_LABS
        p.rr(1, GOOD_LABS, 12, 1, 4500, rd_ptr(inst))
        p.rr(1, inst, 33, 0x8001, 120, rd_srv(0, 0, 80, list(alias_labels) + [b"local"]))
        p.rr(1, inst, 16, 0x8001, 4500, rd_bytes(b"\x00"))
    return history(hid, [{"dt": 100, "dgrams": [dg(p.finish(flags=0x8400))]}], settle_ms=2000)


# ---- probe conflicts: peer probe queries for the names of a service that is being probed ----
IFACES6 = IFACES + [{"name": "eth0", "index": 2, "addr": "fe80::10", "mask": "ffff:ffff:ffff:ffff::"}]
PC_TY = "_pc._tcp.local."
PC_INST = "pc"
PC_HOST = "pchost.local."


def probe_conflict_history(hid, rng, v6, with_prop, plan=None):
    """register a service (probing starts after a jitter < 250 ms), then, inside the 750 ms
    probing window, deliver probe queries (QR=0, question ANY for the instance or host name,
    authority section built from the service's own records: empty / strict prefix / equal /
    extended / different / other names only); the daemon must survive"""
    inst = labs(PC_INST, "_pc", "_tcp", "local")
    host = labs("pchost", "local")
    txt = (b"\x03k=v" if with_prop else b"\x00")
    own_inst = [(16, rd_bytes(txt)), (33, rd_srv(0, 0, 8080, host))]          # sorted by type: TXT, SRV
    own_host = [(1, rd_bytes(bytes([192, 168, 1, 10])))]
    if v6:
        own_host.append((28, rd_bytes(bytes.fromhex("fe80000000000000" + "0000000000000010"))))
    variants_inst = {
        "empty": [], "prefix": own_inst[:1], "equal": own_inst,
        "extended": own_inst + [(47, dnsgen.rd_nsec(inst, b"\x00\x04\x00\x00\x80\x00"))],
        "second-only": own_inst[1:], "greater": [(16, rd_bytes(b"\x03z=z"))], "less": [(16, rd_bytes(b""))],
        "prefix-then-diff": [own_inst[0], (33, rd_srv(0, 0, 9, labs("zz", "local")))],
    }
    variants_host = {
        "empty": [], "prefix": own_host[:1], "equal": own_host,
        "extended": own_host + [(28, rd_bytes(bytes(16)))], "greater": [(1, rd_bytes(bytes([255, 1, 1, 1])))],
        "less": [(1, rd_bytes(bytes([1, 1, 1, 1])))], "second-only": own_host[1:],
    }

    def packet(name, recs, also_other):
        p = Packet(compress=rng.random() < 0.5)
        p.question(name, 255, rng.choice([1, 0x8001]))
        for ty, rd in recs:
            p.rr(2, name, ty, rng.choice([1, 0x8001]), rng.choice([120, 4500]), rd)
        if also_other or not recs:
            p.rr(2, labs("someone", "else", "local"), 1, 1, 120, rd_bytes(bytes([10, 0, 0, 1])))
        return p.finish(flags=0)
    steps = [{"dt": 0, "calls": [{"op": "register", "svc": {
        "ty": PC_TY, "name": PC_INST, "host": PC_HOST, "ips": "192.168.1.10,fe80::10" if v6 else "192.168.1.10",
        "port": 8080, "props": [["6b", "76"]] if with_prop else []}}]}]
    for dt in ([300, 200, 200] if plan is None else [300]):
        dgs = []
        for _ in range(1 if plan else rng.choice([1, 2, 3])):
            if plan:
                which, var = plan
            else:
                which = rng.choice(["inst", "host"])
                var = rng.choice(sorted(variants_inst if which == "inst" else variants_host))
            name, recs = (inst, variants_inst[var]) if which == "inst" else (host, variants_host[var])
            if rng.random() < 0.15 and not plan:
                name = [name[0].upper()] + name[1:]
            dgs.append(dg(packet(name, recs, rng.random() < 0.3)))
        steps.append({"dt": dt, "dgrams": dgs})
    line = history(hid, steps, settle_ms=3000)
    if v6:
        h = json.loads(line[5:])
        h["daemons"][0]["ifaces"] = IFACES6
        line = "simh " + json.dumps(h, separators=(",", ":"), ensure_ascii=False)
    return line


def probe_conflict_cases(rng, n_random):
    cs = []
    for v6 in (False, True):
        for with_prop in (False, True):
            for which, names in (("inst", ["empty", "prefix", "equal", "extended", "second-only", "greater", "less", "prefix-then-diff"]),
                                 ("host", ["empty", "prefix", "equal", "extended", "greater", "less", "second-only"])):
                for var in names:
                    cs.append(Case(probe_conflict_history("pc-%s-%s-%d%d" % (which, var, v6, with_prop), rng, v6, with_prop, (which, var)), "probe-conflict"))
    for i in range(n_random):
        cs.append(Case(probe_conflict_history("pc-rand-%d" % i, rng, rng.random() < 0.5, rng.random() < 0.5), "probe-conflict"))
    return cs


# ---- labels whose lower-casing grows (4c6b25c) ----
GROW = ["\u0130", "\u023a", "\u023e"]     # 2 bytes each; to_lowercase gives 3 bytes


def grow_label(rng, lowered_len, prefix=""):
    """a label of <= 63 bytes whose Rust-lower-cased form has `lowered_len` bytes"""
    body = lowered_len - len(prefix.lower().encode())
    n = min(body // 3, 30)
    m = body - 3 * n
    while 2 * n + m + len(prefix.encode()) > 63 and n < 30:
        n += 1
        m = body - 3 * n
    if m < 0:
        n, m = body // 3, body % 3
    chars = [rng.choice(GROW) for _ in range(n)] + ["x"] * m
    if rng.random() < 0.5:
        rng.shuffle(chars)
    return prefix + "".join(chars)


def lowercase_growth_history(hid, rng, lowered_len, kind):
    """names with a label that grows when lower-cased (the daemon's map keys are lower-cased and
    some queries go out under the key), answers with SHORT TTLs so that the 80 % refresh and
    the retransmissions happen inside the history; the daemon must survive"""
    lab = grow_label(rng, lowered_len)
    calls, dgs = [], []
    ttl = rng.choice([2, 3, 5])
    if kind == "resolve":
        host = lab + ".local."
        calls.append({"op": "resolve_hostname", "host": host, "ch": "g0", "timeout": rng.choice([None, 20000])})
        p = Packet()
        p.rr(1, labs(lab, "local"), 1, 0x8001, ttl, rd_bytes(bytes([192, 168, 1, 77])))
        if rng.random() < 0.5:
            p.rr(1, labs(lab, "local"), 28, 0x8001, ttl, rd_bytes(bytes.fromhex("fe80" + "00" * 13 + "77")))
        dgs.append(dg(p.finish(flags=0x8400)))
    elif kind in ("browse", "verify"):
        tlab = grow_label(rng, lowered_len, "_")
        ty = tlab + "._tcp.local."
        tyl = labs(tlab, "_tcp", "local")
        inst = labs("remote") + tyl
        calls.append({"op": "browse", "ty": ty, "ch": "g0"})
        if kind == "verify":
            calls.append({"op": "verify", "name": "remote." + ty, "timeout": 1000})
        p = Packet()
        p.rr(1, tyl, 12, 1, ttl, rd_ptr(inst))
        p.rr(1, inst, 33, 0x8001, ttl, rd_srv(0, 0, 80, labs(lab, "local")))
        p.rr(1, inst, 16, 0x8001, ttl, rd_bytes(b"\x00"))
        p.rr(1, labs(lab, "local"), 1, 0x8001, ttl, rd_bytes(bytes([192, 168, 1, 78])))
        dgs.append(dg(p.finish(flags=0x8400)))
    elif kind == "register":
        calls.append({"op": "register", "svc": {"ty": "_x._tcp.local.", "name": lab, "host": GOOD_HOST, "ips": "192.168.1.10", "port": 80}})
        calls.append({"op": "register", "svc": {"ty": "_x._tcp.local.", "name": "plain", "host": lab + ".local.", "ips": "192.168.1.10", "port": 81}})
        calls.append({"op": "unregister", "name": lab + "._x._tcp.local.", "ch": "g1"})
        p = Packet()
        p.question(labs(lab, "_x", "_tcp", "local"), 255, 1)
        p.question(labs(lab, "local"), 255, 1)
        dgs.append(dg(p.finish(flags=0)))
    elif kind == "peer":
        # a peer announces an instance of the type browsed by the setup step; its SRV target
        # (and optionally its instance label) grows when lower-cased; short ADDRESS TTLs so that
        # the refresh of the browsed hosts' addresses happens inside the history
        inst_lab = grow_label(rng, rng.choice([30, 62, 63, lowered_len])) if rng.random() < 0.5 else "remote"
        inst = labs(inst_lab) + GOOD_LABS
        long_ttl = rng.choice([120, 4500])
        p = Packet(compress=rng.random() < 0.7)
        p.rr(1, GOOD_LABS, 12, 1, long_ttl, rd_ptr(inst))
        p.rr(rng.choice([1, 3]), inst, 33, 0x8001, long_ttl, rd_srv(0, 0, 80, labs(lab, "local")))
        p.rr(rng.choice([1, 3]), inst, 16, 0x8001, long_ttl, rd_bytes(b"\x00"))
        p.rr(rng.choice([1, 3]), labs(lab, "local"), 1, 0x8001, ttl, rd_bytes(bytes([192, 168, 1, 79])))
        if rng.random() < 0.4:
            p.rr(3, labs(lab, "local"), 28, 0x8001, ttl, rd_bytes(bytes.fromhex("fe80" + "00" * 13 + "79")))
        dgs.append(dg(p.finish(flags=0x8400)))
        if rng.random() < 0.6:
            calls.append({"op": "resolve_hostname", "host": lab + ".local.", "ch": "g0"})
        if rng.random() < 0.4:
            calls.append({"op": "resolve_hostname", "host": lab.lower() + ".local.", "ch": "g2"})
        if rng.random() < 0.3:
            calls.append({"op": "verify", "name": inst_lab + "." + GOOD_TY, "timeout": 1000})
    else:  # subtype
        sub = grow_label(rng, lowered_len, "_")
        calls.append({"op": "register", "svc": {"ty": sub + "._sub._x._tcp.local.", "name": "subbed", "host": GOOD_HOST, "ips": "192.168.1.10", "port": 82}})
        calls.append({"op": "browse", "ty": sub + "._sub._x._tcp.local.", "ch": "g0"})
        p = Packet()
        p.rr(1, labs(sub, "_sub", "_x", "_tcp", "local"), 12, 1, ttl, rd_ptr(labs("remote", "_x", "_tcp", "local")))
        dgs.append(dg(p.finish(flags=0x8400)))
    steps = [{"dt": 0, "calls": calls}, {"dt": 100, "dgrams": dgs}] if calls else [{"dt": 100, "dgrams": dgs}]
    if rng.random() < 0.5:
        steps.append({"dt": 1200, "dgrams": dgs})
    return history(hid, steps, settle_ms=9000)


def lowercase_growth_cases(rng, n_random):
    cs = []
    for kind in ("resolve", "browse", "verify", "register", "subtype", "peer", "peer"):
        for ll in (62, 63, 64, 90):
            for rep in range(2):
                cs.append(Case(lowercase_growth_history("lg-%s-%d-%d" % (kind, ll, rep), rng, ll, kind), "lowercase-growth"))
    for i in range(n_random):
        cs.append(Case(lowercase_growth_history("lg-rand-%d" % i, rng, rng.choice([30, 60, 61, 62, 63, 64, 65, 66, 75, 89, 90]),
                                                rng.choice(["resolve", "resolve", "browse", "verify", "register", "subtype", "peer", "peer", "peer"])), "lowercase-growth"))
    return cs


def fixed_histories():
    hs = []
    for n in (59, 60, 61, 62, 63):
        hs.append(Case(rename_history("rename-inst-%d" % n, "a" * n), "rename"))
    for n in (61, 62, 63):
        hs.append(Case(rename_history("rename-host-%d" % n, "inst", "h" * n + ".local.", "addr"), "rename"))
    hs.append(Case(rename_history("rename-paren-max", "a (4294967295)"), "rename"))
    hs.append(Case(rename_history("rename-host-max", "inst", "h-4294967295.local.", "addr"), "rename"))
    for k, al in enumerate([[b"a\\", b"b"], [b"a" * 40 + b"\\", b"b" * 40], [b"a" * 62 + b"\\", b"b"], [b"a.b.c"], [b"abc\\"],
                            [b"a" * 31 + b"\\", b"b" * 31], [b"a" * 31 + b"\\", b"b" * 32], [b"x" * 63], [b"\\" * 63, b"\\" * 63],
                            # chains: every adjacent pair fits into 63 bytes, the whole chain does not
                            [b"a" * 29 + b"\\", b"b" * 29 + b"\\", b"c" * 30],
                            [b"a" * 20 + b"\\", b"b" * 20 + b"\\", b"c" * 20 + b"\\", b"d" * 20],
                            [b"a" * 20 + b"\\", b"b" * 20 + b"\\", b"c" * 19],
                            [b"a" * 9 + b"\\"] * 6 + [b"z" * 9],
                            [b"a" * 30 + b"\\\\\\", b"b" * 29 + b"\\", b"c" * 30]]):
        hs.append(Case(reencode_history("reenc-ptr-%d" % k, al, "ptr"), "reencode"))
        hs.append(Case(reencode_history("reenc-srv-%d" % k, al, "srv"), "reencode"))
    # repaired defects stay under observation
    hs.append(Case(history("d8-64-byte-label", [{"calls": [{"op": "resolve_hostname", "host": "a" * 64 + ".local.", "ch": "x"},
                                                              {"op": "browse", "ty": "a" * 64 + TCP, "ch": "y"}]}]), "fixed-defect"))
    hs.append(Case(history("d9-huge-timeout", [{"calls": [{"op": "resolve_hostname", "host": "h.local.", "timeout": 2 ** 64 - 1, "ch": "x"},
                                                             {"op": "verify", "name": "inst." + GOOD_TY, "timeout": 2 ** 64 - 1}]}]), "fixed-defect"))
    hs.append(Case(history("d7-empty-service-label", [{"calls": [
        {"op": "register", "svc": {"ty": TCP, "name": "i", "host": GOOD_HOST, "ips": "192.168.1.10", "port": 1}},
        {"op": "register", "svc": {"ty": "é" + TCP, "name": "i", "host": GOOD_HOST, "ips": "192.168.1.10", "port": 1}}]}]), "fixed-defect"))
    # lower-casing may lengthen a non-ASCII label (U+0130): accepted at 63 bytes
    hs.append(Case(history("lowercase-grows", [{"calls": [
        {"op": "resolve_hostname", "host": "İ" * 31 + "a.local.", "ch": "x"},
        {"op": "browse", "ty": "_" + "İ" * 31 + TCP, "ch": "y"},
        {"op": "register", "svc": {"ty": "_x._tcp.local.", "name": "İ" * 31 + "a", "host": "İ" * 31 + "a.local.", "ips": "192.168.1.10", "port": 1}},
        {"op": "unregister", "name": "İ" * 31 + "a._x._tcp.local.", "ch": "z"}]}]), "lowercase"))
    # a browse listener that is never read is not part of this property (see C13/C20); many
    # answers for one browse in one datagram stay below the listener's capacity here
    return hs


def generate(rng, tier):
    quick = tier == "quick"
    cases = []
    strings = [(s, "boundary") for s in boundary_strings()] + [(s, "rename-forms") for s in rename_strings()] \
        + [(s, "sweep") for s in sweep_strings()] + [(s, "cut") for s in cut_strings()]
    for _ in range(300 if quick else 6000):
        strings.append((rand_string(rng), "random"))
    if not quick:
        strings.append(("a" * 20000 + ".local.", "long"))
        strings.append((("ab\\." * 5000) + "._x._tcp.local.", "long"))
    seen = set()
    for s, tag in strings:
        if s in seen:
            continue
        seen.add(s)
        cases += k2_cases(s, tag, rng)
    pool = [s for s, _ in strings if len(s.encode()) < 400]
    for _ in range(600 if quick else 8000):
        ty = rng.choice([rng.choice(pool), GOOD_TY, "_p._sub._x._tcp.local.", "a._sub.b._sub._x._udp.local."])
        nm = rng.choice([rng.choice(pool), "inst", "a.b\\c", "", "é"])
        host = rng.choice([rng.choice(pool), "h.local.", "h.local.local.", ".local.local.", "é.local.local."])
        cases.append(Case("v_new %s %s %s" % (hx(ty), hx(nm), hx(host)), "service-info-new"))
    cases += fixed_histories()
    cases += probe_conflict_cases(rng, 60 if quick else 1500)
    cases += lowercase_growth_cases(rng, 40 if quick else 1000)
    n_api = 120 if quick else 2500
    n_pkt = 220 if quick else 5000
    for i in range(n_api):
        calls = [rand_api_call(rng, k) for k in range(rng.choice([1, 2, 4, 8]))]
        cases.append(Case(history("api-%d" % i, [{"calls": calls}], settle_ms=rng.choice([2000, 4000])), "hostile-calls"))
    for i in range(n_pkt):
        steps = []
        for _ in range(rng.choice([1, 1, 2, 3])):
            steps.append({"dt": rng.choice([0, 100, 400, 1100]), "dgrams": [rand_dgram(rng) for _ in range(rng.choice([1, 2, 4, 8]))]})
        if rng.random() < 0.25:
            steps.insert(rng.randrange(len(steps) + 1), {"calls": [rand_api_call(rng, k) for k in range(2)]})
        cases.append(Case(history("pkt-%d" % i, steps, settle_ms=rng.choice([2000, 3000])), "hostile-packets"))
    return cases


# --------------------------------------------------------------------------- projection

def _calls_of(h):
    return [c for st in h["steps"] for c in st.get("calls", [])]


def project(line, raw):
    if not line.startswith("simh "):
        return raw
    r = json.loads(raw)
    if "error" in r:
        return "BADHISTORY " + r["error"]
    rs = []
    dead = False
    serves = [False, False]
    for t in r["trace"]:
        for c in t.get("calls", []):
            k = c.get("r")
            rs.append("Ok" if k == "Ok" else "PANIC" if k == "PANIC" else "Msg" if c.get("kind") == "Msg" else "Err." + str(c.get("kind")))
        if t.get("exited") or t.get("panicked") or t.get("stuck") or t.get("truncated"):
            dead = True
        ev = t.get("events", {})
        if any(e.get("e") == "Running" for e in ev.get("zs", [])):
            serves[0] = True
        if any(e.get("e") == "SearchStarted" for e in ev.get("zb", [])):
            serves[1] = True
    alive = (not dead) and all(serves)
    return "r=%s|alive=%d" % (",".join(rs) if rs else "-", 1 if alive else 0)


def _tok(c):
    op = c["op"]
    if op in ("browse", "browse_cache"):
        return "B" + hx(c["ty"])
    if op == "resolve_hostname":
        return "H" + hx(c["host"])
    if op == "register":
        s = c["svc"]
        return "R%s:%s:%s" % (hx(s["ty"]), hx(s["name"]), hx(s["host"]))
    if op == "set_service_name_len_max":
        return "L%d" % c["len"]
    return "O"


def model_input(line, raw):
    if not line.startswith("simh "):
        return line
    h = json.loads(line[5:])
    toks = [_tok(c) for c in _calls_of(h)]
    if not toks:
        return "c15h"
    # oracle: the lower-cased spellings computed by Rust's str::to_lowercase (harness, `simh`)
    try:
        low = json.loads(raw).get("lower", {})
    except ValueError:
        low = {}
    orc = ";".join("%s=%s" % (k, v) for k, v in sorted(low.items()) if k != v)
    return "c15h " + ",".join(toks) + (" lc:" + orc if orc else "")


def nontrivial(line, result):
    return result != "SKIP"


# --------------------------------------------------------------------------- known findings

def _resplit(name):
    """escape-aware label split of a dotted presentation (what write_name does)"""
    if name.endswith(b"."):
        name = name[:-1]
    labels, cur, i = [], b"", 0
    while i < len(name):
        c = name[i:i + 1]
        if c == b"\\":
            if i + 1 < len(name) and name[i + 1:i + 2] in (b".", b"\\"):
                cur += name[i + 1:i + 2]
                i += 2
                continue
            cur += c
        elif c == b".":
            if cur:
                labels.append(cur)
            cur = b""
        else:
            cur += c
        i += 1
    if cur:
        labels.append(cur)
    return labels


def _wire_names(h):
    for st in h["steps"]:
        for g in st.get("dgrams", []):
            try:
                p = dnsgen.parse_packet(bytes.fromhex(g["hex"]))
            except ValueError:
                p = None
            if not p:
                continue
            for sec in ("an", "ns", "ar"):
                for rr in p[sec]:
                    yield rr["name"]
                    if rr["target"]:
                        yield rr["target"]


def known_class(line, impl, mon):
    # no finding of C15 is open (C15-rename-overlong-label repaired by c85b8fe,
    # C15-reencode-merged-label by 35da75b; their witnesses are corpus cases that must pass)
    return None


def shrink(line, still_bad):
    if line.startswith("simh "):
        # the settle run and the final status + fresh browse stay (without them "still serves"
        # is trivially false); only the steps in front of them are shrunk
        h = json.loads(line[5:])
        tail = h["steps"][-2:]

        def full(j):
            hh = json.loads(j)
            hh["steps"] = hh["steps"] + tail
            return "simh " + json.dumps(hh, separators=(",", ":"), ensure_ascii=False)
        head = dict(h)
        head["steps"] = h["steps"][:-2]
        small = vlib.shrink_history(json.dumps(head, separators=(",", ":"), ensure_ascii=False), lambda j: still_bad(full(j)))
        return full(small)
    return vlib.shrink(ID, line, None, still_bad)


def search(rng, problems, disagreeing):
    return generate(rng, "thorough")[:30000]
