"""Shared machinery of the `life` group checks (C11, C10): case generators for the record-level
case kinds of harness/src/life.rs (`exp`, `life`, `rel`) and for simulated-daemon histories
(`lsim <history json>`), the projection of raw simulation traces to what the properties speak
about, and the model input derived from case + trace.

Simulated histories come in four families (key "fam" of the history, ignored by the harness):
  host : resolve_hostname + injected A/AAAA responses (cache-flush, two interfaces)
  ptr  : browse + injected PTR responses (several instances, flush bit, goodbyes, fresh copies)
  svc  : browse + one complete service (PTR, SRV, TXT, A), later fresh copies of parts of it
  renew: interface check off, one record (set) renewed once or twice, observed timer-exactly
  mix  : svc + a hostname resolver for the service's host (address Vec refreshed by both)
  resp : registered services + injected queries with known answers (C10 responder side)
"""
import ipaddress
import json
import os
import sys

sys.path.insert(0, os.path.dirname(os.path.dirname(os.path.abspath(__file__))))
import dnsgen as g  # noqa: E402
from vlib import Case  # noqa: E402

T0 = 1_000_000
U32 = 1 << 32
IF_TWO = [{"name": "eth0", "index": 2, "addr": "192.168.1.10", "mask": "255.255.255.0"},
          {"name": "eth0", "index": 2, "addr": "fe80::10", "mask": "ffff:ffff:ffff:ffff::"},
          {"name": "eth1", "index": 3, "addr": "10.0.0.10", "mask": "255.255.255.0"}]
IF_ONE = [{"name": "eth0", "index": 2, "addr": "192.168.1.10", "mask": "255.255.255.0"}]
TY = "_x._tcp.local."
HOST = "h1.local."
INTEREST = (12, 33, 16, 1, 28)


def hx(b):
    if isinstance(b, str):
        b = b.encode()
    return b.hex() if b else "-"


# --------------------------------------------------------------------------- records

def rd_tok(rd):
    k, v = rd
    if k == "A":
        return "A:" + hx(v)
    if k == "P":
        return "P:" + hx(v)
    if k == "S":
        return "S:%d,%d,%d,%s" % (v[0], v[1], v[2], hx(v[3]))
    if k == "T":
        return "T:" + hx(v)
    raise ValueError(k)


def rec(name, ty, ttl, rd, flush=False, cls=1):
    return {"name": name, "type": ty, "cls": cls, "flush": flush, "ttl": ttl, "rd": rd}


def rec_tok(r, ifx=None, created=0):
    """k1 record syntax: namehex/~/ty/class/flush/ttl/created/rdata[@if]"""
    s = "%s/~/%d/%d/%d/%d/%d/%s" % (hx(r["name"]), r["type"], r["cls"], 1 if r["flush"] else 0, r["ttl"], created,
                                     rd_tok(r["rd"]))
    return s if ifx is None else "%s@%d" % (s, ifx)


def add_rr(p, section, r):
    cls = r["cls"] | (0x8000 if r["flush"] else 0)
    k, v = r["rd"]
    if k == "A":
        f = g.rd_bytes(v)
    elif k == "P":
        f = g.rd_ptr(v)
    elif k == "S":
        f = g.rd_srv(v[0], v[1], v[2], v[3])
    else:
        f = g.rd_bytes(v)
    p.rr(section, r["name"], r["type"], cls, r["ttl"], f)


def response_hex(records):
    p = g.Packet()
    for r in records:
        add_rr(p, 1, r)
    return p.finish(flags=0x8400).hex()


def query_hex(questions, kas):
    p = g.Packet()
    for n, t in questions:
        p.question(n, t)
    for r in kas:
        add_rr(p, 1, r)
    return p.finish(flags=0).hex()


def parsed_rr_to_rec(rr):
    """dnsgen.parse_packet rr -> record dict (None for kinds the checks do not use)."""
    name = g.dotted(rr["name"]).decode("utf-8", "replace")
    ty = rr["type"]
    if ty in (1, 28):
        rd = ("A", rr["rdata"])
    elif ty == 12:
        if rr["target"] is None:
            return None
        rd = ("P", g.dotted(rr["target"]).decode("utf-8", "replace"))
    elif ty == 33:
        if rr["target"] is None or rr["srv"] is None:
            return None
        rd = ("S", (rr["srv"][0], rr["srv"][1], rr["srv"][2], g.dotted(rr["target"]).decode("utf-8", "replace")))
    elif ty == 16:
        rd = ("T", rr["rdata"])
    else:
        return None
    return {"name": name, "type": ty, "cls": rr["class"], "flush": rr["flush"], "ttl": rr["ttl"], "rd": rd}


def wire_tok(r):
    """record as observed on the wire: namehex/ty/class/flush/ttl/rdata"""
    return "%s/%d/%d/%d/%d/%s" % (hx(r["name"]), r["type"], r["cls"], 1 if r["flush"] else 0, r["ttl"], rd_tok(r["rd"]))


# --------------------------------------------------------------------------- histories

def dgram(ifx, hexs, src=None):
    if src is None:
        src = "192.168.1.50:5353" if ifx == 2 else "10.0.0.50:5353"
    return {"if": ifx, "v4": True, "src": src, "hex": hexs}


def case_of(h, tag):
    return Case("lsim " + json.dumps(h, separators=(",", ":")), tag)


def history(fam, hid, ifaces, steps, seed=3):
    return {"id": hid, "fam": fam, "t0": T0, "daemons": [{"seed": seed, "ifaces": ifaces}], "link": "none", "steps": steps}


def maybe_ipcheck_off(rng, calls, p=0.5):
    """With the default 5 s interface check the daemon wakes up every 5 s anyway, which hides a
    missing record timer; half of the histories switch the check off."""
    if rng.random() < p:
        calls.append({"op": "set_ip_check_interval", "secs": 0})
    return calls


class Plan:
    """Builds the step list of a history: explicit steps (possibly skipping timers) and
    timer-exact runs; keeps explicit step times strictly after the preceding run."""

    def __init__(self):
        self.steps = []
        self.now = T0
        self.after_run = False

    def at(self, t, calls=None, dgrams=None):
        t = max(t, self.now + (1 if self.after_run else 0))
        st = {"t": t, "d": 0}
        if calls:
            st["calls"] = calls
        if dgrams:
            st["dgrams"] = dgrams
        self.steps.append(st)
        self.now = t
        self.after_run = False
        return t

    def run_until(self, t, max_iters=4000):
        if t <= self.now:
            return
        self.steps.append({"run_until": t, "max_iters": max_iters})
        self.now = t
        self.after_run = True


TTLS_SMALL = [1, 1, 2, 2, 3, 4, 5, 7, 10, 10, 20, 0]


def gen_host(rng, hid):
    """resolve_hostname + address responses: cache-flush one-second rule, refresh once at 80 %,
    removal at expiry; shared (no flush bit) addresses appear as known answers."""
    pl = Plan()
    pl.at(T0, calls=maybe_ipcheck_off(rng, [{"op": "resolve_hostname", "host": HOST, "ch": "r"}]))
    ips2 = ["192.168.1.%d" % k for k in (50, 51, 52)]
    ips3 = ["10.0.0.%d" % k for k in (50, 51)] + ["192.168.1.50"]
    t = T0
    maxttl = 1
    for _ in range(rng.choice([1, 2, 3, 3, 4, 5])):
        t += rng.choice([100, 400, 900, 999, 1000, 1001, 1002, 1500, 2500, 4000, 8000])
        dgs = []
        for _ in range(rng.choice([1, 1, 1, 2])):
            ifx = rng.choice([2, 2, 3])
            recs = []
            for _ in range(rng.choice([1, 1, 2, 3])):
                ttl = rng.choice(TTLS_SMALL)
                maxttl = max(maxttl, ttl)
                if rng.random() < 0.12:
                    recs.append(rec(HOST, 28, ttl, ("A", bytes([0xfe, 0x80] + [0] * 13 + [rng.choice([1, 2])])),
                                    flush=rng.random() < 0.6))
                else:
                    ip = rng.choice(ips2 if ifx == 2 else ips3)
                    recs.append(rec(HOST, 1, ttl, ("A", ipaddress.ip_address(ip).packed), flush=rng.random() < 0.6))
            dgs.append(dgram(ifx, response_hex(recs)))
        if rng.random() < 0.5:
            pl.run_until(t - 1)
        t = pl.at(t, dgrams=dgs)
        # late observations that skip timers
        if rng.random() < 0.3:
            t += rng.choice([700, 1100, 3000, 9000])
            t = pl.at(t)
    pl.run_until(t + maxttl * 1000 + 2500)
    return history("host", hid, IF_TWO, pl.steps)


def inst_name(k):
    return "i%d.%s" % (k, TY)


def gen_ptr(rng, hid):
    """browse + PTR responses: the 80/85/90/95 % ladder, restart by a fresh copy, goodbye,
    PTR with the flush bit, removal at expiry, known answers in every PTR query."""
    pl = Plan()
    pl.at(T0, calls=maybe_ipcheck_off(rng, [{"op": "browse", "ty": TY, "ch": "b"}]))
    t = T0
    maxttl = 1
    ifaces = rng.choice([IF_TWO, IF_ONE])
    for _ in range(rng.choice([1, 2, 3, 4, 5])):
        t += rng.choice([37, 100, 450, 999, 1000, 1001, 1300, 2500, 4100, 8200, 16000])
        recs = []
        for _ in range(rng.choice([1, 1, 2, 3])):
            ttl = rng.choice([1, 2, 3, 5, 10, 10, 20, 40, 0])
            maxttl = max(maxttl, ttl)
            recs.append(rec(TY, 12, ttl, ("P", inst_name(rng.choice([1, 1, 2, 3]))), flush=rng.random() < 0.15))
        if rng.random() < 0.5:
            pl.run_until(t - 1)
        t = pl.at(t, dgrams=[dgram(2, response_hex(recs))])
        if rng.random() < 0.35:
            t += rng.choice([850, 1700, 3300, 7900, 9300, 17000])
            t = pl.at(t)
    pl.run_until(t + maxttl * 1000 + 2500)
    return history("ptr", hid, ifaces, pl.steps)


def svc_records(rng, p_ttl, deltas, port=80, ip="192.168.1.50"):
    inst = inst_name(1)
    return [rec(TY, 12, p_ttl, ("P", inst)),
            rec(inst, 33, p_ttl + deltas[0], ("S", (0, 0, port, HOST)), flush=True),
            rec(inst, 16, p_ttl + deltas[1], ("T", b"\x03a=b"), flush=True),
            rec(HOST, 1, p_ttl + deltas[2], ("A", ipaddress.ip_address(ip).packed), flush=True)]


def gen_svc(rng, hid):
    """browse + one complete service; fresh copies of some of its records restart their
    schedules. The PTR never outlives the other records (what happens to a half-expired
    service is the subject of C05/C03)."""
    pl = Plan()
    pl.at(T0, calls=maybe_ipcheck_off(rng, [{"op": "browse", "ty": TY, "ch": "b"}]))
    t = T0 + rng.choice([50, 137, 600, 1200])
    p_ttl = rng.choice([2, 3, 5, 10, 20, 30])
    deltas = [rng.choice([0, 0, 1, 5, 20]) for _ in range(3)]
    recs = svc_records(rng, p_ttl, deltas)
    shared = rng.random() < 0.2      # unusual responder: no flush bits (records listed as known answers)
    if shared:
        for r in recs:
            r["flush"] = False
    t = pl.at(t, dgrams=[dgram(2, response_hex(recs))])
    exp = {"p": t + 1000 * p_ttl, "s": t + 1000 * (p_ttl + deltas[0]), "t": t + 1000 * (p_ttl + deltas[1]),
           "a": t + 1000 * (p_ttl + deltas[2])}
    for _ in range(rng.choice([0, 0, 1, 2, 3])):
        dt = rng.choice([300, 900, p_ttl * 500, p_ttl * 790, p_ttl * 805, p_ttl * 860, p_ttl * 930, p_ttl * 960])
        t2 = t + dt
        if t2 >= exp["p"]:
            break
        which = rng.choice(["s", "t", "a", "st", "sta", "psta"])
        nttl = rng.choice([p_ttl, p_ttl + 3, 2 * p_ttl])
        fresh = svc_records(rng, nttl, [0, 0, 0])
        if shared:
            for r in fresh:
                r["flush"] = False
        send = []
        for key, r in zip("psta", fresh):
            if key in which:
                send.append(r)
        nexp = dict(exp)
        for key in which:
            nexp[key] = t2 + 1000 * nttl
        if nexp["p"] > min(nexp["s"], nexp["t"], nexp["a"]):
            continue
        if rng.random() < 0.5:
            pl.run_until(t2 - 1)
        t = pl.at(t2, dgrams=[dgram(2, response_hex(send))])
        exp = nexp
        if "p" in which:
            p_ttl = nttl
    if rng.random() < 0.3:
        # a late wake-up that skips marks
        t3 = t + rng.choice([p_ttl * 870, p_ttl * 930, p_ttl * 990])
        if t3 > pl.now:
            pl.at(t3)
    pl.run_until(max(exp.values()) + 2500)
    return history("svc", hid, rng.choice([IF_ONE, IF_TWO]), pl.steps)


def gen_renew(rng, hid):
    """interface check off; records are RENEWED (same record received again) and then left alone,
    observed timer-exactly: the 80/85/90/95 % queries and the expiry of the renewed record must
    come from the record's own timers"""
    kind = rng.choice(["ptr", "host", "svc"])
    pl = Plan()
    calls = [{"op": "set_ip_check_interval", "secs": 0}]
    if kind == "host":
        calls.append({"op": "resolve_hostname", "host": HOST, "ch": "r"})
    else:
        calls.append({"op": "browse", "ty": TY, "ch": "b"})
    pl.at(T0, calls=calls)
    ttl1 = rng.choice([3, 5, 10, 20])
    ttl2 = rng.choice([7, 13, 20, 33, 47])

    def records(ttl):
        if kind == "ptr":
            return [rec(TY, 12, ttl, ("P", inst_name(1)))]
        if kind == "host":
            return [rec(HOST, 1, ttl, ("A", ipaddress.ip_address("192.168.1.50").packed), flush=rng.random() < 0.7)]
        return svc_records(rng, ttl, [0, 0, 0])
    t = pl.at(T0 + rng.choice([37, 450, 1300]), dgrams=[dgram(2, response_hex(records(ttl1)))])
    n = rng.choice([1, 1, 2])
    for _ in range(n):
        dt = rng.choice([ttl1 * 300, ttl1 * 700, ttl1 * 820, ttl1 * 910, ttl1 * 960])
        if rng.random() < 0.7:
            pl.run_until(t + dt - 1)
        t = pl.at(t + dt, dgrams=[dgram(2, response_hex(records(ttl2)))])
        ttl1 = ttl2
    pl.run_until(t + ttl2 * 1000 + 2500)
    return history("renew", hid, rng.choice([IF_ONE, IF_TWO]), pl.steps)


def gen_mix(rng, hid):
    """a browsed service whose host name is also being resolved: the address Vec is refreshed
    by both mechanisms (ladder for the browse, once for the resolver)"""
    h = gen_svc(rng, hid)
    h["fam"] = "mix"
    h["steps"][0]["calls"].append({"op": "resolve_hostname", "host": HOST, "ch": "r"})
    return h


# ---- responder histories (C10)

def sub_name(k):
    return "_s%d._sub.%s" % (k, TY)


def resp_service(k, with_sub=False):
    return {"ty": sub_name(k) if with_sub else TY, "name": "inst%d" % k, "host": "h%d.local." % k,
            "ips": "192.168.1.%d" % (10 + k), "port": 80 + k, "props": [["61", "62"]], "probe": False}


def resp_records(k):
    """the records the daemon publishes for resp_service(k) (used only to build known answers)"""
    inst = "inst%d.%s" % (k, TY)
    host = "h%d.local." % k
    return {"p": rec(TY, 12, 4500, ("P", inst)),
            "s": rec(inst, 33, 120, ("S", (0, 0, 80 + k, host)), flush=True),
            "t": rec(inst, 16, 4500, ("T", b"\x03a=b"), flush=True),
            "a": rec(host, 1, 120, ("A", ipaddress.ip_address("192.168.1.%d" % (10 + k)).packed), flush=True)}


def ttl_around(rng, full):
    h = full // 2
    return rng.choice([0, 1, h - 1, h, h, h + 1, h + 1, full, full, U32 - 1, rng.randrange(1, full + 1)])


def mutate_ka(rng, r):
    r = dict(r)
    m = rng.choice(["none", "none", "none", "flush", "flush", "name", "class", "rdata", "case"])
    if m == "flush":
        r["flush"] = not r["flush"]
    elif m == "name":
        r["name"] = "other." + r["name"]
    elif m == "class":
        r["cls"] = 3
    elif m == "case":
        r["name"] = r["name"].upper()
    elif m == "rdata":
        k, v = r["rd"]
        if k == "A":
            r["rd"] = ("A", bytes([v[0], v[1], v[2], v[3] ^ 1]))
        elif k == "P":
            r["rd"] = ("P", "x" + v)
        elif k == "S":
            r["rd"] = ("S", (v[0], v[1], v[2] + 1, v[3]))
        else:
            r["rd"] = ("T", v + b"\x01z")
    return r


def gen_resp(rng, hid):
    nsvc = rng.choice([1, 1, 2])
    subs = {k: rng.random() < 0.6 for k in range(1, nsvc + 1)}
    pl = Plan()
    pl.at(T0, calls=[{"op": "register", "svc": resp_service(k, subs[k])} for k in range(1, nsvc + 1)])
    pl.run_until(T0 + 3000)
    t = pl.at(T0 + 4000, dgrams=[dgram(2, query_hex([(TY, 12)], []), "192.168.1.99:5353")])
    recs = {k: resp_records(k) for k in range(1, nsvc + 1)}
    for _ in range(rng.choice([4, 6, 8])):
        k = rng.randrange(1, nsvc + 1)
        form = rng.choice(["ptr", "ptr", "srv", "txt", "a", "srv+txt", "any", "ptr+srv", "srv+a", "ptr+txt", "ptr+txt",
                           "ptr+a", "sub", "sub+txt"])
        inst, host = recs[k]["s"]["name"], recs[k]["a"]["name"]
        qs = {"ptr": [(TY, 12)], "srv": [(inst, 33)], "txt": [(inst, 16)], "a": [(host, 1)],
              "srv+txt": [(inst, 33), (inst, 16)], "any": [(inst, 255)], "ptr+srv": [(TY, 12), (inst, 33)],
              "srv+a": [(inst, 33), (host, 1)], "ptr+txt": [(TY, 12), (inst, 16)], "ptr+a": [(TY, 12), (host, 1)],
              "sub": [(sub_name(k), 12)], "sub+txt": [(sub_name(k), 12), (inst, 16)]}[form]
        kas = []
        pool = []
        for kk in range(1, nsvc + 1):
            pool += [recs[kk]["p"]] * 3 + [recs[kk]["s"], recs[kk]["t"], recs[kk]["a"]]
        if "ptr" in form or "sub" in form:
            # the type PTR of every service listed above half, mostly unmutated
            for kk in range(1, nsvc + 1):
                if rng.random() < 0.7:
                    ka = dict(recs[kk]["p"]) if rng.random() < 0.8 else mutate_ka(rng, recs[kk]["p"])
                    ka["ttl"] = rng.choice([2251, 2251, 4500, 4500, 2250, U32 - 1])
                    kas.append(ka)
        else:
            pool += [recs[k]["s"], recs[k]["t"], recs[k]["a"]] * 2
        for _ in range(rng.choice([0, 1, 1, 2, 2, 3])):
            base = rng.choice(pool)
            ka = mutate_ka(rng, base)
            ka["ttl"] = ttl_around(rng, base["ttl"])
            kas.append(ka)
        t = pl.at(t + 100, dgrams=[dgram(2, query_hex(qs, kas), "192.168.1.99:5353")])
    return history("resp", hid, IF_ONE, pl.steps)


# --------------------------------------------------------------------------- walking a trace

def iterations(h, r):
    """Pairs every loop iteration of the trace with the history step that caused it:
    [(step or None for timer-exact runs, iteration record)]."""
    its = [x for x in r.get("trace", []) if "it" in x]
    out = []
    k = 0
    for st in h["steps"]:
        if "run_until" in st:
            while k < len(its) and its[k]["now"] <= st["run_until"]:
                # an explicit step follows strictly later, so everything up to T belongs here
                out.append((None, its[k]))
                k += 1
        else:
            if k < len(its):
                out.append((st, its[k]))
                k += 1
    while k < len(its):
        out.append((None, its[k]))
        k += 1
    return out


def pairs_of(h):
    ps = set()
    for i in h["daemons"][0]["ifaces"]:
        ps.add("%dv%s" % (i["index"], "6" if ":" in i["addr"] else "4"))
    return sorted(ps)


def chan_of(h, op):
    for st in h["steps"]:
        for c in st.get("calls", []) or []:
            if c["op"] == op:
                return c["ch"], (c.get("ty") or c.get("host"))
    return None, None


def dead(r):
    return any(x.get("stuck") or x.get("exited") for x in r.get("trace", []))


# --------------------------------------------------------------------------- cache families

def project_cache(h, r):
    bch, _ = chan_of(h, "browse")
    hch, _ = chan_of(h, "resolve_hostname")
    items = []
    for st, it in iterations(h, r):
        toks = []
        for p in it.get("sent", []):
            pk = g.parse_packet(bytes.fromhex(p["hex"])) if p["hex"] != "-" else None
            if pk is None:
                toks.append("X[unparsable]")
                continue
            if pk["flags"] & 0x8000:
                continue
            if not pk["q"] or any(q[1] not in INTEREST for q in pk["q"]):
                continue
            qs = "+".join("%s/%d" % (hx(g.dotted(q[0])), q[1]) for q in pk["q"])
            kas = []
            for a in pk["an"]:
                rr = parsed_rr_to_rec(a)
                kas.append(wire_tok(rr) if rr else "?")
            toks.append("Q[%s:%s@%sv%s]" % (qs, "&".join(kas), p["if"], "4" if p["v4"] else "6"))
        toks.sort()
        ev = it.get("events", {})
        rs = sorted(set(hx(e["name"]) for e in ev.get(bch, []) if e.get("e") == "ServiceRemoved")) if bch else []
        ra = []
        if hch:
            for e in ev.get(hch, []):
                if e.get("e") == "AddressesRemoved":
                    for a in e["addrs"]:
                        ip, ifx = a.split("@")
                        ra.append("%s@%s" % (ipaddress.ip_address(ip).packed.hex(), ifx))
        ra = sorted(set(ra))
        if rs:
            toks.append("RS[%s]" % ",".join(rs))
        if ra:
            toks.append("RA[%s]" % ",".join(ra))
        if toks:
            items.append("%d:%s" % (it["now"], ";".join(toks)))
    if dead(r):
        items.append("DEAD")
    return "SIM " + (" | ".join(items) if items else "-")


def due_times(recs, now):
    """times at which a record received at `now` can need a wake-up of its own: its four refresh
    marks, its expiry, and the one-second cache-flush expiry it may cause"""
    out = set()
    for r in recs:
        ttl = max(1, r["ttl"])
        for p in (800, 850, 900, 950, 1000):
            out.add(now + ttl * p)
        out.add(now + 1000)
    return out


def model_input_cache(h, r):
    """The steps handed to the model: every loop iteration the daemon made (time, number of
    browse / resolve (re)transmissions, received records) PLUS, inside timer-exact runs, one
    step at every time a cached record's own timer is due at which the daemon did NOT iterate.
    Such a step is a no-op for the model unless something is due then - in which case model and
    specification prescribe an observation the daemon did not make (a missing timer)."""
    bch, ty = chan_of(h, "browse")
    hch, host = chan_of(h, "resolve_hostname")
    steps = []       # (now, order, text)
    cand = set()
    seen = set()
    segs = []        # timer-exact segments (from, to]
    prev = h.get("t0", T0)
    k = 0
    pairs = iterations(h, r)
    for st, it in pairs:
        ev = it.get("events", {})
        nsb = sum(1 for e in ev.get(bch, []) if e.get("e") == "SearchStarted") if bch else 0
        nsh = sum(1 for e in ev.get(hch, []) if e.get("e") == "SearchStarted") if hch else 0
        recs = []
        parsed = []
        for d in (st or {}).get("dgrams", []) or []:
            pk = g.parse_packet(bytes.fromhex(d["hex"]))
            if pk is None or not (pk["flags"] & 0x8000):
                continue
            for sec in ("an", "ns", "ar"):
                for a in pk[sec]:
                    rr = parsed_rr_to_rec(a)
                    if rr:
                        recs.append(rec_tok(rr, d["if"]))
                        parsed.append(rr)
        cand |= due_times(parsed, it["now"])
        seen.add(it["now"])
        steps.append((it["now"], k, "%d!%d!%d!%s" % (it["now"], nsb, nsh, "+".join(recs) if recs else "-")))
        k += 1
    for st in h["steps"]:
        if "run_until" in st:
            segs.append((prev, st["run_until"]))
            prev = st["run_until"]
        elif isinstance(st.get("t"), int):
            prev = max(prev, st["t"])
    if not dead(r):
        for t in sorted(cand - seen):
            if any(a < t <= b for a, b in segs):
                steps.append((t, -1, "%d!0!0!-" % t))
    steps.sort(key=lambda x: (x[0], x[1] if x[1] >= 0 else -1))
    # a virtual step sorts before a real iteration at a later time only; equal times cannot occur
    return "simc %s %s %s %s" % (hx(ty) if ty else "-", hx(host) if host else "-", ",".join(pairs_of(h)),
                                 "|".join(x[2] for x in steps) if steps else "-")


# --------------------------------------------------------------------------- responder family

def resp_steps(h, r):
    """(baseline iteration, [(query step, iteration)])"""
    q = [(st, it) for st, it in iterations(h, r) if st is not None and st.get("dgrams")]
    return (q[0] if q else None), q[1:]


def responses_of(it):
    out = []
    for p in it.get("sent", []):
        pk = g.parse_packet(bytes.fromhex(p["hex"])) if p["hex"] != "-" else None
        if pk is not None and pk["flags"] & 0x8000:
            out.append(pk)
    return out


def fmt_response(pks):
    if not pks:
        return "SILENT"
    if len(pks) > 1:
        return "MULTI%d" % len(pks)
    pk = pks[0]

    def f(sec):
        toks = []
        for a in pk[sec]:
            rr = parsed_rr_to_rec(a)
            toks.append(wire_tok(rr) if rr else "?")
        return "&".join(sorted(toks))
    return "AN[%s];AR[%s]" % (f("an"), f("ar"))


def project_resp(h, r):
    base, qs = resp_steps(h, r)
    if dead(r):
        return "RSP DEAD"
    return "RSP " + (" # ".join(fmt_response(responses_of(it)) for _, it in qs) if qs else "-")


def model_input_resp(h, r):
    base, qs = resp_steps(h, r)
    if base is None:
        return "BADINPUT no baseline"
    pks = responses_of(base[1])
    if len(pks) != 1:
        return "BADINPUT baseline query was answered with %d packets" % len(pks)
    pk = pks[0]
    ans = [parsed_rr_to_rec(a) for a in pk["an"]]
    adds = [parsed_rr_to_rec(a) for a in pk["ar"]]
    svcs = []
    for p in ans:
        if p is None or p["type"] != 12:
            return "BADINPUT baseline answer"
        alias = p["rd"][1]
        srv = [a for a in adds if a and a["type"] == 33 and a["name"] == alias]
        txt = [a for a in adds if a and a["type"] == 16 and a["name"] == alias]
        if len(srv) != 1 or len(txt) != 1:
            return "BADINPUT baseline additionals"
        addrs = [a for a in adds if a and a["type"] in (1, 28) and a["name"] == srv[0]["rd"][1][3]]
        sub = [a for a in adds if a and a["type"] == 12 and a["rd"][1] == alias]
        if len(sub) > 1:
            return "BADINPUT baseline subtype additionals"
        svcs.append("+".join([rec_tok(p, 2), rec_tok(sub[0], 2) if sub else "~"] +
                             [rec_tok(x, 2) for x in [srv[0], txt[0]] + addrs]))
    queries = []
    for st, it in qs:
        pkq = g.parse_packet(bytes.fromhex(st["dgrams"][0]["hex"]))
        qtok = "+".join("%s,%d" % (hx(g.dotted(q[0])), q[1]) for q in pkq["q"])
        kas = [parsed_rr_to_rec(a) for a in pkq["an"]]
        ktok = "+".join(rec_tok(k, 2) for k in kas if k) or "-"
        queries.append("%s=%s" % (qtok, ktok))
    return "resp %s %s" % ("|".join(svcs) if svcs else "-", "#".join(queries))


# --------------------------------------------------------------------------- entry points

def project(line, raw):
    if not line.startswith("lsim "):
        return raw
    h = json.loads(line[5:])
    r = json.loads(raw)
    if "error" in r:
        return "SIMERROR %s" % r["error"]
    if h["fam"] == "resp":
        return project_resp(h, r)
    return project_cache(h, r)


def model_input(line, raw):
    if not line.startswith("lsim "):
        return line
    h = json.loads(line[5:])
    r = json.loads(raw)
    if "error" in r:
        return "BADINPUT sim error"
    if h["fam"] == "resp":
        return model_input_resp(h, r)
    return model_input_cache(h, r)


def shrink(line, still_bad):
    if line.startswith("lsim "):
        import vlib
        return "lsim " + vlib.shrink_history(line[5:], lambda l: still_bad("lsim " + l), max_tries=120)
    if line.startswith("life "):
        # drop operations one at a time while the case stays bad
        kind, r, ops = line.split(" ")
        ops = ops.split(";")
        changed = True
        while changed and len(ops) > 1:
            changed = False
            for i in range(len(ops) - 1, -1, -1):
                cand = ops[:i] + ops[i + 1:]
                if still_bad("%s %s %s" % (kind, r, ";".join(cand))):
                    ops = cand
                    changed = True
                    break
        return "%s %s %s" % (kind, r, ";".join(ops))
    return None


# --------------------------------------------------------------------------- record-level cases

NAME = "_x._tcp.local."
TTL_POOL = [0, 1, 2, 3, 4, 5, 7, 8, 9, 10, 59, 60, 61, 119, 120, 121, 4499, 4500, 4501, 65535, 1 << 31,
            U32 - 2, U32 - 1]


def pick_ttl(rng):
    r = rng.random()
    if r < 0.45:
        return rng.choice(TTL_POOL)
    if r < 0.85:
        return rng.randrange(1, 301)
    return rng.randrange(U32)


def pick_created(rng):
    r = rng.random()
    if r < 0.7:
        return rng.choice([1_000_000, 1_700_000_000_000, rng.randrange(1, 10 ** 13)])
    if r < 0.85:
        return rng.choice([0, 1, 999, 1000])
    if r < 0.95:
        return rng.choice([(1 << 63) - 1, (1 << 63) - 1000, 1 << 62])
    return rng.choice([1 << 63, (1 << 64) - 1, (1 << 64) - 1000 * 120, (1 << 64) - 5000])


def some_record(rng, ttl, created, kind=None):
    kind = kind or rng.choice("PASTHN")
    if kind == "P":
        return "%s/~/12/1/0/%d/%d/P:%s" % (hx(NAME), ttl, created, hx("i1." + NAME))
    if kind == "A":
        return "%s/~/1/1/1/%d/%d/A:c0a80132@2" % (hx(HOST), ttl, created)
    if kind == "S":
        return "%s/~/33/1/1/%d/%d/S:0,0,80,%s" % (hx("i1." + NAME), ttl, created, hx(HOST))
    if kind == "T":
        return "%s/~/16/1/1/%d/%d/T:03613d62" % (hx("i1." + NAME), ttl, created)
    if kind == "H":
        return "%s/~/13/1/0/%d/%d/H:%s,%s" % (hx(HOST), ttl, created, hx("cpu"), hx("os"))
    return "%s/~/47/1/1/%d/%d/N:%s,40" % (hx(HOST), ttl, created, hx(HOST))


def times_around(rng, created, ttl):
    base = [created + ttl * p * 10 for p in (50, 80, 85, 90, 95, 100)]
    t = rng.choice(base) + rng.choice([-1001, -1000, -999, -1, 0, 0, 1, 1, 999, 1000])
    if rng.random() < 0.1:
        t = created + rng.randrange(0, ttl * 1200 + 2)
    return max(0, min(t, (1 << 64) - 1))


def gen_life_case(rng, daemon_ops_only):
    ttl = pick_ttl(rng)
    created = pick_created(rng)
    if daemon_ops_only:
        ttl = max(1, ttl)
        created = min(created, (1 << 63) - 1)
    n = rng.choice([1, 2, 4, 6, 9, 12])
    times = sorted(times_around(rng, created, ttl) for _ in range(n))
    if rng.random() < 0.15:
        rng.shuffle(times)
    ops = []
    cur_c, cur_t = created, ttl
    for t in times:
        if daemon_ops_only:
            t = min(t, (1 << 63) - 1)
        r = rng.random()
        if r < 0.40:
            ops.append("%s,%d,0" % (rng.choice(["refresh_maybe", "refresh_maybe", "updated_refresh_time"]), t))
        elif r < 0.55:
            ops.append("is_expired,%d,0" % t)
        elif r < 0.62:
            ops.append("expires_soon,%d,0" % t)
        elif r < 0.68:
            ops.append("refresh_due,%d,0" % t)
        elif r < 0.74:
            ops.append("halflife_passed,%d,0" % t)
        elif r < 0.80:
            ops.append("snapshot,0,0")
        elif r < 0.86:
            nt = rng.choice([1, 1, 2, cur_t, cur_t, pick_ttl(rng)])
            if daemon_ops_only:
                nt = max(1, nt)
            ops.append("reset_ttl,%d,%d" % (nt, t))
            cur_c, cur_t = t, nt
        elif r < 0.90:
            ops.append("set_expire_sooner,%d,0" % min((1 << 64) - 1, t + rng.choice([0, 1000, 1000, 5000])))
        elif r < 0.93:
            ops.append("refresh_no_more,0,0")
        elif daemon_ops_only:
            ops.append("is_expired,%d,0" % t)
        elif r < 0.96:
            ops.append("remaining_ttl,%d,0" % t)
        elif r < 0.98:
            ops.append("update_ttl,%d,0" % t)
        else:
            ops.append("set_expire,%d,0" % min((1 << 64) - 1, t + rng.choice([0, 1000, 100000])))
        if rng.random() < 0.2:
            ops.append("snapshot,0,0")
    return "life %s %s" % (some_record(rng, ttl, created), ";".join(ops))


def mark_walk_case(rng, ttl, created):
    """the record's whole life observed at the marks +-1 ms with optional skipping"""
    ts = []
    for p in (80, 85, 90, 95, 100):
        m = created + ttl * p * 10
        for d in (-1, 0, 1):
            if rng.random() < 0.75:
                ts.append(m + d)
    ops = []
    for t in ts:
        ops.append("refresh_maybe,%d,0" % max(0, t))
        if rng.random() < 0.3:
            ops.append("is_expired,%d,0" % max(0, t))
    ops.append("snapshot,0,0")
    return "life %s %s" % (some_record(rng, ttl, created), ";".join(ops))


def gen_exp_case(rng):
    return "exp %d %d %d" % (pick_created(rng), pick_ttl(rng), rng.choice([0, 50, 80, 85, 90, 95, 100, 100, 101, 1000, U32 - 1]))


REL_KINDS = "PASTHN"


def rel_record(rng, kind, ttl, v):
    """v: dict of variations"""
    name = v.get("name", NAME if kind == "P" else HOST)
    cls = v.get("cls", 1)
    fl = v.get("flush", 0)
    ty = v.get("ty", {"P": 12, "A": 1, "S": 33, "T": 16, "H": 13, "N": 47}[kind])
    alt = v.get("alt", False)
    if kind == "P":
        rd = "P:" + hx("i2." + NAME if alt else "i1." + NAME)
    elif kind == "A":
        rd = "A:c0a80133" if alt else "A:c0a80132"
    elif kind == "S":
        rd = "S:0,0,%d,%s" % (81 if alt else 80, hx(HOST))
    elif kind == "T":
        rd = "T:03613d63" if alt else "T:03613d62"
    elif kind == "H":
        rd = "H:%s,%s" % (hx("cpu2" if alt else "cpu"), hx("os"))
    else:
        rd = "N:%s,%s" % (hx(HOST), "41" if alt else "40")
    return "%s/%s/%d/%d/%d/%d/%d/%s@%d" % (hx(name), v.get("newname", "~"), ty, cls, fl, ttl, v.get("created", 1_000_000), rd,
                                          v.get("ifx", 2))


def gen_rel_case(rng):
    kind = rng.choice(REL_KINDS)
    ta = pick_ttl(rng)
    h = ta // 2
    tb = rng.choice([0, 1, max(0, h - 1), h, h, h + 1, h + 1, (ta + 1) // 2, ta, U32 - 1, pick_ttl(rng)])
    tb = min(tb, U32 - 1)
    va, vb = {}, {}
    m = rng.choice(["same", "same", "same", "same", "flush", "flush", "name", "case", "cls", "alt", "ifx", "kind", "ty",
                    "newname", "created"])
    if rng.random() < 0.5:
        va["flush"] = vb["flush"] = 1
    kb = kind
    if m == "flush":
        vb["flush"] = 1 - va.get("flush", 0)
    elif m == "name":
        vb["name"] = "other." + (NAME if kind == "P" else HOST)
    elif m == "case":
        vb["name"] = (NAME if kind == "P" else HOST).upper()
    elif m == "cls":
        vb["cls"] = rng.choice([3, 0x8001, 255])
    elif m == "alt":
        vb["alt"] = True
    elif m == "ifx":
        vb["ifx"] = 3
    elif m == "kind":
        kb = rng.choice(REL_KINDS)
    elif m == "ty":
        vb["ty"] = rng.choice([1, 5, 12, 13, 28, 255])
    elif m == "newname":
        vb["newname"] = hx("renamed.local.")
    elif m == "created":
        vb["created"] = 5_000_000
    return "rel %s %s" % (rel_record(rng, kind, ta, va), rel_record(rng, kb, tb, vb))
