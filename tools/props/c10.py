"""C10  Known answers suppress exactly what they should, on both sides."""
import lifelib as L
from vlib import Case

ID = "C10"
CLAIMED = True
MODEL_GROUP = "life"
THEOREM_FILE = "Props/C10.v"
HARNESS_ENV = {"VERIF_WATCHDOG_MS": "30000"}
PER_SHARD = 40
LEVEL_TEXT = ("Coq theorems over a Gallina model of DnsRecordExt::matches / suppressed_by_answer, DnsOutgoing::add_answer / "
              "add_answer_with_additionals, add_answer_of_service, DnsCache::get_known_answers and DnsRecord::update_ttl: "
              "suppression iff same record (owner, type, class, RDATA; cache-flush bit ignored) and 2*listed TTL > own TTL "
              "(integer division characterised exactly), the whole response to any query = every unsuppressed answer with "
              "its additionals and nothing of a suppressed one (subtype PTR, SRV, TXT, addresses), over ALL histories of the "
              "daemon-level cache model every query lists exactly the prescribed known answers, the known-answer list of a "
              "query is exactly the shared records within their first half of life with TTL = remaining whole seconds "
              "(no u32 underflow). Tied to the Rust by regenerated parameters, by comparison with real record objects (K3) "
              "and with the real daemon in the simulated world on both sides (K6), with the statements run as monitors")
TECHNIQUE = "machine-checked proof in Coq (iff-characterisations, induction over the cache Vec / candidate answers) + regenerated parameters + model/implementation correspondence"
LEVELS = ("K3 (real record objects through the facade: rel = matches, rrdata_match, suppressed_by_answer) + "
          "K6 (real ServiceDaemon in the simulated world: responder answering injected queries with known answers; "
          "querier's own browse / resolve / refresh queries)")
RULE = ("record pairs of all six record kinds differing in exactly one aspect (name, case, class, flush bit, RDATA, interface, "
        "kind, type, new name, creation time) or in none, TTL pairs at 0, 1, half-1, half, half+1, ceil(half), full, 2^32-1; "
        "responder histories: 1-2 registered services with and without a subtype, queries (type PTR, subtype PTR, SRV, TXT, A, ANY "
        "and two-question forms such as PTR+TXT where a suppressed PTR leaves another answer) carrying subsets "
        "of the responder's records as known answers, mutated and with TTLs on both sides of half; querier histories: the "
        "answer section of every PTR/SRV/TXT/A/AAAA query the daemon sends while records of all ages 0-100 % are cached; a case "
        "is non-trivial when not SKIP and with at least one observation; distinct = distinct case lines")
TRUSTED = [
    "Coq 8.16.1 kernel (coqc); vm_compute only in the non-vacuity Examples and refutation witnesses",
    "axioms: none (Print Assumptions: Closed under the global context for every theorem)",
    "extraction (ExtrOcamlBasic only, no Extract Constant) + ocaml/life/driver.ml for correspondence and monitors",
    "tools/extract_params.py + tools/params/life.py (suppress_ttl_cond, halflife, update_ttl, ka_shared_filter ... regenerated from the Rust source)",
    "hooks: src/verif_hooks.rs facade (rel; field copying only), virtual clock, simulated daemon world; harness/src/life.rs, harness/src/sim.rs",
    "modelled, not verified: the responder's record content is read off its answer to the same type enumeration query "
    "without known answers (content is C06); one interface, IPv4 querier on port 5353, announced services, no renaming; "
    "names compared byte for byte as the code does (case folding of names is outside this check)",
    "tools/props/lifelib.py projection of simulation traces and tools/dnsgen.py packet builder/parser",
]
PARTIAL = ("the responder theorem is about the answer-assembly functions given the candidate answers of handle_query "
           "(candidate selection is modelled and checked by correspondence, its correctness is C06's subject); the querier "
           "theorem C10_history_known_answers is over all histories of the daemon-level cache model (one browsed type, one "
           "resolved host; every query of every reachable iteration lists exactly ka_of_spec of the cache after that "
           "iteration's records) - the daemon around that layer is tied by the K6 correspondence and the monitor; the "
           "rule it proves is the code's (half life counted from created/ttl), which differs from the property text for "
           "records whose expiry was shortened (known finding C10-ka-shortened-record, C10_known_answers_shortened_refuted); "
           "legacy unicast queriers and multi-packet known-answer lists (TC bit) are not driven; 'the query goes out on "
           "every interface' is checked by the monitor on every observed query (each interface/family pair)")


def generate(rng, tier):
    quick = tier == "quick"
    cases = []
    n = 10000 if quick else 100000
    for _ in range(n):
        cases.append(Case(L.gen_rel_case(rng), "rel"))
    ns = 250 if quick else 2000
    for k in range(ns):
        cases.append(L.case_of(L.gen_resp(rng, "resp%d" % k), "sim-resp"))
        cases.append(L.case_of(L.gen_resp(rng, "respb%d" % k), "sim-resp"))
        cases.append(L.case_of(L.gen_host(rng, "host%d" % k), "sim-host"))
        cases.append(L.case_of(L.gen_ptr(rng, "ptr%d" % k), "sim-ptr"))
        cases.append(L.case_of(L.gen_svc(rng, "svc%d" % k), "sim-svc"))
        cases.append(L.case_of(L.gen_mix(rng, "mix%d" % k), "sim-mix"))
        cases.append(L.case_of(L.gen_renew(rng, "renew%d" % k), "sim-renew"))
    return cases


project = L.project
model_input = L.model_input


def shrink(line, still_bad):
    s = L.shrink(line, still_bad)
    if s is not None:
        return s
    import vlib
    return vlib.shrink(ID, line, None, still_bad)


def nontrivial(line, result):
    if result == "SKIP":
        return False
    if line.startswith("lsim "):
        return result not in ("SIM -", "RSP -") and "DEAD" not in result
    return True


def known_class(line, impl_result, monitor_result):
    """Maps a monitor rejection to the listed finding that stays; exactly the class the monitor
    itself decides with the extracted spec_run_created_ka (the observation equals the
    specification run with the code's created-based half-life rule), nothing broader."""
    if line.startswith("lsim ") and monitor_result.startswith("FAIL[ka-shortened-record] "):
        return "C10-ka-shortened-record"
    return None


def search(rng, problems, disagreeing):
    return generate(rng, "thorough")[:30000]
