"""C08  Name conflicts resolve to one winner and a consistent new name for the loser."""
import json

import reglib
import vlib
from vlib import Case

ID = "C08"
CLAIMED = True
MODEL_GROUP = "registry"
THEOREM_FILE = "Props/C08.v"
HARNESS_ENV = {"VERIF_WATCHDOG_MS": "60000"}
PER_SHARD = 8
LEVEL_TEXT = ("Coq theorems over Gallina models of DnsRecordExt::compare / compare_rdata (all record kinds), "
              "Probe::tiebreaking and name_change / hostname_change: the comparison is a total order on well-typed records "
              "(antisymmetric, transitive, Equal exactly on equal class/type/rdata), so both sides of a simultaneous probe "
              "reach opposite verdicts (a proper prefix loses by the length rule); the loser and only the loser restarts at "
              "now + 1000, only after its probe started; renaming is characterised on all byte strings ('x' -> 'x (2)', "
              "'x (n)' -> 'x (n+1)', 'h' -> 'h-2' -> 'h-3', the u32::MAX case), splits at the first unescaped dot and, for "
              "EVERY input, leaves a first label of at most 63 bytes in front of it (C08_still_encodable); announcements, goodbyes and direct "
              "answers carry the current names. The functions are tied to the Rust by differential runs through the facade, "
              "the daemon-level behaviour (rename, NameChange, re-probe, packets afterwards, the one-second deferral after a "
              "lost tie-break, two and three daemons on a loss-free link) by the simulated daemon, with chk_C08 as monitor")
TECHNIQUE = ("machine-checked proof in Coq (order laws, lexicographic tie-break, rename specification) + "
             "model/implementation correspondence at component level and on simulated-daemon histories")
LEVELS = ("K2 (name_change / hostname_change through the facade), K3 (DnsRecordExt::compare on real record objects, pairs and "
          "triples), K6 (simulated daemon: conflicts injected at every probe step, competing probes, 2-3 daemons on a "
          "loss-free link)")
RULE = ("rename: thousands of names with '(N)' / '-N' suffixes around 9/10, 99/100, 4294967295, '+N', leading zeros, labels "
        "of 57-63 bytes, escaped dots, non-ASCII; compare: all ordered pairs and random triples from a pool of small records "
        "of every kind (ill-typed ones included and marked outside the quantifier); histories: one registration with a "
        "conflicting response / competing probe at a chosen phase, then queries of every type, unregister; two or three "
        "daemons registering one instance at offsets 0..3 s; two daemons claiming one host name with record lists of which "
        "one is a proper prefix of the other ({A} against {A, AAAA}) at offsets 0..700 ms, competing probes whose authority "
        "list extends / is a prefix of / equals the daemon's own; two or three services sharing a host name that a conflicting "
        "address record renames while they probe, then unregister of one, questions under the old and the new host name, "
        "an update and the unregistration of the rest (160). Non-trivial = not SKIP and (for histories) at least one packet")
TRUSTED = [
    "Coq 8.16.1 kernel (coqc); vm_compute only in Examples and witness lemmas",
    "axioms: none (Print Assumptions: Closed under the global context for every theorem)",
    "extraction (ExtrOcamlBasic only) + ocaml/registry/driver.ml",
    "tools/extract_params.py + tools/params/registry.py (now + 1000, start_time >= now, checked_add(1) on a u32)",
    "hooks: src/verif_hooks.rs facade (name_change, hostname_change, rel = compare on real records) and the simulated "
    "world; harness/src/registry.rs, harness/src/sim.rs; tools/dnsgen.py",
    "tools/props/reglib.py (projection, model input, choice of interface order / jitter assignment)",
    "modelled, not verified: Rust String / str ordering as byte-wise order of the UTF-8 bytes; IpAddr ordering as "
    "(V4 before V6, then octets); u32 parsing of the suffix (optional '+', digits, overflow); hash-container orders "
    "(sorted before comparison); what the hooks replace",
]
PARTIAL = ("'Two daemons ... always end with exactly one holding the original name and both announced' is validated by "
           "simulation (real daemon threads against each other over a grid of offsets and seeds, monitor c08_final), not "
           "proved: the theorems are about the decision rules. Probe::tiebreaking has no facade entry; it is exercised "
           "through the simulated daemon (competing probe queries) and judged by chk_C08 against the specification's "
           "tb_cmp: after a lost comparison no probe query for the name within a second. That clause is proved over histories "
           "of the daemon model in this form (C08_deferral_respected_partial): after ANY history, once the probe for a name "
           "on an interface is deferred to D (what a lost tie-break leaves, C08_lost_tiebreak_leaves_probe_deferred), no "
           "probe query for it goes out there in iterations before D that bring only queries (competing probes included) "
           "and register / monitor / shutdown calls; partial because that second excludes every response datagram (not "
           "only the host-name conflict of the known class), interface toggles and unregister. That chk_C08 accepts every run of "
           "the daemon model is validated (monitor on the model's own output), not proved. 'Still encodable' is proved for "
           "every input (C08_still_encodable: rest kept, first label of the result at most 63 bytes); that a rename yields "
           "a name different from the original is checked by the executable rename_ok on every generated name, not "
           "proved. Findings (known/C08.json): conflicts are never detected for instance names with an escaped "
           "dot; a host rename within a second after a lost tie-break restarts the instance name's probe early")

KNOWN = {30: "C08-host-rename-cancels-tiebreak-deferral"}


def hx(b):
    return b.hex() if b else "-"


def is_sim(line):
    return line.startswith("sim ")


def project(case_line, raw):
    if is_sim(case_line):
        return reglib.project(case_line, raw)
    return raw


def model_input(case_line, raw):
    if is_sim(case_line):
        return reglib.model_input(ID, case_line, raw)
    return case_line


# ---- rename cases ---------------------------------------------------------------------------

def rename_names(rng, n):
    firsts = []
    bases = ["x", "inst", "My Printer", "a b", "café", "日本", "h", "host", "my-host", "a-b-c", "x (", "x ()", "x (a)",
             "(2)", " (2)", "x(2)", "x (2) ", "x (2)y", "x (2) (3)", "-", "--", "-2", "h-", "h--2", "h-2-", "h-x",
             "h-2x", "", " ", "x )", "x (-1)", "x (+)", "x (+1)", "x (++1)", "x (1+)", "h-+3", "h-+", "x (١)"]
    nums = [0, 1, 2, 8, 9, 10, 11, 98, 99, 100, 101, 999, 1000, 65535, 65536, 2147483647, 2147483648, 4294967294,
            4294967295, 4294967296, 99999999999999999999]
    for b in bases:
        firsts.append(b)
    for b in ["x", "inst", "My Printer", "h", "my-host", "a-b", "é"]:
        for k in nums:
            firsts += ["%s (%d)" % (b, k), "%s-%d" % (b, k), "%s (0%d)" % (b, k), "%s-0%d" % (b, k),
                       "%s (+%d)" % (b, k), "%s-+%d" % (b, k)]
    for ln in range(55, 66):
        for suf in ["", " (9)", " (99)", "-9", "-99", " (2)"]:
            body = "n" * max(0, ln - len(suf))
            firsts.append(body + suf)
        firsts.append("é" * (ln // 2) + "x" * (ln % 2))
    # escaped dots and backslashes inside the first label
    firsts += ["My\\.Svc", "a\\.b (2)", "a\\\\", "a\\\\.b", "a\\.b\\.c", "x (2)\\.y", "h\\.i-2"]
    rests = ["._t._tcp.local.", ".local.", "", ".", "._sub._t._tcp.local.", ".a.b.c.", "..", ".x (2).local."]
    out = []
    for f in firsts:
        out.append(f + rng.choice(rests))
        out.append(f + "._t._tcp.local.")
    while len(out) < n:
        f = rng.choice(firsts)
        if rng.random() < 0.3:
            f = "".join(rng.choice("ab -()+0129.\\é") for _ in range(rng.randrange(0, 9)))
        out.append(f + rng.choice(rests))
    return out


# ---- compare cases -----------------------------------------------------------------------------

def rec(name, ty, cls, rd, flush=1, ttl=120):
    return "%s/~/%d/%d/%d/%d/0/%s" % (hx(name.encode()), ty, cls, flush, ttl, rd)


def record_pool():
    pool = []
    n = "a.local."
    for ip in ["00000000", "01020304", "01020305", "7f000001", "c0a8010a", "ffffffff"]:
        pool.append(rec(n, 1, 1, "A:" + ip))
    for ip in ["0" * 32, "fe80" + "0" * 27 + "1", "fe80" + "0" * 27 + "2", "f" * 32]:
        pool.append(rec(n, 28, 1, "A:" + ip))
    for al in ["", "a", "a.local.", "a.local.x", "b", "A", "é"]:
        pool.append(rec(n, 12, 1, "P:" + hx(al.encode()), flush=0))
    pool.append(rec(n, 5, 1, "P:" + hx(b"a")))
    for (p, w, o, h) in [(0, 0, 0, ""), (0, 0, 80, "h.local."), (0, 0, 81, "h.local."), (0, 0, 255, "h.local."),
                         (0, 0, 256, "h.local."), (0, 1, 0, "h.local."), (1, 0, 0, "h.local."), (0, 0, 80, "h.local.x"),
                         (0, 0, 80, "g.local."), (255, 255, 65535, "h.local."), (256, 0, 0, "a"), (0, 256, 0, "a"),
                         (0, 0, 80, "H.local.")]:
        pool.append(rec(n, 33, 1, "S:%d,%d,%d,%s" % (p, w, o, hx(h.encode()))))
    for t in ["00", "0161", "0162", "016100", "03613d62", "ff", ""]:
        pool.append(rec(n, 16, 1, "T:" + (t or "-")))
    for (c, o) in [("", ""), ("a", ""), ("", "a"), ("a", "b"), ("ab", ""), ("a", "c")]:
        pool.append(rec(n, 13, 1, "H:%s,%s" % (hx(c.encode()), hx(o.encode()))))
    for (nx, bm) in [("a.local.", "00"), ("a.local.", "0040"), ("b.local.", "00"), ("a", "")]:
        pool.append(rec(n, 47, 1, "N:%s,%s" % (hx(nx.encode()), bm or "-")))
    # other classes, other owner names (the owner is not compared), ill-typed records
    pool.append(rec(n, 1, 3, "A:01020304"))
    pool.append(rec(n, 33, 0, "S:0,0,80,%s" % hx(b"h.local.")))
    pool.append(rec("other.local.", 33, 1, "S:0,0,80,%s" % hx(b"h.local.")))
    pool.append(rec(n, 1, 1, "A:" + "0" * 32))              # type A holding an IPv6 address
    pool.append(rec(n, 28, 1, "A:01020304"))               # type AAAA holding an IPv4 address
    pool.append(rec(n, 12, 1, "A:01020304"))               # PTR type on an address record (ill-typed)
    pool.append(rec(n, 1, 1, "P:" + hx(b"a")))             # A type on a pointer record (ill-typed)
    pool.append(rec(n, 16, 1, "H:%s,%s" % (hx(b"a"), hx(b"b"))))   # TXT type on a HINFO record (ill-typed)
    return pool


def generate(rng, tier):
    k = 1 if tier == "quick" else 10
    cases = []
    for nm in rename_names(rng, 2500 * k):
        b = nm.encode()
        cases.append(Case("nc " + hx(b), "rename"))
        cases.append(Case("hc " + hx(b), "rename"))
    pool = record_pool()
    for a in pool:
        for b in pool:
            cases.append(Case("cmp %s %s" % (a, b), "compare"))
    for _ in range(3000 * k):
        a, b, c = rng.choice(pool), rng.choice(pool), rng.choice(pool)
        cases.append(Case("cmp3 %s %s %s" % (a, b, c), "compare3"))

    def add(gen, n, tag, **kw):
        for i in range(n):
            h = gen(rng, "%s%d" % (tag, i), **kw)
            h.pop("meta", None)
            cases.append(Case("sim " + reglib.jdump(h), tag))
    add(reglib.gen_conflict_history, 420 * k, "conflict")
    add(reglib.gen_long_label_history, 60 * k, "long-label")
    add(reglib.gen_two_daemon_history, 100 * k, "daemons")
    add(reglib.gen_prefix_tiebreak_history, 160 * k, "prefix")
    add(reglib.gen_shared_host_history, 160 * k, "sharedhost")
    add(reglib.gen_iface_toggle_history, 40 * k, "toggle")
    # every offset of the prefix pair around the probe steps
    for o in (0, 1, 100, 249, 250, 251, 400, 500, 700):
        for sd in ((3, 14), (14, 3), (22, 36)):
            for _ in range(4):
                h = reglib.gen_prefix_tiebreak_history(rng, "pgrid-%d" % o, offset=o)
                if len(h["daemons"]) == 2:
                    h["daemons"][0]["seed"], h["daemons"][1]["seed"] = sd
                    h.pop("meta", None)
                    cases.append(Case("sim " + reglib.jdump(h), "prefix-grid"))
                    break
    # dense part of the two-daemon grid: offsets around the probe steps x a few seed pairs
    offs = [0, 1, 124, 125, 249, 250, 251, 499, 500, 501, 749, 750, 751, 999, 1000, 1001, 1749, 1750, 1751, 2500]
    pairs = [(52, 58), (58, 52), (22, 36), (36, 22), (3, 3), (14, 47)]
    for o in offs:
        for (s0, s1) in pairs[: (6 if tier != "quick" else 3)]:
            for same in (False, True):
                h = reglib.gen_two_daemon_history(rng, "grid-%d-%d-%d" % (o, s0, s1), offset=o, seeds=[s0, s1], same_host=same)
                h.pop("meta", None)
                cases.append(Case("sim " + reglib.jdump(h), "daemons-grid"))
    # instance names with an escaped dot: conflicts are not seen at all
    for o in (0, 300, 1000):
        h = reglib.gen_two_daemon_history(rng, "dot-%d" % o, offset=o, seeds=[5, 9], same_host=False)
        h.pop("meta", None)
        for st in h["steps"]:
            for c in st.get("calls", []):
                if c["op"] == "register":
                    c["svc"]["name"] = "a.b"
        cases.append(Case("sim " + reglib.jdump(h), "daemons-dot"))
    return cases


def nontrivial(line, result):
    if is_sim(line):
        return reglib.has_sends(result)
    return result != "SKIP"


def registered_names(line):
    h = reglib.history_of(line)
    out = []
    for st in h.get("steps", []):
        for c in st.get("calls") or []:
            if c.get("op") == "register":
                out.append(c["svc"]["name"])
    return out


def known_class(line, impl_result, monitor_result):
    fails, knowns = reglib.parse_mon(monitor_result)
    if is_sim(line) and fails and set(fails) <= {25, 26, 27}:
        names = registered_names(line)
        h = reglib.history_of(line)
        if len(h.get("daemons", [])) >= 2 and names:
            if all("." in n for n in names) and all(k in KNOWN for k in knowns):
                return "C08-escaped-dot-conflict-undetected"
        return None
    return reglib.known_by_codes(monitor_result, KNOWN)


def shrink(line, still_bad):
    if is_sim(line):
        return "sim " + vlib.shrink_history(line[4:], lambda l: still_bad("sim " + l))
    return vlib.shrink(ID, line, None, still_bad)


def search(rng, problems, disagreeing):
    return generate(rng, "thorough")[:30000]
