"""C09  Unregistering says goodbye for exactly what was announced, then goes quiet."""
import reglib
import vlib
from vlib import Case

ID = "C09"
CLAIMED = True
MODEL_GROUP = "registry"
THEOREM_FILE = "Props/C09.v"
HARNESS_ARGS = ["sim"]
PER_SHARD = 8
LEVEL_TEXT = ("Coq theorems over a Gallina model of exec_command_unregister / unregister_service / "
              "exec_command_unregister_resend / cleanup and the responder loop around them, for every state: the status "
              "reply is OK exactly for a registered lower-cased full name, exactly one reply, the service is removed and "
              "every other service, registry and interface untouched; the goodbye IS the one the property asks for "
              "(C09_goodbye_is_the_specified_one: per interface where the service is announced and per family with an "
              "address in the subnet: PTR, subtype PTR, SRV, TXT, addresses under the names most recently announced there, "
              "all TTL 0), it is queued once for now + 120 and repeated unchanged on the same interface and family; shutdown "
              "says goodbye once per service and leaves nothing to repeat; a pending second announcement of an unregistered "
              "service does nothing and no query is answered without an announced service. The executable statement chk_C09 "
              "(replies, goodbyes, the wake-up requested for the repeat, silence, SRV/TXT proposals in probe queries only for "
              "registered services, judged against the model's state) runs as a monitor on the real daemon thread in "
              "the simulated world")
TECHNIQUE = ("machine-checked proof in Coq (functional specification of the goodbye, frame property of unregister) + "
             "model/implementation correspondence on simulated-daemon histories")
LEVELS = "K6 (real ServiceDaemon thread in the simulated world: register / rename / re-register / unregister / shutdown)"
RULE = ("simulated histories over 1-3 services and 1-2 interfaces: unregister at every phase (before the first probe, between "
        "probes, at completion, after the first / second announcement), unknown, differently-cased and truncated names, "
        "double unregister, re-registration (same and changed data), shutdown at every phase and after it, queries of every "
        "type before and after, services renamed by injected conflicts, addr_auto services with interfaces disabled and "
        "enabled; v4-only and v6-only interface tables (fixed and addr_auto addresses) with the periodic interface check "
        "switched off, unregister, then a timer-exact run. Model-free family (60): 1-3 services whose instance names contain "
        "non-ASCII upper-case letters (lower-case non-ASCII and ASCII names as control), timer-exact run, a question per "
        "instance, unregister under the registered spelling, a question and a second unregister afterwards. Non-trivial = at least one packet sent")
TRUSTED = [
    "Coq 8.16.1 kernel (coqc); vm_compute only in Examples and witness lemmas",
    "axioms: none (Print Assumptions: Closed under the global context for every theorem)",
    "extraction (ExtrOcamlBasic only) + ocaml/registry/driver.ml",
    "tools/extract_params.py + tools/params/registry.py (+ 120 in both arms of exec_command_unregister, TTL constants)",
    "hooks: cargo feature verif-hooks (simulated world); harness/src/sim.rs attributes an IPv4 packet to the interface of "
    "the last set_multicast_if_v4 (what the socket would do); tools/dnsgen.py parses the packets",
    "tools/props/reglib.py (projection, model input, choice of interface order / jitter assignment)",
    "modelled, not verified: hash-container orders (sorted before comparison), non-ASCII lower-casing (generators use "
    "case variants of ASCII names only), what the hooks replace, the record cache",
]
PARTIAL = ("Names with non-ASCII cased letters are outside the model (Base/Bytes.v folds ASCII letters only, the daemon keys its "
           "service map with the Unicode to_lowercase): they are covered by a model-free family judged on the trace in exactly "
           "the registered spelling (liveness only: three probes 250 ms apart, two announcements one second apart within 1 s of "
           "the registration, questions answered; unregister OK, goodbye and repeat, silence afterwards), not by the correspondence. "
           "Proved over ALL histories of the daemon model (induction over the iterations, no bound): queued goodbye repeats are "
           "goodbyes (C09_saved_repeats_are_goodbyes_all_histories), an iteration adds to the queue only RegisterResend "
           "for now + 1000 and goodbye repeats for now + 120 (C09_queue_growth), no due entry survives an iteration "
           "(C09_no_overdue_repeat), the repeat is sent once and leaves the queue (C09_repeat_run_once); for every state the "
           "goodbye and its repeat go out on every interface/family the service is announced on "
           "(C09_goodbye_everywhere_announced). After the unregister no interface registry holds a probing, active or "
           "name_changes entry under the service's registered or current full name, for every state "
           "(C09_unregister_forgets_the_service_names, fix d685fcf; formerly refuted); everything under other names - the "
           "host-name entries above all - stays as it was (C09_unregister_keeps_other_names): a host-name probe in flight "
           "runs to its end, but no response record is ever built from it. SILENCE over all histories (round 5, micro-step reading of an iteration, "
           "Model/RegistryTrace.v): every response is a goodbye or consists of records (rec_of) of services that are in the "
           "service map when the micro-step that sends it ends, under the names the interface's registry holds then, with a "
           "key that was in the map before the iteration or is registered by one of its calls "
           "(C09_responses_only_for_registered_services_all_histories); for a key that is not in the map and not registered "
           "again no live record is built from a service under that key "
           "(C09_no_live_record_of_unregistered_service_all_histories). A record 'of a service' is identified by what it is "
           "built from, not by its owner name alone (services may share a host name or a type). "
           "The other theorems are single-step statements for every state; that chk_C09 accepts every run of the daemon model "
           "(in particular that no response ever carries a record of an unregistered service, over whole histories) is "
           "validated on every generated history by running the monitor on the model's own output, not proved. chk_C09 "
           "judges each iteration against the model's state before it; that state is validated against the implementation "
           "by the correspondence on the same run. The three findings of round 1 are repaired (goodbyes under pre-rename "
           "names, goodbyes where the service was still probing, the IPv4 repeat on another interface)")

KNOWN = {}


def project(case_line, raw):
    if reglib.is_na(case_line):
        return reglib.project_na(case_line, raw)
    return reglib.project(case_line, raw)


def model_input(case_line, raw):
    if reglib.is_na(case_line):
        return "na"
    return reglib.model_input(ID, case_line, raw)


def generate(rng, tier):
    k = 1 if tier == "quick" else 12
    cases = []

    def add(gen, n, tag, **kw):
        for i in range(n):
            h = gen(rng, "%s%d" % (tag, i), **kw)
            h.pop("meta", None)
            cases.append(Case(reglib.jdump(h), tag))
    add(reglib.gen_unregister_history, 800 * k, "unreg")
    add(reglib.gen_conflict_history, 250 * k, "renamed")
    add(reglib.gen_registration_history, 80 * k, "reg")
    add(reglib.gen_two_daemon_history, 40 * k, "two")
    add(reglib.gen_shared_host_history, 60 * k, "sharedhost")
    add(reglib.gen_iface_toggle_history, 120 * k, "toggle")
    add(reglib.gen_goodbye_repeat_history, 160 * k, "repeat")
    # model-free: names with non-ASCII cased letters, judged on the trace (reglib.project_na)
    for i in range(60 * k):
        cases.append(Case(reglib.jdump(reglib.gen_nonascii_history(rng, "na-%d" % i, unregister=True)), "nonascii"))
    for cfg in ("v4", "v6"):
        for auto in (False, True):
            for off in (True, False):
                for i in range(3):
                    h = reglib.gen_goodbye_repeat_history(rng, "rgrid-%s-%d-%d-%d" % (cfg, auto, off, i), cfg, auto, off)
                    h.pop("meta", None)
                    cases.append(Case(reglib.jdump(h), "repeat-grid"))
    return cases


def nontrivial(line, result):
    return reglib.has_sends(result) or result == "NA ok"


def known_class(line, impl_result, monitor_result):
    return reglib.known_by_codes(monitor_result, KNOWN)


def shrink(line, still_bad):
    if reglib.is_na(line):
        return line
    return vlib.shrink_history(line, still_bad)


def search(rng, problems, disagreeing):
    return generate(rng, "thorough")[:6000]
