"""C07  A name is probed three times before it is announced, then announced twice."""
import reglib
import vlib
from vlib import Case

ID = "C07"
CLAIMED = True
MODEL_GROUP = "registry"
THEOREM_FILE = "Props/C07.v"
HARNESS_ARGS = ["sim"]
PER_SHARD = 8
LEVEL_TEXT = ("Coq theorems over a Gallina model of the probing registry (Probe, DnsRegistry::is_probing_done, "
              "check_probing, handle_expired_probes, tiebreaking, conflict renaming) and of the responder loop around it "
              "(registration, interface addition/removal with addr_auto services, retransmissions): at registry level, for "
              "EVERY interleaving of registrations, probing passes, lost tie-breaks and conflicts at any nondecreasing times "
              "(late or early), each probe query and each activation of a name comes at least 250 ms after the previous "
              "probe query for it (the count restarts where a conflict restarts the probes); activation only 750 ms after "
              "the probe's start, 'probing done' only after activation; on schedules that are never late the exact "
              "timetable T, T+250, T+500, active at T+750 < registration + 1000; for every history of the daemon model "
              "without response datagrams, interface toggles and unregister calls the probe queries for a name on an interface are 250 ms "
              "apart on the wire (C07_wire_probe_spacing); an announcement is built only when all records are active, a "
              "question is answered only for announced services; constants and comparison directions regenerated from "
              "the Rust on every run. The model is compared iteration by iteration with the real daemon thread in the "
              "simulated world, and the statement is executed as a monitor (chk_C07) on the implementation's packets, "
              "events and requested wake-ups; the monitor starts the count afresh when an interface disappears and, for its "
              "instance name, when a service is unregistered; it judges the shared records too: a type / subtype PTR only "
              "for an instance name established on the interface, the service-type enumeration PTR only if a service of "
              "that type has an established instance name there (code 36)")
TECHNIQUE = ("machine-checked proof in Coq (invariants of the probe state machine over all operation sequences) + "
             "model/implementation correspondence on simulated-daemon histories")
LEVELS = "K6 (real ServiceDaemon thread in the simulated world: register / queries / conflicts / unregister histories)"
RULE = ("simulated histories: 1-3 services (with/without subtype, IPv4/IPv6/both, 1-2 interfaces, shared host names, "
        "requires_probe off, services registered while others probe), every harness seed giving a different start jitter, "
        "timer-exact runs, runs with extra early iterations, runs woken exactly at the requested time, late runs; queries of "
        "every type at random phases; conflicting responses and competing probes at every probe step; unregister at every "
        "phase; addr_auto services with disable_interface / enable_interface (by name, All, IPv4, IPv6) at every "
        "phase of probing and after the announcements, gaps 0-3000 ms. Model-free family (60): 1-3 services whose instance "
        "names contain non-ASCII upper-case letters (lower-case non-ASCII and ASCII names as control), fixed or auto "
        "addresses, interface check off, timer-exact run, then a question per instance. Questions for the type, the subtype "
        "and the service-type enumeration name while the service is not yet announced (probing window, interface that "
        "appears later, re-probing after a rename; 120); two or three services sharing a host whose name is renamed by a "
        "conflict, then unregister of one, questions, update and unregister of the rest (60). A history is non-trivial when the daemon sent at least one packet; distinct = distinct history lines")
TRUSTED = [
    "Coq 8.16.1 kernel (coqc); vm_compute only in Examples and witness lemmas",
    "axioms: none (Print Assumptions: Closed under the global context for every theorem)",
    "extraction (ExtrOcamlBasic only) + ocaml/registry/driver.ml (parsing of histories/observations, printing)",
    "tools/extract_params.py + tools/params/registry.py: 250/750/1000/0..250/1000 and the directions of "
    "`now >= next_send`, `now >= start_time + 750`, `start_time >= now` are translated from the Rust on every run and "
    "pinned in Proofs/RegistryParamsPinned.v",
    "hooks: cargo feature verif-hooks (virtual clock, simulated interface table, captured egress, injected ingress, "
    "per-iteration gate, seeded jitter reported in the trace); harness/src/sim.rs; tools/dnsgen.py parses the packets",
    "tools/props/reglib.py: projection of traces, mirror of ServiceInfo::new's name handling, replay of the harness's "
    "stepping rules, choice of the interface-map iteration order and of which consumer got which of several jitter "
    "values drawn in one iteration (unobservable environment choices; the one consistent with the observation is "
    "selected with the help of the model)",
    "modelled, not verified: HashMap/HashSet iteration orders (outputs compared as sorted multisets per iteration), time "
    "standing still inside one iteration, the granted wake-up time (an input), mio/sockets/OS clock/interface "
    "enumeration (replaced by the hooks; the OS table is an input), packet splitting above 8972 bytes, the record cache (no browse/resolve calls "
    "in these histories), non-ASCII case mapping",
]
PARTIAL = ("Names with non-ASCII cased letters are outside the model (Base/Bytes.v folds ASCII letters only, the daemon keys its "
           "service map with the Unicode to_lowercase): they are covered by a model-free family judged on the trace in exactly "
           "the registered spelling (liveness only: three probes 250 ms apart, two announcements one second apart within 1 s of "
           "the registration, questions answered), not by the correspondence. "
           "Proved for all histories of the daemon model without response datagrams, interface toggles and (since fix d685fcf) "
           "unregister calls: probe spacing on "
           "the wire. Proved for every state of the daemon model, hence over all histories incl. response datagrams and "
           "interface toggles: every packet register_service sends, every announcement add_interface makes and every "
           "response the probing handler sends when probes complete has its RegisterResend queued for now + 1000 "
           "(C07_*_queues_second_announcement), and no iteration leaves a due queue entry behind "
           "(C07_no_overdue_queue_entry), an entry that is not yet due stays queued "
           "(C07_second_announcement_stays_queued), and when it is due the announcement IS sent for every family in which the "
           "service is still announceable - still registered, interface and registry still there, records active "
           "(C07_due_second_announcement_sent_partial; that hypothesis is not derived from the history); the completion step "
           "of the probing handler announces a waiting service whose records are active, sets Announced and queues the "
           "second announcement (C07_probing_pass_announces_completed_service). LIVENESS over daemon histories without "
           "conflict datagrams (round 9, per-(interface, name) invariant carried through every daemon function): from the "
           "state a registration leaves (both probes of the service - instance and host name - started at T = registration "
           "+ jitter), through ANY never-late history of calm iterations (queries without authority records; "
           "registrations of other services, monitor), an iteration at exactly T + 750 ends with the service Announced on "
           "the interface (C07_reaches_announced_partial), with the probe queries in iterations at exactly T, T + 250, "
           "T + 500 (C07_probe_timetable_partial, C07_calm_iteration_step). Round 10: SAFETY on calm histories under ANY "
           "schedule (late iterations included): before T + 750 the instance-name probe stays in progress, nothing is "
           "active under that name and the service is not Announced on the interface "
           "(C07_never_speaks_before_probed_partial), and in such a state every announcement attempt for it sends nothing "
           "(C07_announcement_attempt_blocked_while_inactive); the announcing iteration leaves the records active "
           "(C07_announcing_iteration_leaves_records_active_partial), that state is kept by every calm iteration, and the "
           "queued second announcement is SENT at the first iteration at or after its time "
           "(C07_second_announcement_sent_calm_partial: the 'announceable' hypothesis discharged for calm histories). "
           "STILL NOT proved: the safety statement as one theorem about the packets and over ALL histories outside "
           "42/44/48; the widening of calm iterations to non-conflicting responses and unregister of other services; "
           "the bound with lost tie-breaks / conflicts (+ 1 s each); these stay with the registry machine plus the "
           "executed monitor (codes 32, 36). "
           "Timer coverage of this layer: Props/C12Registry.v. "
           "Proved for all operation sequences of the registry machine and for single daemon steps: the other "
           "clauses (see Props/C07.v). NOT proved as a theorem over histories: that chk_C07 accepts every run of the daemon "
           "model (three probes and the wait before every response, second announcement, wake-up requests); this is "
           "validated on every generated history by running the monitor on the model's own output as well. Exact times are "
           "theorems about schedules that are never late; the granted wake-up time is an input. Findings (known/C07.json): "
           "fewer than three probes when the daemon is woken late; a record that joins a probe in flight is proposed fewer "
           "than three times; when an interface comes back, fixed-address services are answered for there without new "
           "probes (the two other findings of round 2 around returning interfaces are repaired: 2ff6a49, 4b0055d; that "
           "add_interface raises no Announce monitor event is outside the property, which speaks of announcements on "
           "the wire)")

KNOWN = {42: "C07-late-wakeup-fewer-probes", 44: "C07-record-joins-inflight-probe",
         48: "C07-static-service-answers-unprobed-after-interface-return"}


def project(case_line, raw):
    if reglib.is_na(case_line):
        return reglib.project_na(case_line, raw)
    return reglib.project(case_line, raw)


def model_input(case_line, raw):
    if reglib.is_na(case_line):
        return "na"
    return reglib.model_input(ID, case_line, raw)


def generate(rng, tier):
    k = 1 if tier == "quick" else 12
    cases = []

    def add(gen, n, tag, **kw):
        for i in range(n):
            h = gen(rng, "%s%d" % (tag, i), **kw)
            h.pop("meta", None)
            cases.append(Case(reglib.jdump(h), tag))
    add(reglib.gen_registration_history, 520 * k, "reg")
    add(reglib.gen_registration_history, 120 * k, "reg-late", late=True)
    add(reglib.gen_conflict_history, 220 * k, "conflict")
    add(reglib.gen_unregister_history, 120 * k, "unreg")
    add(reglib.gen_two_daemon_history, 50 * k, "two")
    add(reglib.gen_shared_record_query_history, 120 * k, "sharedq")
    add(reglib.gen_shared_host_history, 60 * k, "sharedhost")
    add(reglib.gen_iface_toggle_history, 260 * k, "toggle")
    add(reglib.gen_prefix_tiebreak_history, 40 * k, "prefix")
    # model-free: names with non-ASCII cased letters, judged on the trace (reglib.project_na)
    for i in range(60 * k):
        cases.append(Case(reglib.jdump(reglib.gen_nonascii_history(rng, "na-%d" % i)), "nonascii"))
    # every start jitter the seeds of the table give (first draw of 64 seeds), timer-exact, one service
    for seed in sorted(reglib.FIRST_JITTER)[: (64 if tier != "quick" else 24)]:
        h = {"id": "jit%d" % seed, "t0": reglib.T0, "daemons": [{"seed": seed, "ifaces": reglib.IFCFGS["dual"]}],
             "link": "none",
             "steps": [{"t": reglib.T0, "d": 0, "calls": [
                 {"op": "monitor", "ch": "m"},
                 {"op": "register", "svc": reglib.svc("_s._sub._t._tcp.local.", "Jit", "jh.local.", "192.168.1.10,fe80::10", 81,
                                                       [["61", "62"]])}]},
                       {"run_until": reglib.T0 + 2500}]}
        cases.append(Case(reglib.jdump(h), "jitter"))
    return cases


def nontrivial(line, result):
    return reglib.has_sends(result) or result == "NA ok"


def known_class(line, impl_result, monitor_result):
    return reglib.known_by_codes(monitor_result, KNOWN)


def shrink(line, still_bad):
    if reglib.is_na(line):
        return line
    return vlib.shrink_history(line, still_bad)


def search(rng, problems, disagreeing):
    return generate(rng, "thorough")[:6000]
