"""Exact-vs-dense wake-up comparison (search support for C12, model-free).

One history drives TWO identical simulated daemons with identical inputs: daemon 0 is woken
exactly when it asked (timer-exact), daemon 1 additionally every DENSE ms (more often than it
asked). If every piece of time-driven work has a timer (C12, first half), whatever daemon 1
does, daemon 0 does no later: for every class of observable action (a packet with the same
questions / record set, an event with the same content) the k-th occurrence on daemon 0 is not
later than the k-th occurrence on daemon 1, and daemon 0 has at least as many occurrences in
the window. A forgotten timer shows as daemon 0 acting late (at its next unrelated wake-up).
Second half (no spin): daemon 0 must not run more than SPIN_LIMIT iterations in any second.

Histories: browse / resolve_hostname / register / unregister / verify calls and injected
responses (announcements, partial record sets, cache-flush updates, goodbyes, renewals), then
timer-exact running. The IP check is switched off first (its 5 s wake-ups would mask missing
timers) in most histories."""
import json

import dnsgen
from vlib import Case

DENSE = 50
SPIN_LIMIT = 300
IFACES = [{"name": "eth0", "index": 2, "addr": "192.168.1.10", "mask": "255.255.255.0"},
          {"name": "eth0", "index": 2, "addr": "fe80::10", "mask": "ffff:ffff:ffff:ffff::"}]
IFACES_V6 = [{"name": "eth0", "index": 2, "addr": "fe80::10", "mask": "ffff:ffff:ffff:ffff::"}]
IFACES_V4 = [{"name": "eth0", "index": 2, "addr": "192.168.1.10", "mask": "255.255.255.0"}]
TY = "_wd._tcp.local."


def _resp(records, flags=0x8400):
    p = dnsgen.Packet(compress=True)
    for (name, ty, cls, ttl, rd) in records:
        p.rr(1, name, ty, cls, ttl, rd)
    return p.finish(flags=flags).hex()


def _dg(hexs, src="192.168.1.77:5353"):
    return {"if": 2, "v4": True, "src": src, "hex": hexs}


def gen_history(rng, hid):
    t = 1000000
    steps = []

    def both(calls=None, dgrams=None, at=None):
        nonlocal t
        if at is not None:
            t = at
        for d in (0, 1):
            st = {"t": t, "d": d}
            if calls:
                st["calls"] = calls
            if dgrams:
                st["dgrams"] = dgrams
            steps.append(st)

    def run(ms):
        nonlocal t
        t += ms
        steps.append({"run_until": t, "dense": {"d": 1, "every": DENSE}, "max_iters": 20000})

    if rng.random() < 0.8:
        both(calls=[{"op": "set_ip_check_interval", "secs": 0}])
    inst = [rng.choice([b"Inst A", b"i2", b"Caps"]), b"_wd", b"_tcp", b"local"]
    ty = [b"_wd", b"_tcp", b"local"]
    host = [rng.choice([b"wdhost", b"WdHost"]), b"local"]
    scenario = rng.choice(["browse", "browse", "resolve", "register", "register", "mixed", "flush", "renew", "verify"])
    ifaces = IFACES
    if scenario == "register":
        ifaces = rng.choice([IFACES, IFACES_V6, IFACES_V4, IFACES_V6])
    ttl_host = rng.choice([4, 10, 12, 120])
    ttl_other = rng.choice([5, 10, 20, 4500])
    full = [(ty, 12, 1, ttl_other, dnsgen.rd_ptr(inst)),
            (inst, 33, 0x8001, ttl_host, dnsgen.rd_srv(0, 0, 8080, host)),
            (inst, 16, 0x8001, ttl_other, dnsgen.rd_bytes(b"\x03k=v")),
            (host, 1, 0x8001, ttl_host, dnsgen.rd_bytes(bytes([192, 168, 1, 77])))]
    if scenario in ("browse", "mixed", "flush", "renew", "verify"):
        both(calls=[{"op": "browse", "ty": TY, "ch": "b"}])
        run(rng.choice([10, 300, 1200]))
        part = rng.choice(["all", "all", "ptr", "no-addr"])
        recs = full if part == "all" else (full[:1] if part == "ptr" else full[:3])
        both(dgrams=[_dg(_resp(recs))])
        run(rng.choice([700, 1600, 2500]))
        if part != "all":
            both(dgrams=[_dg(_resp(full))])
            run(900)
        if scenario == "flush":
            # the host drops its address / moves: cache-flush record naming a new address only
            both(dgrams=[_dg(_resp([(host, 1, 0x8001, ttl_host, dnsgen.rd_bytes(bytes([192, 168, 1, 78])))]))])
            run(2500)
            both(dgrams=[_dg(_resp([(host, 1, 0x8001, ttl_host, dnsgen.rd_bytes(bytes([192, 168, 1, 78])))]))])
            run(1500)
        def foreign():
            # the same host announces a service of a type we do not browse: the response is
            # "not for us" but renews the host's address (and nothing else) in the cache
            oinst = [b"Other", b"_unbrowsed", b"_tcp", b"local"]
            both(dgrams=[_dg(_resp([([b"_unbrowsed", b"_tcp", b"local"], 12, 1, 4500, dnsgen.rd_ptr(oinst)),
                                    (oinst, 33, 0x8001, 120, dnsgen.rd_srv(0, 0, 9, host)),
                                    (oinst, 16, 0x8001, 4500, dnsgen.rd_bytes(b"\x00")),
                                    full[3]]))])
        if scenario == "renew":
            both(dgrams=[_dg(_resp(full))])
            # gaps that do not land on the 80/85/90/95 % marks of the earlier copy
            run(rng.choice([370, 500, 1130, 1500, 1930]))
            if rng.random() < 0.5:
                both(dgrams=[_dg(_resp(full))])
            else:
                foreign()
        elif scenario in ("browse", "mixed") and rng.random() < 0.35:
            run(rng.choice([370, 1130, 1930]))
            foreign()
        if scenario == "verify":
            both(calls=[{"op": "verify", "name": dnsgen.dotted(inst).decode(), "timeout": rng.choice([300, 800, 1000, 1500, 3000])}])
        if rng.random() < 0.3:
            both(dgrams=[_dg(_resp([(ty, 12, 1, 0, dnsgen.rd_ptr(inst))]))])   # goodbye
        run(int(1000 * max(ttl_host, min(ttl_other, 25)) * 1.2) + 3000)
    if scenario in ("resolve", "mixed"):
        hn = dnsgen.dotted(host).decode()
        both(calls=[{"op": "resolve_hostname", "host": hn, "timeout": rng.choice([None, 2500, 9000]), "ch": "r"}])
        run(rng.choice([10, 400]))
        both(dgrams=[_dg(_resp([full[3], (host, 1, 0x8001, ttl_host, dnsgen.rd_bytes(bytes([192, 168, 1, 79])))]))])
        run(1500)
        if rng.random() < 0.6:
            both(dgrams=[_dg(_resp([full[3]]))])      # cache-flush naming only one of the two addresses
        run(1000 * ttl_host + 3000)
    if scenario in ("register", "mixed"):
        svc = {"ty": TY, "name": rng.choice(["Mine", "mine", "Other One"]), "host": "wdreg.local.",
               "ips": "192.168.1.10" if ifaces is IFACES and rng.random() < 0.5 else "auto",
               "port": 80, "props": [["6b", "76"]]}
        both(calls=[{"op": "monitor", "ch": "m"}])
        if rng.random() < 0.5:
            # the host name is already established by an earlier service, so that only the new
            # instance name is probed below (no other probe's completion re-arms the timers)
            first = dict(svc, name="First", port=81)
            both(calls=[{"op": "register", "svc": first}])
            run(3600)
        both(calls=[{"op": "register", "svc": svc}])
        if rng.random() < 0.5:
            # a competing prober with lexicographically later data: we lose the tiebreak and
            # must come back for the retry one second later (needs a timer)
            run(300)
            full = [svc["name"].encode()] + ty
            q = dnsgen.Packet(compress=True)
            q.question(full, 255)
            if rng.random() < 0.5:
                q.rr(2, full, 33, 1, 120, dnsgen.rd_srv(0, 0, 65535, [b"zzzz", b"local"]))
            else:
                # the competitor proposes exactly our records plus one more: every compared pair is
                # equal and the tiebreak is lost on the number of records
                q.rr(2, full, 16, 1, 4500, dnsgen.rd_bytes(b"\x03k=v"))
                q.rr(2, full, 33, 1, 120, dnsgen.rd_srv(0, 0, 80, [b"wdreg", b"local"]))
                q.rr(2, full, 33, 1, 120, dnsgen.rd_srv(0, 0, 81, [b"zzzz", b"local"]))
            v4 = ifaces is not IFACES_V6
            both(dgrams=[{"if": 2, "v4": v4, "src": "192.168.1.88:5353" if v4 else "[fe80::88]:5353", "hex": q.finish(flags=0).hex()}])
            run(2600)
        run(rng.choice([300, 2600]))
        if rng.random() < 0.8:
            both(calls=[{"op": "unregister", "name": "%s.%s" % (svc["name"], TY), "ch": "u"}])
        run(2500)
    return json.dumps({"id": hid, "wd": 1, "t0": 1000000, "daemons": [{"seed": 5, "ifaces": ifaces}, {"seed": 5, "ifaces": ifaces}],
                       "steps": steps}, separators=(",", ":"))


def generate(rng, tier):
    n = 120 if tier == "quick" else 1500
    return [Case(gen_history(rng, "wd%d" % i), "wakediff") for i in range(n)]


def is_wd(line):
    return line.startswith('{"id":"wd')


def _names(labels):
    return dnsgen.dotted(labels).decode("utf-8", "replace").lower() if labels is not None else "?"


def _actions(trace, d):
    """[(time, class)] for daemon d: packets by content class, events by content."""
    out = []
    for r in trace:
        if r.get("d") != d or "it" not in r:
            continue
        now = r["now"]
        seen = set()
        for s in r.get("sent", []):
            p = dnsgen.parse_packet(bytes.fromhex(s["hex"])) if s["hex"] != "-" else None
            if p is None:
                cls = "pkt:unparsed"
            else:
                q = sorted("%s/%d" % (_names(n), ty) for (n, ty, _c) in p["q"])
                an = sorted("%s/%d/%s" % (_names(x["name"]), x["type"], "bye" if x["ttl"] == 0 else "")
                            for x in p["an"] if not (p["flags"] & 0x8000 == 0))      # known answers of queries ignored
                cls = "pkt:%s:%s:%s:%s" % ("R" if p["flags"] & 0x8000 else "Q", ",".join(q), ",".join(an), len(p["ns"]))
            key = (cls, s["v4"], s["if"])
            if key in seen:
                continue
            seen.add(key)
            out.append((now, "%s:%s:%s" % (cls, s["v4"], s["if"])))
        for ch, evs in (r.get("events") or {}).items():
            for e in evs:
                e2 = {k: v for k, v in e.items() if k not in ("detail",)}
                out.append((now, "ev:%s:%s" % (ch, json.dumps(e2, sort_keys=True))))
    return out


def project(line, raw):
    o = json.loads(raw)
    if "error" in o:
        return "WD harness-error"
    tr = o["trace"]
    for r in tr:
        if r.get("panicked") or r.get("stuck"):
            return "WD daemon-died"
    a0, a1 = _actions(tr, 0), _actions(tr, 1)
    by0, by1 = {}, {}
    for t, c in a0:
        by0.setdefault(c, []).append(t)
    for t, c in a1:
        by1.setdefault(c, []).append(t)
    for c, ts1 in sorted(by1.items()):
        ts0 = by0.get(c, [])
        if len(ts0) < len(ts1):
            return "WD late missing-on-exact %s exact=%s dense=%s" % (c[:120].replace(" ", "_"), ts0[:4], ts1[:4])
        for k, t1 in enumerate(ts1):
            if ts0[k] > t1:
                return "WD late %s #%d exact=%d dense=%d" % (c[:120].replace(" ", "_"), k, ts0[k], t1)
    # no spin: iterations of the exact daemon per second
    times = [r["now"] for r in tr if r.get("d") == 0 and "it" in r]
    j = 0
    for i, t in enumerate(times):
        while times[j] + 1000 <= t:
            j += 1
        if i - j + 1 > SPIN_LIMIT:
            return "WD spin %d iterations within one second before %d" % (i - j + 1, t)
    return "WD ok"


def model_input(line, raw):
    return "wd"
