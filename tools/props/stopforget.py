"""'Stopping a browse forgets what it cached' (search support for C13, model-free).

History: browse a type, deliver announcements of 1-3 instances (hosts in mixed letter case,
shared hosts, subtypes, extra addresses), let them resolve, stop_browse, then read
get_metrics: every cache counter must be back to what it was before the browse (0: nothing else
is cached), and over the following virtual minute no query for that type or its instances /
hosts leaves. Optionally a second browse of another type stays open and must keep ITS records."""
import json

import dnsgen
from vlib import Case

IFACES = [{"name": "eth0", "index": 2, "addr": "192.168.1.10", "mask": "255.255.255.0"}]
COUNTERS = ["cached-ptr", "cached-srv", "cached-txt", "cached-addr"]


def _resp(records):
    p = dnsgen.Packet(compress=True)
    for (name, ty, cls, ttl, rd) in records:
        p.rr(1, name, ty, cls, ttl, rd)
    return p.finish(flags=0x8400).hex()


def gen_history(rng, hid):
    t = 1000000
    steps = [{"t": t, "calls": [{"op": "set_ip_check_interval", "secs": 0}]}]
    ty = [b"_sf", rng.choice([b"_tcp", b"_udp"]), b"local"]
    tys = dnsgen.dotted(ty).decode()
    other = [b"_keep", b"_tcp", b"local"]
    keep_other = rng.random() < 0.4
    # variant: the browse is of a SUBTYPE of the type; only the subtype PTR is announced
    sub_browse = rng.random() < 0.25
    base_tys = tys
    if sub_browse:
        sub_ty = [rng.choice([b"_s1", b"_printer"]), b"_sub"] + ty
        tys = dnsgen.dotted(sub_ty).decode()
    calls = [{"op": "browse", "ty": tys, "ch": "b"}]
    if keep_other:
        calls.append({"op": "browse", "ty": dnsgen.dotted(other).decode(), "ch": "k"})
    steps.append({"t": t, "calls": calls})
    recs = []
    hosts = [[rng.choice([b"SfHost", b"sfhost", b"Mixed-Case-Host", b"h"]), b"local"] for _ in range(2)]
    nexp = 0
    for i in range(rng.choice([1, 2, 3])):
        inst = [b"I%d" % i + rng.choice([b"", b" x", b"Z"])] + ty
        host = rng.choice(hosts)
        shape = rng.choice(["full", "full", "full", "no-srv", "srv-expires"])
        if sub_browse:
            shape = rng.choice(["full", "no-srv"])
        pty = sub_ty if sub_browse else ty
        if shape == "no-srv":
            # PTR and TXT only (the SRV never came, or ran out long ago): still cached for this browse
            recs += [(pty, 12, 1, 4500, dnsgen.rd_ptr(inst)),
                     (inst, 16, 0x8001, 4500, dnsgen.rd_bytes(b"\x01a"))]
            continue
        if shape == "srv-expires":
            nexp += 2          # an A and possibly an AAAA record of its host
        recs += [(pty, 12, 1, 4500, dnsgen.rd_ptr(inst)),
                 (inst, 33, 0x8001, 2 if shape == "srv-expires" else 120, dnsgen.rd_srv(0, 0, 80 + i, host)),
                 (inst, 16, 0x8001, 4500, dnsgen.rd_bytes(b"\x01a")),
                 (host, 1, 0x8001, 120, dnsgen.rd_bytes(bytes([192, 168, 1, 50 + i])))]
        if rng.random() < 0.3:
            recs.append((host, 28, 0x8001, 120, dnsgen.rd_bytes(bytes([0xfe, 0x80] + [0] * 13 + [i + 1]))))
    nsub = 0
    for (nm, ty_, _c, _t, rd) in list(recs):
        # subtype PTRs of the browsed type, as a responder with subtypes announces them
        # (not combined with the expired-SRV shape: each known leftover class is observed alone)
        if ty_ == 12 and nm == ty and nexp == 0 and not sub_browse and rng.random() < 0.35:
            recs.append(([rng.choice([b"_s1", b"_printer"]), b"_sub"] + ty, 12, 1, 4500, rd))
            nsub += 1
    nkeep = 0
    if keep_other:
        kinst = [b"K"] + other
        khost = [b"keephost", b"local"]
        krecs = [(other, 12, 1, 4500, dnsgen.rd_ptr(kinst)), (kinst, 33, 0x8001, 120, dnsgen.rd_srv(0, 0, 9, khost)),
                 (kinst, 16, 0x8001, 4500, dnsgen.rd_bytes(b"\x00")), (khost, 1, 0x8001, 120, dnsgen.rd_bytes(bytes([192, 168, 1, 99])))]
        nkeep = 1
    t += 200
    steps.append({"t": t, "dgrams": [{"if": 2, "v4": True, "src": "192.168.1.50:5353", "hex": _resp(recs)}]})
    if keep_other:
        steps.append({"t": t + 10, "dgrams": [{"if": 2, "v4": True, "src": "192.168.1.99:5353", "hex": _resp(krecs)}]})
    t += rng.choice([300, 1500, 4000])
    steps.append({"run_until": t})
    steps.append({"t": t, "calls": [{"op": "stop_browse", "ty": tys}, {"op": "get_metrics", "ch": "g"}]})
    t += 60000
    steps.append({"run_until": t})
    steps.append({"t": t, "calls": [{"op": "get_metrics", "ch": "g2"}]})
    if nsub and rng.random() < 0.5:
        # a browse of the subtype after the stop must not report anything without a new packet
        sub_browse = True
        sty = None
        for (nm, ty_, _c, _t, rd) in recs:
            if ty_ == 12 and len(nm) == len(ty) + 2:
                sty = dnsgen.dotted(nm).decode()
        steps.append({"t": t, "calls": [{"op": "browse", "ty": sty, "ch": "s"}]})
        steps.append({"run_until": t + 3000})
    return json.dumps({"id": hid, "sf": nkeep, "nsub": nsub, "nexp": nexp, "ty": tys, "qsuffix": base_tys, "t0": 1000000, "daemons": [{"seed": 1, "ifaces": IFACES}], "steps": steps},
                      separators=(",", ":"))


def generate(rng, tier):
    n = 40 if tier == "quick" else 800
    return [Case(gen_history(rng, "sf%d" % i), "stopforget") for i in range(n)]


def is_sf(line):
    return line.startswith('{"id":"sf')


def project(line, raw):
    h = json.loads(line)
    o = json.loads(raw)
    if "error" in o:
        return "SF harness-error"
    nkeep = h["sf"]
    ty = h.get("qsuffix", h["ty"]).lower()
    stop_t = None
    for st in h["steps"]:
        for c in st.get("calls", []):
            if c["op"] == "stop_browse":
                stop_t = st["t"]
    for r in o["trace"]:
        if r.get("panicked") or r.get("stuck"):
            return "SF daemon-died"
        for ch in ("g", "g2"):
            for e in (r.get("events") or {}).get(ch, []):
                if e.get("e") == "Metrics":
                    m = e["m"]
                    got = [m.get(k, 0) for k in COUNTERS]
                    want = [nkeep, nkeep, nkeep, nkeep]
                    if got != want:
                        nsub = h.get("nsub", 0)
                        if nsub and got[1:] == want[1:] and 0 < got[0] - want[0] <= nsub:
                            # exactly the subtype PTRs of the stopped type are left, nothing else
                            return "SF leftover-subptr %s=%s expected %s" % (ch, got, want)
                        nexp = h.get("nexp", 0)
                        if nexp and got[:3] == want[:3] and 0 < got[3] - want[3] <= nexp:
                            # only addresses are left, of hosts whose SRV had run out before the stop
                            return "SF leftover-addr-srv-expired %s=%s expected %s" % (ch, got, want)
                        return "SF leftover %s=%s expected %s" % (ch, got, want)
        for e in (r.get("events") or {}).get("s", []):
            if e.get("e") in ("ServiceFound", "ServiceResolved"):
                return "SF leftover-subptr reported-after-stop %s" % e.get("e")
        if stop_t is not None and r.get("now", 0) > stop_t:
            for s in r.get("sent", []):
                p = dnsgen.parse_packet(bytes.fromhex(s["hex"]))
                if p and not (p["flags"] & 0x8000):
                    for (n, qt, _c) in p["q"]:
                        nm = dnsgen.dotted(n).decode("utf-8", "replace").lower()
                        if nm.endswith(ty) or "sfhost" in nm or "mixed-case-host" in nm or nm == "h.local.":
                            return "SF query-after-stop %s/%d at %d" % (nm.replace(" ", "_"), qt, r["now"])
    return "SF ok"


def model_input(line, raw):
    return "sf"
