"""C02  Every emitted packet parses back to exactly the records that were added."""
from vlib import Case

ID = "C02"
CLAIMED = True
LEVEL_TEXT = ("Coq theorem: for every well-formed message whose question section fits one packet, the packets produced "
              "by the encoder model satisfy chk_C02 (size, header counts, reference parser reads back exactly a "
              "sub-sequence of what was added, TC on all but the last); the crate decoder model agrees with the reference "
              "parser; model tied to the Rust encoder byte-for-byte (packets and compression tables) on every run")
TECHNIQUE = "machine-checked proof in Coq (compression-table invariant, append stability of the reference reader) + model/implementation correspondence"
MODEL_GROUP = "codec"
THEOREM_FILE = "Props/C02.v"
LEVELS = "K1-encode (DnsOutgoing built from plain records, to_packets bytes + compression tables + crate decoder output compared)"
RULE = ("messages of questions and PTR/SRV/TXT/A/AAAA records in every section; names from label pools with "
        "'.', '\\\\', multi-byte UTF-8, 63-byte labels and shared suffixes; TTLs over u32; sizes from empty to "
        "several packet limits; boundary stream fills a packet to 8972+-k then adds records sharing suffixes; "
        "non-trivial = at least one record or question; distinct = distinct case lines")
TRUSTED = [
    "Coq 8.16.1 kernel (coqc)",
    "axioms: none expected (Print Assumptions output recorded in this file)",
    "extraction (ExtrOcamlBasic only) + ocaml/driver.ml; the monitor is the extracted chk_C02",
    "Model/Rfc1035.v: the reference parser is the specification (written from RFC 1035, not from the crate)",
    "hooks: verif-hooks facade builds real DnsOutgoing objects from plain records (field copying) and returns to_packets() data and the names table",
    "modelled, not verified: the append-only form of the model (Rust patches RDLENGTH and the header in place); "
    "compression table keyed by label lists in the model vs escaped-joined strings in Rust (compared as strings in the correspondence)",
]
PARTIAL = ("hypotheses: wf_out (labels 1..63 bytes, names <= 255 bytes on the wire, field widths) and fits "
           "(question section within one packet; otherwise known finding D6). HINFO/NSEC encodings are outside the property.")

import struct

LABELS = [b"a", b"b", b"local", b"_tcp", b"_udp", b"_http", b"_ipp", b"_sub", b"_printer", b"host", b"My Printer",
          b"x" * 63, b"y" * 62, "é".encode(), "日本語".encode(), b"a.b", b"a\\b", b".", b"\\", b"a.", b".a", b"\\.",
          b"A", b"a b", b"dot.ted.name", b"back\\slash", "\U0001F600".encode()]


def esc(l):
    return l.replace(b"\\", b"\\\\").replace(b".", b"\\.")


def name_str(labels):
    return b".".join(esc(l) for l in labels) + b"."


def hx(b):
    return b.hex() if b else "-"


class Gen:
    def __init__(self, rng):
        self.rng = rng
        dom = [rng.choice([b"_http", b"_ipp", b"_x-y"]), rng.choice([b"_tcp", b"_udp"]), b"local"]
        self.types = [dom, [rng.choice([b"_printer", b"_s"]), b"_sub"] + dom, [b"_other", b"_udp", b"local"]]
        self.insts = [[rng.choice(LABELS)] + dom for _ in range(4)]
        self.hosts = [[rng.choice([b"host", b"h2", "hôte".encode(), b"a.b", b"H"]), b"local"] for _ in range(3)]

    def name(self):
        rng = self.rng
        r = rng.random()
        if r < 0.3:
            return rng.choice(self.types)
        if r < 0.6:
            return rng.choice(self.insts)
        if r < 0.8:
            return rng.choice(self.hosts)
        n = rng.choice([1, 2, 3, 4])
        ls = [rng.choice(LABELS) for _ in range(n)]
        return ls

    def ttl(self):
        return self.rng.choice([0, 1, 2, 120, 4500, 4294967295, 2147483648, self.rng.randrange(1 << 32)])

    def rec(self, big=None):
        rng = self.rng
        k = rng.choice(["P", "P", "S", "T", "A", "AAAA"])
        cls = 1
        flush = rng.choice([0, 1])
        created = rng.choice([0, 1000, 1700000000000])
        if k == "P":
            ty = rng.choice([12, 12, 12, 5])
            owner, rd = rng.choice(self.types), "P:" + hx(name_str(rng.choice(self.insts + [self.name()])))
        elif k == "S":
            ty = 33
            owner = rng.choice(self.insts)
            rd = "S:%d,%d,%d,%s" % (rng.choice([0, 1, 65535]), rng.choice([0, 7]), rng.randrange(65536), hx(name_str(rng.choice(self.hosts))))
        elif k == "T":
            ty = 16
            owner = rng.choice(self.insts)
            n = big if big is not None else rng.choice([1, 5, 40, 300])
            rd = "T:" + hx(bytes(rng.randrange(256) for _ in range(n)))
        elif k == "A":
            ty = 1
            owner = rng.choice(self.hosts)
            rd = "A:" + hx(bytes(rng.randrange(256) for _ in range(4)))
        else:
            ty = 28
            owner = rng.choice(self.hosts)
            rd = "A:" + hx(bytes(rng.randrange(256) for _ in range(16)))
        if rng.random() < 0.15:
            owner = self.name()
        newname = "~"
        if rng.random() < 0.1:
            newname = hx(name_str([owner[0] + b" (2)"] + owner[1:])) if len(owner[0]) < 58 else "~"
        return "/".join([hx(name_str(owner)), newname, str(ty), str(cls), str(flush), str(self.ttl()), str(created), rd]), created


def msg_line(rng, nq, nan, nns, nar, big_txt=None, response=None):
    g = Gen(rng)
    if response is None:
        response = rng.random() < 0.6
    flags = 0x8400 if response else 0
    qs = ";".join("%s,%d" % (hx(name_str(g.name())), rng.choice([12, 33, 16, 1, 28, 255]))
                  for _ in range(nq)) or "-"

    def recs(n, with_now):
        out = []
        for _ in range(n):
            r, created = g.rec(big_txt() if big_txt else None)
            if with_now:
                now = 0
                if rng.random() < 0.3:
                    now = created + rng.choice([1, 999, 1000, 5000])
                out.append("%s@%d" % (r, now))
            else:
                out.append(r)
        return ";".join(out) or "-"
    return "enc %d %d %d q=%s an=%s ns=%s ar=%s" % (flags, rng.choice([0, 0, 4660]), 1, qs,
                                                    recs(nan, True), recs(nns, False), recs(nar, False))


def fixed_cases():
    def rec(name, ty, flush, ttl, rd, newname="~"):
        return "/".join([hx(name), newname, str(ty), "1", str(flush), str(ttl), "1000", rd])
    out = []
    # D4: a.b vs a\.b
    out.append("enc 33792 0 1 q=- an=%s@0;%s@0 ns=- ar=-" % (
        rec(b"_t._tcp.local.", 12, 0, 4500, "P:" + hx(b"a.b._t._tcp.local.")),
        rec(b"_t._tcp.local.", 12, 0, 4500, "P:" + hx(b"a\\.b._t._tcp.local."))))
    # D3: big TXT, an overflowing record, then a record sharing its suffix
    big = "T:" + "ab" * 8900
    out.append("enc 33792 0 1 q=- an=%s@0;%s@0;%s@0 ns=- ar=-" % (
        rec(b"i._t._tcp.local.", 16, 1, 4500, big),
        rec(b"j.zz._u._udp.local.", 16, 1, 4500, "T:" + "cd" * 60),
        rec(b"k.zz._u._udp.local.", 12, 0, 4500, "P:" + hx(b"zz._u._udp.local."))))
    # D5: query whose continuation additional cannot fit alone
    out.append("enc 0 0 1 q=%s,12 an=- ns=- ar=%s;%s" % (
        hx(b"_t._tcp.local."), rec(b"i._t._tcp.local.", 16, 1, 4500, "T:" + "ab" * 8940),
        rec(b"i._t._tcp.local.", 16, 1, 4500, "T:" + "ab" * 8970)))
    # D6 (known finding): question section alone exceeds one packet
    qs = ";".join("%s,12" % hx(b"q%03d" % i + b"x" * 55 + b"._t._tcp.local.") for i in range(200))
    out.append("enc 0 0 1 q=%s an=- ns=- ar=-" % qs)
    # empty message, trailing-backslash names, root
    out.append("enc 0 0 1 q=- an=- ns=- ar=-")
    out.append("enc 0 7 0 q=%s,12;%s,1 an=- ns=- ar=-" % (hx(b"a\\"), hx(b".")))
    return out


def generate(rng, tier):
    n = 1500 if tier == "quick" else 40000
    cases = [Case(l, "fixed") for l in fixed_cases()]
    for _ in range(n // 2):
        cases.append(Case(msg_line(rng, rng.choice([0, 0, 1, 2, 4]), rng.choice([0, 1, 2, 5]), rng.choice([0, 0, 1, 3]),
                                   rng.choice([0, 1, 2, 6])), "structured"))
    for _ in range(n // 4):
        # boundary: TXT sizes chosen so that the packet fills up around the limit
        sizes = lambda: rng.choice([10, 100, 1000, 2000, 4400, 8800, 8900, 8950, 9000])
        cases.append(Case(msg_line(rng, rng.choice([0, 1]), rng.choice([1, 3, 6]), rng.choice([0, 2]), rng.choice([0, 2, 5]),
                                   big_txt=sizes), "boundary"))
    for _ in range(n // 8):
        # queries with many known answers / additionals (TC continuation)
        sizes = lambda: rng.choice([1000, 3000, 4400, 8900])
        cases.append(Case(msg_line(rng, rng.choice([1, 2]), rng.choice([0, 2, 4]), 0, rng.choice([2, 4, 8]),
                                   big_txt=sizes, response=False), "tc-query"))
    for _ in range(n // 8):
        # instance-name escaping on registration
        l = rng.choice(LABELS + [b"a.b.c", b"..", b"\\\\", b"x\\.", b"\\.x", "é.ü".encode()])
        if rng.random() < 0.5:
            l = bytes(rng.choice([0x2e, 0x5c, 0x61, 0x20, 0xc3, 0xa9][:4]) for _ in range(rng.choice([1, 2, 3, 6, 20])))
        ty = rng.choice([b"_http._tcp.local.", b"_x._udp.local.", b"_printer._sub._ipp._tcp.local."])
        cases.append(Case("txt_esc %s %s" % (hx(l), hx(ty)), "escape"))
    for _ in range(n // 16):
        # many questions (fits / does not fit)
        cases.append(Case(msg_line(rng, rng.choice([30, 200, 600]), 0, 0, 0), "many-questions"))
    return cases


def nontrivial(line, result):
    return "an=- ns=- ar=-" not in line or "q=-" not in line


def known_class(line, impl_result, mon_result):
    if mon_result.startswith("FAIL[nofit]"):
        return "C02-D6-question-section-exceeds-packet"
    return None


def search(rng, problems, disagreeing):
    return generate(rng, "quick")
