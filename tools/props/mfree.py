"""Model-free families for the scheduler-group checks (search support, no model involved).

fu  (C19): "at most three follow-up queries half a second apart for a newly found instance".
    Browse a type; a PTR-only response makes the instance found but unresolved; while the
    follow-ups run, further records of the still unresolved instance arrive (TXT alone, a
    subtype PTR, the same PTR again) - never an SRV, so it stays unresolved. Over the next
    seconds the daemon may ask for the instance name at most three times, 500 ms apart.
nh  (C13): stop_resolve_hostname for host names with NON-ASCII upper-case letters, in the
    spelling that started the search: SearchStopped is delivered and is the last event, and no
    A/AAAA query for that name leaves afterwards (the models fold ASCII only)."""
import json

import dnsgen
from vlib import Case

IFACES = [{"name": "eth0", "index": 2, "addr": "192.168.1.10", "mask": "255.255.255.0"}]


def _resp(records):
    p = dnsgen.Packet(compress=True)
    for (name, ty, cls, ttl, rd) in records:
        p.rr(1, name, ty, cls, ttl, rd)
    return p.finish(flags=0x8400).hex()


def _dg(hexs):
    return {"if": 2, "v4": True, "src": "192.168.1.50:5353", "hex": hexs}


def gen_fu(rng, hid):
    t = 1000000
    ty = [b"_fu", rng.choice([b"_tcp", b"_udp"]), b"local"]
    tys = dnsgen.dotted(ty).decode()
    inst = [rng.choice([b"Unit", b"i 2", b"Caps Lock"])] + ty
    steps = [{"t": t, "calls": [{"op": "set_ip_check_interval", "secs": 0}, {"op": "browse", "ty": tys, "ch": "b"}]}]
    t += rng.choice([50, 400, 1300])
    steps.append({"t": t, "dgrams": [_dg(_resp([(ty, 12, 1, 4500, dnsgen.rd_ptr(inst))]))]})
    found = t
    extra = rng.choice(["none", "txt", "txt", "subptr", "ptr-again", "txt-twice"])
    if extra != "none":
        t2 = found + rng.choice([100, 300, 600, 900, 1200])
        recs = {"txt": [(inst, 16, 0x8001, 4500, dnsgen.rd_bytes(b"\x03a=1"))],
                "txt-twice": [(inst, 16, 0x8001, 4500, dnsgen.rd_bytes(b"\x03a=1"))],
                "subptr": [([b"_s", b"_sub"] + ty, 12, 1, 4500, dnsgen.rd_ptr(inst))],
                "ptr-again": [(ty, 12, 1, 4500, dnsgen.rd_ptr(inst))]}[extra]
        steps.append({"run_until": t2})
        steps.append({"t": t2, "dgrams": [_dg(_resp(recs))]})
        if extra == "txt-twice":
            steps.append({"run_until": t2 + 250})
            steps.append({"t": t2 + 250, "dgrams": [_dg(_resp([(inst, 16, 0x8001, 4500, dnsgen.rd_bytes(b"\x03a=2"))]))]})
    steps.append({"run_until": found + 4000})
    return json.dumps({"id": hid, "mf": "fu", "inst": dnsgen.dotted(inst).decode(), "found": found, "t0": 1000000,
                       "daemons": [{"seed": 1, "ifaces": IFACES}], "steps": steps}, separators=(",", ":"))


NA_HOSTS = ["BÜCHER-Regal.local.", "ÉCOLE.local.", "Ünit-Ж.local.", "ÑANDÚ-7.local.", "bücher.local.", "Plain-ASCII.local."]


def gen_nh(rng, hid):
    t = 1000000
    host = rng.choice(NA_HOSTS)
    steps = [{"t": t, "calls": [{"op": "set_ip_check_interval", "secs": 0},
                                {"op": "resolve_hostname", "host": host, "timeout": None, "ch": "r"}]}]
    t += rng.choice([100, 1500, 3500])
    steps.append({"run_until": t})
    steps.append({"t": t, "calls": [{"op": "stop_resolve_hostname", "host": host}]})
    stop = t
    if rng.random() < 0.4:
        # resolve again in another spelling a little later: only the new search may query
        t += rng.choice([300, 2500])
        steps.append({"run_until": t})
        steps.append({"t": t, "calls": [{"op": "resolve_hostname", "host": host, "timeout": 3000, "ch": "r2"}]})
    steps.append({"run_until": stop + 20000})
    return json.dumps({"id": hid, "mf": "nh", "host": host, "stop": stop, "t0": 1000000,
                       "daemons": [{"seed": 1, "ifaces": IFACES}], "steps": steps}, separators=(",", ":"))


def generate(rng, tier, kinds):
    out = []
    n = 60 if tier == "quick" else 1000
    for k in kinds:
        g = {"fu": gen_fu, "nh": gen_nh}[k]
        out += [Case(g(rng, "mf%s%d" % (k, i)), "mfree-" + k) for i in range(n)]
    return out


def is_mf(line):
    return line.startswith('{"id":"mf')


def project(line, raw):
    h = json.loads(line)
    o = json.loads(raw)
    if "error" in o:
        return "MF harness-error"
    tr = o["trace"]
    for r in tr:
        if r.get("panicked") or r.get("stuck"):
            return "MF daemon-died"
    if h["mf"] == "fu":
        inst = h["inst"].lower()
        times = []
        for r in tr:
            if r.get("now", 0) <= h["found"]:
                continue
            hit = False
            for s in r.get("sent", []):
                p = dnsgen.parse_packet(bytes.fromhex(s["hex"])) if s["hex"] != "-" else None
                if p and not (p["flags"] & 0x8000):
                    for (n, _qt, _c) in p["q"]:
                        if dnsgen.dotted(n).decode("utf-8", "replace").lower() == inst:
                            hit = True
            if hit:
                times.append(r["now"] - h["found"])
        if len(times) > 3:
            return "MF followups more-than-three at +%s ms" % times
        for a, b in zip(times, times[1:]):
            if b - a < 500:
                return "MF followups closer-than-500ms at +%s ms" % times
        return "MF ok"
    if h["mf"] == "nh":
        host = h["host"].lower()
        evs = []
        for r in tr:
            for e in (r.get("events") or {}).get("r", []):
                evs.append((r["now"], e.get("e")))
        names = [e for (_t, e) in evs]
        if "SearchStopped" not in names:
            return "MF stop no-SearchStopped events=%s" % names[-4:]
        if names[-1] not in ("SearchStopped", "<closed>") or names.count("SearchStopped") != 1:
            return "MF stop SearchStopped-not-last events=%s" % names[-4:]
        second = None
        for st in h["steps"]:
            for c in st.get("calls", []):
                if c["op"] == "resolve_hostname" and c.get("ch") == "r2":
                    second = st["t"]
        for r in tr:
            now = r.get("now", 0)
            if now <= h["stop"] or (second is not None and now >= second):
                continue
            for s in r.get("sent", []):
                p = dnsgen.parse_packet(bytes.fromhex(s["hex"])) if s["hex"] != "-" else None
                if p and not (p["flags"] & 0x8000):
                    for (n, _qt, _c) in p["q"]:
                        if dnsgen.dotted(n).decode("utf-8", "replace").lower() == host:
                            return "MF stop query-after-stop at %d" % now
        return "MF ok"
    return "MF unknown-family"


def model_input(line, raw):
    return "mf"
