"""C03  A resolved service only ever shows live data that was actually received."""
import browser_common as bc
from browser_common import HARNESS_ARGS, PER_SHARD  # noqa: F401

ID = "C03"
CLAIMED = True
MODEL_GROUP = "browser"
THEOREM_FILE = "Props/C03.v"
LEVEL_TEXT = ("Coq theorems: (1) for every history (any datagrams, any API calls, any iteration times that do not run "
              "backwards) every ServiceResolved the model of the cache + browser logic emits passes chk_C03 - host/port, "
              "every (address, interface) pair and the TXT come from delivered records that are the latest delivery of "
              "their identity, have more than 1 s of TTL left (a goodbye never has) and were not displaced by a "
              "cache-flush more than 1 s after them; host non-empty, >= 1 address; (2) cache invariant cache_from_history; "
              "(3) add_or_update / eviction specifications; (4) round 6, clause 'as the network LAST advertised it': "
              "chk_C03_last (host/port from the most recently received current SRV record, TXT from the most recently "
              "received current TXT record) is a second extracted checker run on model and implementation; it is REFUTED for "
              "the faithful model in the class known_reannounced (records delivered in the pattern A, B, A; witness "
              "C03_known_reannounced_witness, finding C03-reannounced-record-keeps-position, the daemon agrees); proved for all "
              "caches are the facts it rests on: resolve_service_from_cache uses the first SRV / TXT of the Vec that does not "
              "expire within a second, a new record goes in front of the bucket, a record announced again is rewritten in "
              "place. The model is tied to the Rust daemon by the K6 simulation: "
              "model trace = projected implementation trace on every generated history, and the same extracted chk_C03 "
              "runs on the implementation's events")
TECHNIQUE = ("machine-checked proof in Coq (invariant over all histories of the cache/browser model; history-level checker "
             "chk_C03) + model/implementation correspondence on the simulated daemon")
LEVELS = ("K6 sim: one real daemon thread in the simulated world, responders played by injected response packets; per "
          "iteration the channel events (canonical order), the non-PTR questions and the cache sizes (get_metrics) are "
          "compared with the model's prediction")
RULE = ("histories of 1-3 instances on 1-2 interfaces: announcements (one packet, or any partition/order/duplication over "
        "packets and iterations), updates of port/TXT/addresses with and without cache-flush, goodbyes (full, partial, "
        "duplicated), refreshes, foreign and not-for-us packets, the same records on a second interface, verify, "
        "stop/re-browse; quick updates (SRV / TXT update within 1 s of the announcement or without cache-flush bit, so that "
        "two live records of one name and type coexist, then optionally the older record announced again, then a new "
        "address); TTLs 1 s .. 4500 s; timer-exact runs (run_until) and late wake-ups; horizons up to 4700 s; "
        "non-trivial = the daemon emitted at least one event or follow-up question; distinct = distinct history lines")
TRUSTED = bc.TRUSTED_COMMON  # model follows /repo fixes up to 48ec5c0 (follow-ups only while a PTR points to the instance)
PARTIAL = ("The clause 'last advertised' (chk_C03_last) is NOT a theorem over histories: outside the class known_reannounced "
           "it is checked by the monitor on model and implementation for every generated history (a proof needs, beyond "
           "the C03 invariant, completeness of the cache - every current for-us delivery is stored - bucket order = order "
           "of first insertion, and stop_browse as a further class). Which deliveries of the current iteration precede an "
           "event, and whether a record of a not-for-us response was stored, is not observable: the clause accepts any "
           "prefix, and any not-for-us record after the last for-us one. "
           "The theorem is about the model; its tie to the Rust code is the correspondence run (differential, not a proof). "
           "Inside one iteration the order of events and deliveries is not observable, so chk_C03 accepts a record "
           "delivered in the same iteration as justification. 'Tagged with the interfaces it was received on' is checked "
           "as soundness (every tagged interface has a justified delivery); completeness of the tag set is covered by the "
           "model/implementation equality only. Interface removal (C18) and hostname resolvers are outside the model.")

project = bc.project_line
model_input = bc.model_input_line
nontrivial = bc.nontrivial_obs
shrink = bc.shrink_hist


KNOWN = {
    "notlast:reannounced-older": "C03-reannounced-record-keeps-position",
}


def known_class(line, impl_result, mon_result):
    return bc.known_from_tags(mon_result, KNOWN)


def generate(rng, tier):
    k = 1 if tier == "quick" else 12
    return bc.mk_cases(rng, [
        ("life", 1500 * k, bc.gen_lifecycle),
        ("order", 300 * k, bc.gen_order),
        ("follow", 200 * k, bc.gen_followup),
        ("long", 6 * k, bc.gen_long),
        ("case", 30 * k, lambda r, i: bc.gen_special(r, i, "case")),
        ("ptrvar", 10 * k, lambda r, i: bc.gen_special(r, i, "ptr-variant")),
        ("quick", 150 * k, lambda r, i: bc.gen_special(r, i, "quick-update")),
    ])


def search(rng, problems, disagreeing):
    return generate(rng, "quick")
