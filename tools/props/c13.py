"""C13  Stopping a search really stops it, and each channel follows its protocol."""
import vlib
import schedlib
import stopforget
import mfree

ID = "C13"
CLAIMED = True
MODEL_GROUP = "sched"
THEOREM_FILE = "Props/C13.v"
# the cache clause ("forgets the records it cached for the stopped browse") lives in the life group\'s model
EXTRA_THEOREM_FILES = ["Props/C13Cache.v"]
PARAMS = ["sched", "life"]
LEVEL_TEXT = ("Coq theorems over a Gallina model of the daemon's scheduling core: for every well-formed history of "
              "browse / browse again / browse_cache / stop_browse / resolve_hostname (any timeout, mixed-case names) / "
              "stop_resolve_hostname / shutdown calls and iteration times (early, on time or late) "
              "every channel receives exactly the events the history demands (SearchStarted first; SearchStopped "
              "exactly when stopped, timed out - after SearchTimeout - or shut down, once and last; repeated "
              "SearchStarted only while the search is current) and once a search is over no query for it leaves in any "
              "continuation (chk_C13); state-level: after the stop no retransmission and no listener for the key "
              "remain, host keys are lower-cased; a cache-only browse sends and queues nothing. The model is tied to "
              "the Rust on every run (regenerated constants pinned by proof; the real daemon thread driven in the "
              "simulated world, per-iteration projection compared); chk_C13 runs as monitor on the implementation's traces")
TECHNIQUE = ("machine-checked proof in Coq (refinement of a state-machine model to per-channel and per-question "
             "specifications by invariants over all histories) + model/implementation correspondence")
LEVELS = ("K6 (real ServiceDaemon + daemon thread under verif-hooks, one loop iteration at a time on the virtual "
          "clock; every iteration compared: queries per interface/family, events per channel incl. disconnection, "
          "requested wake-up)")
RULE = ("histories of browse / re-browse / browse_cache / stop_browse (also of unknown types) / resolve_hostname "
        "(mixed-case names, timeouts 0,1,999,1000,1001,3001,7001,10^4,2^62,u64::MAX,none) / re-resolve in another "
        "spelling / stop_resolve_hostname in any spelling / set_ip_check_interval / shutdown (with calls queued "
        "behind it) at random times, explicit early and late iterations, wake-exact steps and timer-exact silent "
        "runs observed up to 3 days after the stop, on 1-2 interfaces with IPv4 and IPv6; non-trivial = at least two "
        "iterations and at least one query or event; distinct = distinct histories")
TRUSTED = [
    "Coq 8.16.1 kernel (coqc); vm_compute only in the refutation witness and the non-vacuity Example",
    "axioms: none (Print Assumptions: Closed under the global context for every theorem)",
    "extraction (ExtrOcamlBasic only, no Extract Constant) + ocaml/sched/driver.ml (parsing/printing of histories and traces)",
    "tools/params/sched.py + tools/extract_params.py (comparisons `now >= t` of the deadline test, `next_time < timeout` "
    "of the re-queue guard, `*v > now` of the timer pop; back-off constants)",
    "hooks: cargo feature verif-hooks (virtual clock, per-iteration gate, captured egress, simulated interface table); "
    "the harness reads the real flume receivers after every iteration and reduces SearchStarted payloads to the type / host",
    "tools/props/schedlib.py: alignment of history steps with iterations and projection of the JSON trace",
    "modelled, not verified: browse and hostname resolution as one code path parameterised by `host`; the two listener "
    "hash maps as one association list (cross-channel order of events inside one iteration is not compared); "
    "listener.send never fails (receivers are held and drained by the caller); to_lowercase on ASCII only",
]
PARTIAL = ("scheduler slice: histories without incoming datagrams (cache empty). 'Forgets the cached records' is proved "
           "on the cache model of C11/C12 (Props/C13Cache.v, over all its histories): what remove_service_type removes "
           "(the PTR Vec of the type, SRV/TXT of the instances it named, addresses of their hosts unless another SRV "
           "still names the host) and leaves, that no PTR/SRV/TXT query is sent without an open browse, and that a "
           "later browse sees only what arrived since; the model-free stop-forgets family observes the same on the real "
           "daemon. ServiceFound-before-ServiceResolved with datagrams is clause F of chk_C04 (browser group), not "
           "repeated here. A channel whose search is REPLACED by a "
           "newer browse/resolve of the same key gets no SearchStopped: it is disconnected silently (the daemon drops "
           "its sender); chk_C13 demands 'no further event' there - reported as an observation, the text lists "
           "replacement under C19 ('replaces the earlier search'), not among the stop causes. Channel disconnection "
           "(<closed>) is compared in the correspondence but is not part of chk_C13.")
HARNESS_ARGS = ["sim"]
PER_SHARD = 8

nontrivial = schedlib.nontrivial


def project(line, raw):
    if mfree.is_mf(line):
        return mfree.project(line, raw)
    return stopforget.project(line, raw) if stopforget.is_sf(line) else schedlib.project(line, raw)


def model_input(line, raw):
    if mfree.is_mf(line):
        return mfree.model_input(line, raw)
    return stopforget.model_input(line, raw) if stopforget.is_sf(line) else schedlib.model_input(line, raw)


def generate(rng, tier):
    # scheduler-slice histories (model + correspondence) plus the model-free
    # "stop forgets the cached records" family (tools/props/stopforget.py)
    return (schedlib.generate_histories(rng, tier, ID) + stopforget.generate(rng, tier)
            + mfree.generate(rng, tier, ["nh"]))


def shrink(line, still_bad):
    # the model-free families carry their expectation in the history itself: not shrunk
    if stopforget.is_sf(line) or mfree.is_mf(line):
        return line
    return vlib.shrink_history(line, still_bad)


def known_class(line, impl, mon):
    # exactly the subtype PTR records of the stopped type are left in the cache (and reported to
    # a later browse of the subtype); any other leftover is a new violation
    if stopforget.is_sf(line) and impl.startswith("SF leftover-subptr"):
        return "C13-subtype-ptr-survives-stop"
    if stopforget.is_sf(line) and impl.startswith("SF leftover-addr-srv-expired"):
        return "C13-address-survives-stop-after-srv-expiry"
    return None


def search(rng, problems, disagreeing):
    return schedlib.generate_histories(rng, "thorough", ID + "s")[:1500]
