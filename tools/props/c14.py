"""C14  Shutdown is clean, final and safe under concurrent use."""
import itertools
import os
import sys

sys.path.insert(0, os.path.dirname(os.path.dirname(os.path.abspath(__file__))))
import vlib
from vlib import Case

ID = "C14"
CLAIMED = True
MODEL_GROUP = "safety"
THEOREM_FILE = "Props/C14.v"
HARNESS_ENV = {"VERIF_WATCHDOG_MS": "120000"}
PER_SHARD = 30
LEVEL_TEXT = ("Coq theorems over a Gallina model of the bounded(100) command channel (FIFO list, try_send results, "
              "disconnected flag), the public calls (argument validation of Model/SafetyNames.v, then send_cmd; status() "
              "short-circuit), the daemon's command loop of one iteration (Exit -> cleanup, commands behind Exit dropped, "
              "receiver gone, then Shutdown on Exit's channel) and the bounded(10) listener channels: for ALL histories "
              "(any number of steps, any calls, any queue contents, every position of Exit) in which no listener "
              "overflows, the observed trace satisfies chk_C14 - cleanup exactly once for exactly the state reached by the "
              "commands in front of Exit, nothing behind Exit executes, every accepted call is answered or closed within "
              "its iteration, after a client has read Shutdown every call fails with DaemonShutdown and status() reads "
              "Shutdown. The statement without the no-overflow hypothesis is refuted with a witness that blocks the real "
              "daemon thread. The same extracted chk_C14 monitors the real daemon (real thread, real flume channels) "
              "driven one iteration at a time; model and implementation observations are compared on every history")
TECHNIQUE = ("machine-checked proof in Coq (invariant over histories: queue empty between iterations, tracked state = "
             "daemon state; drain = sequential execution cut at Exit) + model/implementation correspondence + monitor")
LEVELS = ("K7/K6: real ServiceDaemon + daemon thread in the simulated world, commands issued through the public API "
          "while the daemon is held at the gate, one loop iteration per step, every reply/event receiver drained after "
          "each step; plus real-thread stress runs (search support, outside the model)")
RULE = ("histories of 1..6 steps with 0..8 calls each over browse, browse_cache, stop_browse, resolve_hostname, "
        "stop_resolve_hostname, register, unregister, monitor, status, get_metrics, set_service_name_len_max, "
        "set_ip_check_interval, verify, shutdown (at every position, repeated, followed by more "
        "calls in the same and in later steps), refused arguments, PTR announcements filling listeners; exhaustive: "
        "every sequence of <= 3 (quick) / <= 5 (thorough) calls over a 6-7 symbol alphabet in one step followed by a "
        "probe step; queue-full steps (100+ calls); non-trivial = at least one call; distinct = distinct case lines")
TRUSTED = [
    "Coq 8.16.1 kernel (coqc); vm_compute only in Examples and in the refutation witness",
    "axioms: none (Print Assumptions: Closed under the global context)",
    "extraction (ExtrOcamlBasic only) + ocaml/safety/driver.ml; the monitor is the extracted chk_C14",
    "tools/extract_params.py: bounded(100) / bounded(10) capacities and the validator guards -> Gen/ParamsSafety.v, pinned in Proofs",
    "hooks: per-iteration gate, injected ingress, captured egress (DESIGN.md section 4); the signal socket is not part of the test",
    "modelled, not verified: flume semantics (try_send checks `disconnected` before capacity; a bounded `send` blocks "
    "when full; a receiver sees `Disconnected` once every sender is gone and the buffer is empty); which senders the "
    "daemon holds (service_queriers, hostname_resolvers, retransmissions, monitors) reduced to 'held or not'",
    "harness/src/safety.rs projects events to Started(first only)/Found/Stopped/status/unregister/metrics/closed and "
    "goodbyes to SRV owner names with TTL 0 in the step in which the daemon ended",
    "environment input of the model: which own services were announced in which step (SRV with a real TTL in a "
    "response sent), read from the implementation's trace (model_input); probing and the registry are not modelled here",
]
PARTIAL = ("The real-thread part (stress_shutdown, stress_cleanup) is search support, not proof: many runs with real "
           "client threads against a freely iterating daemon, with few and with 100-300 announced services (long "
           "clean-up); a run with more than 2 stranded calls is reported as a violation, 1-2 as the known finding. "
           "Granularity of the model is whole loop iterations: calls are issued while the daemon is between iterations and clients "
           "read their channels between iterations. Real-thread interleavings inside an iteration (a try_send between "
           "the daemon's last try_recv and the drop of the receiver; a client blocked in recv while another thread shuts "
           "down) are outside the model and are exercised only by the stress_shutdown runs (search support; they do "
           "find a stranded command, see known findings). Memory ordering inside flume, hostname-resolution timeouts, "
           "retransmissions and monitor event contents are not modelled. The positive theorem carries the hypothesis "
           "that no listener is sent more than 10 events within one iteration (never_stuck).")


def hx(s):
    b = s.encode() if isinstance(s, str) else s
    return b.hex() if b else "-"


TYPES = ["_x._tcp.local.", "_y._udp.local.", "_X._tcp.local.", "_abcdefghijklmnop._tcp.local."]
BAD_TYPES = ["_x._tcp.local", "x", "a" * 64 + "._tcp.local."]
HOSTS = ["h.local.", "H.local.", "g.local."]
BAD_HOSTS = ["h.example.", "a" * 64 + ".local.", ".local."]
INSTS = ["inst", "Inst", "other", "ab"]


def full(inst, ty):
    return inst.replace("\\", "\\\\").replace(".", "\\.") + "." + ty


def rand_call(rng, allow_exit=True):
    k = rng.choice(["B", "B", "C", "b", "H", "H", "h", "R", "R", "R", "U", "U", "M", "S", "S", "G", "L", "I", "V",
                    "Bbad", "Hbad", "Rbad", "Lbad"] + (["X"] if allow_exit else []))
    ty = rng.choice(TYPES[:3])
    if k in ("B", "C", "b"):
        return k + hx(ty)
    if k in ("H", "h"):
        return k + hx(rng.choice(HOSTS))
    if k == "R":
        t = rng.choice(TYPES)
        return "R%s:%s:%s" % (hx(rng.choice([t, "_s._sub." + t])), hx(rng.choice(INSTS)), hx(rng.choice(HOSTS)))
    if k == "U":
        return "U" + hx(full(rng.choice(INSTS), rng.choice(TYPES)).upper() if rng.random() < 0.2 else full(rng.choice(INSTS), rng.choice(TYPES)))
    if k == "L":
        return "L%d" % rng.choice([0, 1, 15, 16, 30])
    if k == "Lbad":
        return "L%d" % rng.choice([31, 255])
    if k == "I":
        return "I%d" % rng.choice([0, 1, 5])
    if k == "V":
        return "V" + hx(full("inst", TYPES[0]))
    if k == "Bbad":
        return "B" + hx(rng.choice(BAD_TYPES))
    if k == "Hbad":
        return "H" + hx(rng.choice(BAD_HOSTS))
    if k == "Rbad":
        return "R%s:%s:%s" % (hx(rng.choice(BAD_TYPES + [TYPES[0]])), hx(rng.choice(INSTS + ["a" * 64])), hx(rng.choice(BAD_HOSTS)))
    return k  # M S G X


def rand_history(rng):
    n_steps = rng.choice([1, 2, 3, 4, 6])
    shut_step = rng.randrange(n_steps) if rng.random() < 0.85 else -1
    steps = []
    for s in range(n_steps):
        calls = [rand_call(rng, allow_exit=rng.random() < 0.1) for _ in range(rng.choice([0, 1, 2, 3, 5, 8]))]
        if rng.random() < 0.3:
            calls.append("P%s*%d" % (hx(rng.choice(TYPES[:3])), rng.choice([1, 2, 3, 5])))
        if s == shut_step:
            calls.insert(rng.randrange(len(calls) + 1), "X")
            if rng.random() < 0.2:
                calls.insert(rng.randrange(len(calls) + 1), "X")
        steps.append("%d:%s" % (rng.choice([0, 10, 150, 1000, 1000, 3000]), ",".join(calls)))
    return "c14 " + "/".join(steps)


SMALL = {"B": "B" + hx(TYPES[0]), "R": "R%s:%s:%s" % (hx(TYPES[0]), hx("inst"), hx("h.local.")), "S": "S",
         "U": "U" + hx(full("inst", TYPES[0])), "X": "X", "b": "b" + hx(TYPES[0]), "H": "H" + hx("h.local.")}


def exhaustive(alphabet, max_len):
    out = []
    for n in range(1, max_len + 1):
        for seq in itertools.product(alphabet, repeat=n):
            out.append("c14 0:%s/10:S,%s,M" % (",".join(SMALL[k] for k in seq), SMALL["B"]))
    return out


def fixed():
    ty = hx(TYPES[0])
    reg = SMALL["R"]
    out = [
        # the witness of D19 (repaired): a command queued behind Exit
        "c14 0:X,S/10:S",
        # everything open, then shutdown in the middle of more calls, then calls in later steps
        "c14 0:B%s,C%s,H%s,%s,M,M/100:S,G,X,S,G,B%s,H%s,U%s,M,X/10:S,G,B%s,X,%s/3000:S" % (
            ty, hx(TYPES[1]), hx("h.local."), reg, ty, hx("h.local."), hx(full("inst", TYPES[0])), ty, reg),
        # registered, unregistered, registered again, refused by the length limit, then shutdown
        "c14 0:%s,R%s:%s:%s/10:U%s/10:%s,L30/10:R%s:%s:%s/200:X/10:S" % (
            reg, hx(TYPES[3]), hx("inst"), hx("h.local."), hx(full("inst", TYPES[0])), reg, hx(TYPES[3]), hx("other"), hx("h.local.")),
        # goodbyes only for services that were announced (bd59ecc): announced then shutdown; announced,
        # unregistered and shut down in one iteration; registered again (status reset); never announced
        "c14 0:%s/1000:/10:X/10:S" % reg,
        "c14 0:%s/1000:S/10:U%s,X" % (reg, hx(full("inst", TYPES[0]))),
        "c14 0:%s/1000:/10:%s,X" % (reg, reg),
        "c14 0:%s/1000:/10:%s/3000:X" % (reg, reg),
        "c14 0:%s,X" % reg,
        "c14 0:%s,R%s:%s:%s/3000:/0:U%s/150:X" % (reg, hx(TYPES[1]), hx("other"), hx("g.local."), hx(full("inst", TYPES[0]))),
        # queue full: 100 accepted, then Again (shutdown included), drained, then shutdown
        "c14 0:%s,X,S/10:X,S/10:S" % ",".join(["S"] * 100),
        "c14 0:%s,X,%s/10:S" % (",".join(["G"] * 99), ",".join(["S"] * 5)),
        # listeners with events in the same iteration as the shutdown (within capacity)
        "c14 0:B%s/10:P%s*8,X/10:S" % (ty, ty),
        "c14 0:B%s/10:P%s*8/10:B%s,X" % (ty, ty, ty),
        # ... and one more cached instance overflows the new listener during the clean-up (known finding)
        "c14 0:B%s/10:P%s*9/10:B%s,X" % (ty, ty, ty),
        # a listener overflows: the daemon thread blocks (known finding)
        "c14 0:B%s/10:P%s*10,X,S/10:S,G" % (ty, ty),
        "c14 0:B%s/10:P%s*11/10:S,X" % (ty, ty),
    ]
    return out


def generate(rng, tier):
    quick = tier == "quick"
    cases = [Case(l, "fixed") for l in fixed()]
    if quick:
        cases += [Case(l, "exhaustive") for l in exhaustive("BRSUXb", 3)]
    else:
        cases += [Case(l, "exhaustive") for l in exhaustive("BRSUXbH", 5)]
    for _ in range(1500 if quick else 30000):
        cases.append(Case(rand_history(rng), "random"))
    for i in range(10 if quick else 200):
        cases.append(Case("stress_shutdown %d %d %d" % (rng.choice([2, 4, 8]), rng.choice([20, 40]), rng.randrange(1 << 30)), "stress"))
    # long clean-up (many announced services), many callers that keep their reply receivers
    for i in range(40 if quick else 600):
        cfg = rng.choice(["200 8 100", "200 8 100", "100 8 150", "300 4 100"])
        cases.append(Case("stress_cleanup %s %d" % (cfg, rng.randrange(1 << 30)), "stress-cleanup"))
    return cases


def project(line, raw):
    if line.startswith("stress_shutdown") and raw.startswith("OK "):
        return "OK"
    if line.startswith("stress_cleanup") and raw.startswith("OK ") and raw.endswith(" stranded=0"):
        return "OK"
    return raw


def model_input(line, raw):
    """the model's environment input: which own services were announced in which step
    (probing / registry timing is not part of the C14 model; observed on the wire)"""
    if not line.startswith("c14 ") or "|an=" not in raw:
        return line
    ans = []
    for rec in raw.split(" / "):
        f = [x for x in rec.split("|") if x.startswith("an=")]
        ans.append(f[0][3:] if f else "-")
    return "%s an:%s" % (line, "/".join(ans))


def nontrivial(line, result):
    return any(c in line for c in "BCbHhRUMSGXLIV")


def _overflows(line):
    """does some listener get more than 10 events within one iteration (Python re-statement of
    the model's `deliver`, used only to classify a stuck daemon)"""
    if not line.startswith("c14 "):
        return False
    queriers, found, idx = {}, {}, 0
    for st in line[4:].split("/"):
        toks = [t for t in st.split(":", 1)[1].split(",") if t] if ":" in st else []
        cnt = {}

        def send(ch, n=1):
            cnt[ch] = cnt.get(ch, 0) + n
            return cnt[ch] > 10
        for t in toks:
            if t[0] == "P":
                ty, n = t[1:].split("*")
                if ty in queriers:
                    found[ty] = found.get(ty, 0) + int(n)
                    if send(queriers[ty], int(n)):
                        return True
        for t in toks:
            if t[0] == "P":
                continue
            k, arg, me = t[0], t[1:], idx
            idx += 1
            if k in "BC":
                queriers[arg] = me
                if send(me, 1 + found.get(arg, 0) + (1 if k == "C" else 0)):
                    return True
            elif k == "b":
                if arg in queriers:
                    if send(queriers.pop(arg)):
                        return True
                    found.pop(arg, None)
            elif k == "X":
                if any(send(ch) for ch in list(queriers.values())):
                    return True
                return False
    return False


# The known window (between the daemon's last try_recv and the drop of the receiver) is a few
# instructions long and does not depend on the clean-up: measured on the unchanged tree over
# 840 runs of `stress_cleanup 200 8 100` (8 callers): 836 runs with 0 stranded calls, 4 runs with
# 1, none with more. A change that lets commands arrive during cleanup() strands 11..100 calls
# per run in the same configurations. More than STRANDED_KNOWN_MAX stranded calls is therefore
# not the known finding but a new violation.
STRANDED_KNOWN_MAX = 2


def known_class(line, impl, mon):
    if line.startswith("stress_shutdown") and impl.startswith("FAIL pending-forever"):
        # this variant stops at the first stranded call: exactly one
        return "C14-command-stranded-after-final-drain"
    if line.startswith("stress_cleanup") and " stranded=" in impl:
        try:
            k = int(impl.rsplit("stranded=", 1)[1])
        except ValueError:
            return None
        return "C14-command-stranded-after-final-drain" if 1 <= k <= STRANDED_KNOWN_MAX else None
    if "dead=stuck" in impl and _overflows(line):
        return "C14-full-listener-blocks-daemon"
    return None


def search(rng, problems, disagreeing):
    return generate(rng, "thorough")[:20000]
