"""C12  The daemon wakes itself for all time-driven work and never spins."""
import vlib
import schedlib
import wakediff

ID = "C12"
CLAIMED = True
MODEL_GROUP = "sched"
THEOREM_FILE = "Props/C12.v"
# statements other layers' models contribute to this property (same rules as Props/C12.v)
EXTRA_THEOREM_FILES = ["Props/C12Cache.v", "Props/C12Registry.v"]
PARAMS = ["sched", "life", "registry"]
LEVEL_TEXT = ("Coq theorems over a Gallina model of the daemon's scheduling core, by an invariant over ALL histories of "
              "API calls and iteration times (no assumption on the schedule): in every reachable state every pending "
              "query retransmission, every hostname-resolution deadline and the next interface check has a timer at "
              "its due time, so the requested wake-up exists and is no later (wake_covers_work); after every "
              "iteration the requested wake-up lies strictly in the future - except wake-up = now right after a "
              "resolve_hostname with timeout 0 - for every interface-check interval incl. 0, very large and changed at "
              "run time (no_spin). The model is tied to the Rust on every run (regenerated constants pinned by proof; "
              "the real daemon thread driven in the simulated world, the wake-up requested at every iteration compared "
              "exactly); chk_C12 runs as monitor on the implementation's traces. Cache layer (Props/C12Cache.v, over ALL "
              "histories of the daemon-level cache model of C11 extended with the timers the daemon pushes per record): "
              "whenever a refresh query (80/85/90/95 % mark), an expiry with its removal event, or the one-second "
              "expiry after a cache-flush / goodbye is due at time t, the timer set holds t; granted the wake-up it "
              "asks for, the daemon does that work at its due time. Registry layer (Props/C12Registry.v, daemon model of "
              "the probing registry): a pending probe step, announcement repeat or goodbye repeat at time t implies the "
              "model's due work is at most t, and no iteration leaves overdue work behind, over all histories")
TECHNIQUE = ("machine-checked proof in Coq (inductive invariant of a state-machine model over all histories) + "
             "model/implementation correspondence")
LEVELS = ("K6 (real ServiceDaemon + daemon thread under verif-hooks; the gate reports the earliest timer at every "
          "iteration; requested wake-up, queries and events compared per iteration)")
RULE = ("histories of browse / resolve_hostname (timeouts incl. 0) / stop / shutdown / set_ip_check_interval "
        "(default, 0, 1, 2, 5, 60, 4294967 s, changed mid-run) calls at random times, explicit early and late "
        "iterations, wake-exact steps and timer-exact silent runs from seconds to 3 days (default interval: up to "
        "2 h quick / 3 days thorough), on 1-2 interfaces; non-trivial = at least two iterations and at least one "
        "query or event; distinct = distinct histories")
TRUSTED = [
    "Coq 8.16.1 kernel (coqc); vm_compute only in the non-vacuity Example",
    "axioms: none (Print Assumptions: Closed under the global context for every theorem)",
    "extraction (ExtrOcamlBasic only, no Extract Constant) + ocaml/sched/driver.ml",
    "tools/params/sched.py + tools/extract_params.py (`*v > now`, `now >= t`, the three branches of the interface-check "
    "re-arming, `interval_in_secs as u64 * 1000`, default 5 s, back-off constants)",
    "hooks: cargo feature verif-hooks: the gate replaces poll and reports peek_earliest_timer(); what poll does with "
    "the timeout (1 ms floor for timers in the past, mio) is outside",
    "tools/props/schedlib.py: alignment of history steps with iterations and projection of the JSON trace",
    "modelled, not verified: BinaryHeap as a multiset; time inside one iteration does not advance; "
    "check_ip_changes does nothing when the interface table is unchanged",
]
PARTIAL = ("time-driven work covered by theorems: query retransmissions, hostname-resolution deadlines, the interface "
           "check (scheduler model), record refresh and expiry with their events and the cache-flush / goodbye second "
           "(cache model, Props/C12Cache.v: its per-record timer log is a model of the pushes in handle_response / "
           "refresh_active_services; the real heap is only observed through the requested wake-up, compared in the "
           "timer-exact K6 runs of C11 and by the exact-vs-dense comparison here), probe steps, announcement repeats and "
           "goodbye repeats (registry daemon model, Props/C12Registry.v: the model has no heap of its own, its wake-up "
           "request is its due work; the real daemon's requested wake-up is held against it by chk_C07 code 34 and "
           "chk_C09 code 4 on every K6 run). Verify deadlines and follow-up queries need the browser layer: for those "
           "the check has no theorem; for all layers it also runs the model-free exact-vs-dense comparison (tools/props/wakediff.py: two "
           "identical daemons, one woken exactly as asked, one more often; the exact one must never act later) and a "
           "bound on iterations per second, as search support. 'Number of iterations "
           "per unit of virtual time' is proved as: every wake-up moves strictly forward (a stale timer of a stopped "
           "search or of a changed interval still causes one wake-up without work - observed, not a spin). "
           "The granted wake-up is a parameter of the theorems (any later time is allowed).")
HARNESS_ARGS = ["sim"]
PER_SHARD = 8

nontrivial = schedlib.nontrivial


def project(line, raw):
    return wakediff.project(line, raw) if wakediff.is_wd(line) else schedlib.project(line, raw)


def model_input(line, raw):
    return wakediff.model_input(line, raw) if wakediff.is_wd(line) else schedlib.model_input(line, raw)


def generate(rng, tier):
    # scheduler-slice histories (model + correspondence) and the model-free exact-vs-dense
    # comparison over histories with caches, registrations and injected traffic
    return schedlib.generate_histories(rng, tier, ID) + wakediff.generate(rng, tier)


def shrink(line, still_bad):
    return vlib.shrink_history(line, still_bad)


def search(rng, problems, disagreeing):
    return schedlib.generate_histories(rng, "thorough", ID + "s")[:1500]
