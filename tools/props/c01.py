"""C01  Decoding any datagram is safe, terminating and bounded."""
import itertools
import struct
from vlib import Case
import dnsgen

ID = "C01"
CLAIMED = True
LEVEL_TEXT = ("Coq theorems over a Gallina model of DnsIncoming::new, for every list of numbers as datagram: no panic "
              "(every index/slice in range), no loop beyond explicit fuel = datagram length + 1 per level, output counts "
              "bounded by the datagram length, names bounded, records read from inside the datagram; the model is "
              "compared with the real decoder on every run (valid, mutated, hostile grammar, random datagrams; "
              "exhaustive small alphabet in the thorough tier)")
TECHNIQUE = "machine-checked proof in Coq (totality and bounds by induction on fuel/offset measures) + model/implementation correspondence"
MODEL_GROUP = "codec"
THEOREM_FILE = "Props/C01.v"
LEVELS = "K1-decode (DnsIncoming::new on raw datagrams, full decoded message compared)"
RULE = ("datagrams from five families: uniformly random, mutations/truncations of valid packets, "
        "valid packets, grammar-generated hostile packets (arbitrary counts, RDLENGTH, pointer graphs), "
        "pointer-graph tables (slots pointing at each other in every direction, entered through a pointer), "
        "headers whose counts exceed the body (with the largest single allocation measured), names of "
        "non-UTF-8 labels (every segment of a decoded name must occur in the datagram), "
        "and (thorough) every string over a 6-byte alphabet up to a fixed length after a header; "
        "non-trivial = longer than a header; distinct = distinct datagrams")
TRUSTED = [
    "Coq 8.16.1 kernel (coqc)",
    "axioms: none (Print Assumptions: Closed under the global context for every theorem)",
    "extraction (ExtrOcamlBasic only) + ocaml/driver.ml for correspondence and monitors",
    "hooks: verif-hooks facade (decode returns a field-by-field copy of DnsIncoming)",
    "modelled, not verified: bytes as N, String as UTF-8 byte list; memory is modelled as output size; "
    "wall-clock time as loop iterations bounded by explicit fuel that is a function of the datagram length; "
    "the 8972-byte receive buffer and truncate(sz) in handle_read are outside this check",
]
PARTIAL = ("allocation is not modelled: the harness meters the decoder's allocations and a monitor clause bounds the "
           "largest single request linearly in the datagram length (search support, not proof). "
           "'time and memory proportional' is proved as: every loop of the decoder finishes within "
           "fuel = datagram length + 1 per nesting level (names: jumps x label runs), record/question counts "
           "bounded by the datagram length (not by header counts); name length bound is quadratic in the "
           "datagram length (compression can legitimately expand names)")

HEADER_RESP_1AN = struct.pack(">HHHHHH", 0, 0x8400, 0, 1, 0, 0)
HEADER_RESP_2AN = struct.pack(">HHHHHH", 0, 0x8400, 0, 2, 0, 0)

D1 = HEADER_RESP_1AN + b"\x00" + struct.pack(">HHIH", 13, 1, 0, 0)
D1b = HEADER_RESP_1AN + b"\x00" + struct.pack(">HHIH", 13, 1, 0, 1) + b"\x00"
D2 = (HEADER_RESP_2AN + b"\x00" + struct.pack(">HHIH", 99, 1, 10, 4) + b"\x01a\xc0\x17"
      + b"\xc0\x17" + struct.pack(">HHIH", 1, 1, 10, 4) + b"\x01\x02\x03\x04")


def merged_label_cases():
    """Names whose dotted presentation re-splits into a label > 63 bytes (a label ending in a
    backslash merges with the next one): rejected by read_name since fix 35da75b."""
    out = []
    for la, lb in ((40, 40), (1, 63), (31, 31), (31, 32), (62, 0), (63, 1)):
        first = b"a" * la + b"\\"
        second = b"b" * lb if lb else b""
        labels = [first] + ([second] if second else []) + [b"_x", b"_tcp", b"local"]
        p = dnsgen.Packet(compress=False)
        p.rr(1, [b"_x", b"_tcp", b"local"], 12, 1, 120, dnsgen.rd_ptr(labels))
        out.append(p.finish(flags=0x8400))
        p = dnsgen.Packet(compress=False)
        p.question(labels, 12)
        out.append(p.finish(flags=0))
    return out


def case(b, tag):
    return Case("dec " + (b.hex() if b else "-"), tag)


def rdata_prefix_cases():
    """Boundary family: for every record type with a decoder, a valid RDATA cut at every prefix
    length (RDLENGTH rewritten to match), as the last record so that the datagram ends exactly
    there, and once more followed by one spare byte."""
    out = []
    host = b"\x01h\x05local\x00"
    rdatas = {
        1: bytes([10, 0, 0, 1]),
        28: bytes(range(16)),
        12: b"\x01i\x02_x\x04_tcp\x05local\x00",
        5: host,
        33: struct.pack(">HHH", 0, 0, 80) + host,
        16: b"\x03k=v\x01f",
        13: b"\x03cpu\x02os",
        47: host + bytes([0, 2, 0x40, 0x01]),
        47 + 1000: b"\xc0\x0c" + bytes([0, 1, 0x40]),   # NSEC with a compressed next name
        255: b"\x01\x02\x03",
    }
    for ty, rd in rdatas.items():
        wire_ty = 47 if ty > 1000 else ty
        for k in range(len(rd) + 1):
            for tail in (b"", b"\x00"):
                body = b"\x01a\x05local\x00" + struct.pack(">HHIH", wire_ty, 0x8001, 120, k) + rd[:k] + tail
                out.append(HEADER_RESP_1AN + body)
                # same record preceded by another one (offsets differ)
                first = b"\x01b\x00" + struct.pack(">HHIH", 1, 1, 1, 4) + b"\x01\x02\x03\x04"
                out.append(HEADER_RESP_2AN + first + body)
    return out


def generate(rng, tier):
    n = 6000 if tier == "quick" else 300000
    cases = [case(D1, "fixed"), case(D1b, "fixed"), case(D2, "fixed"), case(b"", "fixed"), case(b"\x00" * 11, "fixed"),
             case(b"\x00" * 12, "fixed")]
    for b in rdata_prefix_cases():
        cases.append(case(b, "rdata-prefix"))
    for b in merged_label_cases():
        cases.append(case(b, "merged-label"))
    for b in pointer_graph_fixed():
        cases.append(case(b, "pointer-graph"))
    for b in pointer_graph_cases(rng, n // 6):
        cases.append(case(b, "pointer-graph"))
    for b in bad_utf8_cases(rng, n // 30):
        cases.append(case(b, "bad-utf8"))
    for cnt in (0xFFFF, 0x1000, 300):
        # header counts far beyond what the body holds
        for pos in range(4):
            h = [0, 0x8400, 0, 0, 0, 0]
            h[2 + pos] = cnt
            cases.append(case(struct.pack(">HHHHHH", *h), "header-counts"))
            cases.append(case(struct.pack(">HHHHHH", *h) + b"\x00\x00\x01\x00\x01", "header-counts"))
    for _ in range(n // 6):
        cases.append(case(dnsgen.rand_valid_packet(rng), "valid"))
    for _ in range(n // 3):
        cases.append(case(dnsgen.mutate(rng, dnsgen.rand_valid_packet(rng)), "mutated"))
    for _ in range(n // 3):
        cases.append(case(dnsgen.rand_wild_packet(rng), "grammar"))
    for _ in range(n // 12):
        ln = rng.choice([0, 1, 11, 12, 13, 17, 30, 100, 600, 9000])
        cases.append(case(bytes(rng.randrange(256) for _ in range(ln)), "random"))
    for _ in range(n // 12):
        # random after a plausible header
        hdr = struct.pack(">HHHHHH", 0, rng.choice([0, 0x8400]), rng.randrange(3), rng.randrange(3), rng.randrange(2), rng.randrange(2))
        cases.append(case(hdr + bytes(rng.choice([0, 1, 0x61, 0xC0, 0x0C, 0x3F, 12, 33, 16, 255]) for _ in range(rng.choice([5, 12, 30, 60]))), "random-structured"))
    if tier == "thorough":
        alpha = [0x00, 0x01, 0x61, 0xC0, 0x0C, 0x3F]
        for hdr in (struct.pack(">HHHHHH", 0, 0x8400, 0, 1, 0, 0), struct.pack(">HHHHHH", 0, 0, 1, 0, 0, 0)):
            for ln in range(0, 7):
                for t in itertools.product(alpha, repeat=ln):
                    cases.append(case(hdr + bytes(t), "exhaustive-alphabet"))
    return cases


def pointer_graph_cases(rng, n):
    """Pointer graphs: a first record of an unknown type whose RDATA is a table of slots - a
    pointer, a label followed by a pointer, or the root - pointing at each other in every
    direction (chains, self loops, cycles below / above the entry point), and a second record
    whose owner name enters the table through a pointer (optionally after a label). The decoder
    must reject every cycle and terminate; the model says which graphs are names."""
    out = []
    for _ in range(n):
        k = rng.randrange(1, 7)
        kinds = [rng.choice(["p", "p", "lp", "r", "llp"]) for _ in range(k)]
        sizes = {"p": 2, "lp": 4, "r": 1, "llp": 7}
        base = 12 + 1 + 10          # header, root owner name, type/class/ttl/rdlength
        offs = []
        o = base
        for kd in kinds:
            offs.append(o)
            o += sizes[kd]
        rd = b""
        for i, kd in enumerate(kinds):
            tgt = rng.choice(offs + [offs[i]] + ([offs[i - 1]] if i else []) + [12, rng.randrange(0, o + 8)])
            ptr = bytes([0xC0 | (tgt >> 8), tgt & 0xFF])
            rd += {"p": ptr, "lp": b"\x01a" + ptr, "r": b"\x00", "llp": b"\x01b\x02cd" + ptr}[kd]
        rec1 = b"\x00" + struct.pack(">HHIH", rng.choice([99, 10, 255]), 1, 10, len(rd)) + rd
        entry = rng.choice(offs)
        eptr = bytes([0xC0 | (entry >> 8), entry & 0xFF])
        name2 = rng.choice([b"", b"\x01x", b"\x03www"]) + eptr
        rec2 = name2 + struct.pack(">HHIH", 1, 1, 10, 4) + b"\x01\x02\x03\x04"
        out.append(HEADER_RESP_2AN + rec1 + rec2)
    return out


def bad_utf8_cases(rng, n):
    """Names whose labels are mostly bytes that are not UTF-8 (0x80-0xFF, stray continuation
    bytes, truncated sequences): the decoder must reject them or at least never produce a
    name longer than the datagram."""
    out = []
    for _ in range(n):
        labels = []
        for _k in range(rng.randrange(1, 9)):
            ln = rng.choice([1, 2, 7, 21, 40, 63])
            labels.append(bytes(rng.choice([0xFF, 0x80, 0xC3, 0xE2, 0xF0, 0x61, rng.randrange(128, 256)]) for _j in range(ln)))
        p = dnsgen.Packet(compress=False)
        if rng.random() < 0.5:
            p.question(labels + [b"local"], 12)
            out.append(p.finish(flags=0))
        else:
            p.rr(1, [b"_x", b"_tcp", b"local"], 12, 1, 120, dnsgen.rd_ptr(labels + [b"_x", b"_tcp", b"local"]))
            out.append(p.finish(flags=0x8400))
    return out


def pointer_graph_fixed():
    """The shapes a pointer limit that is not moved along lets through: one legal backward hop,
    then a cycle lying entirely below the first target."""
    out = []
    base = 23
    for cyc in ([b"\xc0\x17"],                                  # 23 -> 23
                [b"\xc0\x19", b"\xc0\x17"],                    # 23 -> 25 -> 23
                [b"\x01a\xc0\x17"],                             # label, back to its own start
                [b"\xc0\x17", b"\x01a\xc0\x17"]):
        rd = b"".join(cyc) + b"\xc0\x17"                          # last slot: -> 23
        last = base + len(rd) - 2
        rec1 = b"\x00" + struct.pack(">HHIH", 99, 1, 10, len(rd)) + rd
        for pre in (b"", b"\x01x"):
            name2 = pre + bytes([0xC0, last])
            out.append(HEADER_RESP_2AN + rec1 + name2 + struct.pack(">HHIH", 1, 1, 10, 4) + b"\x01\x02\x03\x04")
    return out


ALLOC_RE = None


def project(line, raw):
    """The implementation's result without the allocation meter's numbers (judged by py_monitor)."""
    i = raw.find(" ~alloc ")
    return raw[:i] if i >= 0 else raw


def py_monitor(line, raw, obs):
    """'Memory proportional to the datagram size', observed: the largest single allocation made
    while decoding (and while the facade copies the result) stays within a linear bound of the
    datagram length. Measured on the unchanged tree: at most 19 x (length + 64) bytes (the
    facade's Vec of decoded records); the bound below leaves a factor of 13."""
    import re
    m = re.search(r" ~alloc max=(\d+) sum=(\d+)", raw)
    if not m or not line.startswith("dec "):
        return None
    ln = 0 if line[4:] == "-" else len(line[4:]) // 2
    mx = int(m.group(1))
    if mx > 256 * ln + 8192:
        return "FAIL alloc: a single allocation of %d bytes while decoding a %d-byte datagram" % (mx, ln)
    # every label of every decoded name is copied from the datagram: each dot-free segment of
    # the name text occurs in the datagram as a contiguous byte string (a decoder that repairs
    # or re-codes label bytes produces text the datagram does not contain)
    if obs.startswith("OK ") and line[4:] != "-":
        data = bytes.fromhex(line[4:])
        parts = obs[3:].split(" | ")
        names = []
        for sec in parts[1:]:
            for rec in sec.split(" ; "):
                toks = rec.split(" ")
                if not toks or not toks[0]:
                    continue
                names.append(toks[0])
                rd = toks[-1] if len(toks) >= 6 else ""
                if rd.startswith("P:"):
                    names.append(rd[2:])
                elif rd.startswith("S:"):
                    names.append(rd.split(",")[-1])
                elif rd.startswith("N:"):
                    names.append(rd[2:].split(",")[0])
        for nh in names:
            try:
                nb = bytes.fromhex(nh)
            except ValueError:
                continue
            for seg in nb.split(b"."):
                if seg and seg not in data:
                    return "FAIL name segment %s of a decoded name does not occur in the datagram" % seg.hex()[:60]
    return None


def nontrivial(line, result):
    return len(line) > 4 + 24


def search(rng, problems, disagreeing):
    return generate(rng, "quick") + [case(dnsgen.rand_wild_packet(rng), "grammar") for _ in range(30000)]
