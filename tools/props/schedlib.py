"""Shared part of the property modules of group `sched` (C19, C13, C12): history generator for
`harness sim`, alignment of history steps with the iterations that took place, projection of
the implementation trace to the canonical observation line, model input line.

Observation (one line, see ocaml/sched/driver.ml):  rec;rec;...  with
  rec = <now>/<wake|->/<exited>/<pkts|->/<events|->
Queries: every query of an iteration must leave once on EVERY (interface index, family) pair of
the simulated interface table, in the same order; the projection checks that and keeps the
common sequence of packets (a packet = its questions `namehex:qtype`).  Anything else (a
response, a packet with records, a packet missing on one interface) is made visible as a
`SPLIT!`/`RESP!`/`!REC` token, which no model output contains.
Events: per channel created by browse / browse_cache / resolve_hostname (numbered 1.. in call
order over the whole history), in delivery order; `<closed>` = X."""
import json
import random

import dnsgen
from vlib import Case

START_OPS = ("browse", "browse_cache", "resolve_hostname")

TYPES = ["_http._tcp.local.", "_ipp._tcp.local.", "_HTTP._tcp.local.", "_x-y._udp.local."]
HOSTS = ["MyHost.local.", "myhost.local.", "MYHOST.LOCAL.", "other.local.", "Printer-1.local.", "a.b.local."]
TIMEOUTS = [None, None, None, 0, 1, 999, 1000, 1001, 3001, 7001, 10000, 4611686018427387904]
U32_SECS_MAX = 4294967  # largest interval (s) the generator uses: 4294967 * 1000 fits any width

IF_SETS = [
    [{"name": "eth0", "index": 2, "addr": "192.168.1.10", "mask": "255.255.255.0"},
     {"name": "eth0", "index": 2, "addr": "fe80::10", "mask": "ffff:ffff:ffff:ffff::"}],
    [{"name": "eth0", "index": 2, "addr": "192.168.1.10", "mask": "255.255.255.0"}],
    [{"name": "eth0", "index": 2, "addr": "192.168.1.10", "mask": "255.255.255.0"},
     {"name": "eth0", "index": 2, "addr": "fe80::10", "mask": "ffff:ffff:ffff:ffff::"},
     {"name": "wlan0", "index": 3, "addr": "10.0.0.7", "mask": "255.0.0.0"},
     {"name": "wlan0", "index": 3, "addr": "fe80::7", "mask": "ffff:ffff:ffff:ffff::"}],
]


def hx(s):
    b = s.encode() if isinstance(s, str) else s
    return b.hex() if b else "-"


# --------------------------------------------------------------------------- generator

class Builder:
    def __init__(self, rng, hid, t0=None, ifaces=None):
        self.rng = rng
        self.t0 = t0 if t0 is not None else rng.choice([1000000, 1000000, 1700000000000])
        self.now = self.t0
        self.steps = []
        self.nch = 0
        self.ifaces = ifaces if ifaces is not None else rng.choice(IF_SETS)
        self.hid = hid
        self.types = rng.sample(TYPES, rng.choice([1, 2, 3]))
        self.hosts = rng.sample(HOSTS[:3], rng.choice([1, 2, 3])) + rng.sample(HOSTS[3:], rng.choice([0, 1]))
        self.active_types = []
        self.active_hosts = []

    def ch(self):
        self.nch += 1
        return "c%d" % self.nch

    def call(self, kind=None):
        rng = self.rng
        if kind is None:
            kind = rng.choice(["browse", "browse", "resolve", "resolve", "stop_browse", "stop_resolve",
                               "browse_cache", "rebrowse", "reresolve", "stop_unknown"])
        if kind == "browse":
            ty = rng.choice(self.types)
            self.active_types.append(ty)
            return {"op": "browse", "ty": ty, "ch": self.ch()}
        if kind == "rebrowse":
            ty = rng.choice(self.active_types or self.types)
            self.active_types.append(ty)
            return {"op": "browse", "ty": ty, "ch": self.ch()}
        if kind == "browse_cache":
            return {"op": "browse_cache", "ty": rng.choice(self.types), "ch": self.ch()}
        if kind == "stop_browse":
            return {"op": "stop_browse", "ty": rng.choice(self.active_types or self.types)}
        if kind == "stop_unknown":
            if rng.random() < 0.5:
                return {"op": "stop_browse", "ty": "_never._tcp.local."}
            return {"op": "stop_resolve_hostname", "host": "Never.local."}
        if kind in ("resolve", "reresolve"):
            h = rng.choice(self.active_hosts or self.hosts) if kind == "reresolve" else rng.choice(self.hosts)
            self.active_hosts.append(h)
            c = {"op": "resolve_hostname", "host": h, "ch": self.ch()}
            t = rng.choice(TIMEOUTS)
            if t is not None:
                c["timeout"] = t
            return c
        if kind == "stop_resolve":
            h = rng.choice(self.active_hosts or self.hosts)
            if rng.random() < 0.5:
                h = rng.choice([h.lower(), h.upper(), h])
            return {"op": "stop_resolve_hostname", "host": h}
        if kind == "ip":
            return {"op": "set_ip_check_interval", "secs": rng.choice([0, 0, 1, 2, 5, 60, U32_SECS_MAX])}
        if kind == "shutdown":
            return {"op": "shutdown", "ch": "status%d" % self.nch}
        raise ValueError(kind)

    def at(self, dt, calls):
        self.now += dt
        st = {"t": self.now, "d": 0}
        if calls:
            st["calls"] = calls
        self.steps.append(st)

    def wake(self):
        self.steps.append({"t": "wake", "d": 0})

    def run_until(self, dt, max_iters=6000):
        self.now += dt
        self.steps.append({"run_until": self.now, "max_iters": max_iters})

    def line(self):
        h = {"id": self.hid, "t0": self.t0, "daemons": [{"seed": 1, "ifaces": self.ifaces}], "link": "none",
             "steps": self.steps}
        return json.dumps(h, separators=(",", ":"))


DELTAS = [0, 0, 1, 2, 499, 500, 999, 1000, 1001, 1500, 2999, 3000, 3001, 4000, 7000, 9000, 15001, 40000]


def random_history(rng, hid, profile):
    """profile: 'mixed' (default interface check, seconds to minutes), 'long' (interface check
    off or very large, horizon hours to 3 days), 'late' (explicit late iterations),
    'ip' (interval changes)."""
    b = Builder(rng, hid)
    if profile == "long":
        b.at(0, [{"op": "set_ip_check_interval", "secs": rng.choice([0, 0, U32_SECS_MAX])}])
    elif profile == "ip" or rng.random() < 0.15:
        b.at(0, [b.call("ip")])
    n = rng.choice([2, 3, 4, 6, 9]) if profile != "long" else rng.choice([1, 2, 3])
    for _ in range(n):
        r = rng.random()
        calls = [b.call() for _ in range(rng.choice([0, 1, 1, 1, 2, 3]))]
        if profile == "ip" and rng.random() < 0.5:
            calls.insert(rng.randrange(len(calls) + 1), b.call("ip"))
        if r < 0.35:
            b.at(rng.choice(DELTAS), calls)
        elif r < 0.5:
            b.wake()
            b.at(0, calls)
        elif r < 0.8:
            b.at(0, calls)
            b.run_until(rng.choice([900, 1000, 3000, 3001, 7500, 16000, 33000, 70000]))
        else:
            b.at(0, calls)
            for _ in range(rng.choice([1, 2, 4])):
                b.wake()
        if profile == "late" and rng.random() < 0.7:
            b.at(rng.choice([1, 2, 1000, 1001, 2000, 2001, 4001, 10000]), [])
    if profile == "long":
        b.run_until(rng.choice([3600 * 1000, 5 * 3600 * 1000, 26 * 3600 * 1000, 3 * 86400 * 1000]))
        if rng.random() < 0.5:
            b.at(0, [b.call(rng.choice(["stop_browse", "stop_resolve", "rebrowse"]))])
            b.run_until(rng.choice([2 * 3600 * 1000, 86400 * 1000]))
    elif profile == "mixed" and rng.random() < 0.3:
        b.run_until(rng.choice([60 * 1000, 600 * 1000, 3600 * 1000]))
    if rng.random() < 0.35:
        tail = [b.call("shutdown")]
        if rng.random() < 0.3:
            tail.append(b.call("browse"))
        if rng.random() < 0.3:
            tail.insert(0, b.call())
        b.at(rng.choice([0, 1, 1000]), tail)
        if rng.random() < 0.5:
            b.at(1000, [b.call("browse")])
    elif rng.random() < 0.5:
        b.run_until(rng.choice([7200 * 1000, 2000, 20000]))
    return b.line()


def fixed_histories():
    """Boundary histories that always run: the back-off ladder up to the cap over 3 days, stop and
    silence for 2 h, mixed-case stop, timeouts around the retransmission times, interface-check
    interval 0 / 1 / max / changed, re-browse, cache-only browse, shutdown."""
    out = []

    def B(hid, ifs=0):
        b = Builder(random.Random(0), hid, t0=1000000, ifaces=IF_SETS[ifs])
        return b
    b = B("ladder-3days")
    b.at(0, [{"op": "set_ip_check_interval", "secs": 0}, {"op": "browse", "ty": "_http._tcp.local.", "ch": b.ch()},
             {"op": "resolve_hostname", "host": "MyHost.local.", "ch": b.ch()}])
    b.run_until(3 * 86400 * 1000)
    out.append(b.line())
    b = B("ladder-default-ip-2h")
    b.at(0, [{"op": "browse", "ty": "_http._tcp.local.", "ch": b.ch()}])
    b.run_until(2 * 3600 * 1000)
    out.append(b.line())
    b = B("stop-silence-2h", 2)
    b.at(0, [{"op": "set_ip_check_interval", "secs": U32_SECS_MAX},
             {"op": "browse", "ty": "_http._tcp.local.", "ch": b.ch()},
             {"op": "resolve_hostname", "host": "MyHost.local.", "ch": b.ch()}])
    b.run_until(20000)
    b.at(0, [{"op": "stop_browse", "ty": "_http._tcp.local."}, {"op": "stop_resolve_hostname", "host": "MYHOST.local."}])
    b.run_until(2 * 3600 * 1000)
    out.append(b.line())
    for k, to in enumerate([0, 1, 999, 1000, 1001, 2999, 3000, 3001, 10000, 18446744073709551615]):
        b = B("timeout-exact-%d" % to, k % 3)
        b.at(0, [{"op": "resolve_hostname", "host": "MyHost.local.", "timeout": to, "ch": b.ch()}])
        b.run_until(40000)
        out.append(b.line())
    # former finding C13-timeout-late-rerun (repaired by a4675d4): the iteration that notices the
    # deadline comes after a retransmission time that precedes the deadline
    b = B("timeout-late")
    b.at(0, [{"op": "set_ip_check_interval", "secs": 0},
             {"op": "resolve_hostname", "host": "MyHost.local.", "timeout": 3001, "ch": b.ch()}])
    b.wake()
    b.at(2005, [])
    b.run_until(100000)
    out.append(b.line())
    b = B("rebrowse")
    b.at(0, [{"op": "browse", "ty": "_http._tcp.local.", "ch": b.ch()}])
    b.run_until(3500)
    b.at(0, [{"op": "browse", "ty": "_http._tcp.local.", "ch": b.ch()},
             {"op": "resolve_hostname", "host": "MyHost.local.", "timeout": 10000, "ch": b.ch()}])
    b.at(700, [{"op": "resolve_hostname", "host": "myhost.local.", "ch": b.ch()},
               {"op": "browse", "ty": "_http._tcp.local.", "ch": b.ch()}])
    b.run_until(40000)
    b.at(0, [{"op": "stop_browse", "ty": "_http._tcp.local."}, {"op": "stop_browse", "ty": "_http._tcp.local."}])
    b.run_until(40000)
    out.append(b.line())
    b = B("cache-only", 1)
    b.at(0, [{"op": "browse_cache", "ty": "_http._tcp.local.", "ch": b.ch()}])
    b.run_until(12000)
    b.at(0, [{"op": "browse", "ty": "_http._tcp.local.", "ch": b.ch()}])
    b.run_until(3000)
    b.at(0, [{"op": "browse_cache", "ty": "_http._tcp.local.", "ch": b.ch()}])
    b.run_until(20000)
    b.at(0, [{"op": "stop_browse", "ty": "_http._tcp.local."}])
    b.run_until(20000)
    out.append(b.line())
    for secs in (0, 1, U32_SECS_MAX):
        b = B("ip-%d" % secs)
        b.run_until(6000)
        b.at(0, [{"op": "set_ip_check_interval", "secs": secs}])
        b.run_until(12000)
        b.at(0, [{"op": "browse", "ty": "_ipp._tcp.local.", "ch": b.ch()}])
        b.run_until(9000)
        b.at(0, [{"op": "set_ip_check_interval", "secs": 2}])
        b.run_until(9000)
        b.at(0, [{"op": "set_ip_check_interval", "secs": 0}])
        b.run_until(60000)
        out.append(b.line())
    b = B("shutdown")
    b.at(0, [{"op": "browse", "ty": "_http._tcp.local.", "ch": b.ch()},
             {"op": "browse_cache", "ty": "_ipp._tcp.local.", "ch": b.ch()},
             {"op": "resolve_hostname", "host": "MyHost.local.", "timeout": 100000, "ch": b.ch()}])
    b.run_until(5000)
    b.at(0, [{"op": "shutdown", "ch": "status"}, {"op": "browse", "ty": "_x-y._udp.local.", "ch": b.ch()}])
    b.at(5000, [{"op": "browse", "ty": "_http._tcp.local.", "ch": b.ch()}])
    out.append(b.line())
    return out


def generate_histories(rng, tier, prefix):
    cases = [Case(l, "fixed") for l in fixed_histories()]
    if tier == "quick":
        plan = [("mixed", 500), ("late", 300), ("ip", 200), ("long", 120)]
    else:
        plan = [("mixed", 4000), ("late", 2500), ("ip", 1500), ("long", 1000)]
    k = 0
    for profile, n in plan:
        for _ in range(n):
            k += 1
            cases.append(Case(random_history(rng, "%s-%s-%d" % (prefix, profile, k), profile), profile))
    if tier != "quick":
        b = Builder(rng, "default-ip-3days", t0=1000000, ifaces=IF_SETS[1])
        b.at(0, [{"op": "browse", "ty": "_http._tcp.local.", "ch": b.ch()}])
        b.run_until(3 * 86400 * 1000, max_iters=60000)
        cases.append(Case(b.line(), "fixed"))
    return cases


# --------------------------------------------------------------------------- alignment

def channel_ids(hist):
    ids = {}
    for st in hist.get("steps", []):
        for c in st.get("calls") or []:
            if c.get("op") in START_OPS:
                ids.setdefault(c["ch"], len(ids) + 1)
    return ids


def align(hist, res):
    """Pairs every iteration record of the trace with the calls of the step that caused it
    (same stepping rules as harness/src/sim.rs, single daemon).  Returns (init record,
    [(record, calls)])."""
    recs = [r for r in res["trace"] if "it" in r]
    init = [r for r in res["trace"] if r.get("init")][0]
    if init.get("stuck"):
        raise ValueError("daemon stuck at start")
    last_wake = init.get("wake")
    vnow = hist.get("t0", 1000000)
    dead = False
    out = []
    idx = 0

    def take(calls):
        nonlocal idx, last_wake, dead
        rec = recs[idx]
        idx += 1
        out.append((rec, calls))
        if rec.get("exited") or rec.get("stuck"):
            dead = True
            last_wake = None
        else:
            last_wake = rec.get("wake")
        return rec

    for st in hist.get("steps", []):
        if "run_until" in st and not isinstance(st.get("t"), int):
            u = st["run_until"]
            n = 0
            mx = st.get("max_iters", 5000)
            while True:
                if dead or last_wake is None or last_wake > u:
                    vnow = max(u, vnow)
                    break
                if n >= mx:
                    break
                n += 1
                vnow = max(last_wake, vnow)
                take([])
            continue
        t = st.get("t")
        if isinstance(t, int):
            target = t
        elif t == "wake":
            if last_wake is None:
                continue
            target = max(last_wake, vnow)
        else:
            target = vnow
        vnow = max(target, vnow)
        if dead:
            continue
        rec = take(st.get("calls") or [])
        if rec["now"] != vnow:
            raise ValueError("alignment lost at it %s" % rec.get("it"))
    if idx != len(recs):
        raise ValueError("alignment: %d records left" % (len(recs) - idx))
    return init, out


def cmd_token(c, ids):
    op = c["op"]
    if op == "browse":
        return "B:%s:%d" % (hx(c["ty"]), ids[c["ch"]])
    if op == "browse_cache":
        return "C:%s:%d" % (hx(c["ty"]), ids[c["ch"]])
    if op == "stop_browse":
        return "SB:%s" % hx(c["ty"])
    if op == "resolve_hostname":
        t = c.get("timeout")
        return "R:%s:%s:%d" % (hx(c["host"]), "~" if t is None else str(t), ids[c["ch"]])
    if op == "stop_resolve_hostname":
        return "SR:%s" % hx(c["host"])
    if op == "set_ip_check_interval":
        return "IP:%d" % c["secs"]
    if op == "shutdown":
        return "X"
    raise ValueError("call outside the slice: %s" % op)


def model_input(case_line, raw):
    hist = json.loads(case_line)
    res = json.loads(raw)
    ids = channel_ids(hist)
    _, its = align(hist, res)
    toks = []
    for rec, calls in its:
        results = rec.get("calls") or []
        cs = []
        for i, c in enumerate(calls):
            ok = i < len(results) and results[i].get("r") == "Ok"
            if ok:
                cs.append(cmd_token(c, ids))
        toks.append("%d|%s" % (rec["now"], ",".join(cs) or "-"))
    return "sched %d %s" % (hist.get("t0", 1000000), ";".join(toks) or "-")


# --------------------------------------------------------------------------- projection

def expected_groups(hist):
    g = set()
    for i in hist["daemons"][0]["ifaces"]:
        g.add((i["index"], ":" not in i["addr"]))
    return g


def pkt_token(p):
    pk = dnsgen.parse_packet(bytes.fromhex(p["hex"]))
    if pk is None:
        return "UNPARSED!"
    t = "&".join("%s:%d%s" % (hx(dnsgen.dotted(q[0])), q[1], "" if q[2] == 1 else "!c%d" % q[2]) for q in pk["q"])
    if pk["flags"] & 0x8000:
        t = "RESP!" + t
    if pk["an"] or pk["ns"] or pk["ar"]:
        t += "!REC"
    if p.get("kind") != "mcast":
        t += "!" + str(p.get("kind"))
    return t


def sent_token(sent, groups):
    if not sent:
        return "-"
    by = {}
    for p in sent:
        by.setdefault((p.get("if"), bool(p.get("v4"))), []).append(pkt_token(p))
    seqs = set(tuple(v) for v in by.values())
    if set(by.keys()) != groups or len(seqs) != 1:
        return "SPLIT!" + "|".join("%s%s=%s" % (k[0], "v4" if k[1] else "v6", "+".join(v)) for k, v in sorted(by.items(), key=str))
    return "+".join(seqs.pop())


EV = {"SearchStarted": "S", "SearchStopped": "P", "SearchTimeout": "T"}


def events_token(events, ids):
    out = []
    for name, num in sorted(ids.items(), key=lambda kv: kv[1]):
        for e in (events or {}).get(name, []):
            k = e.get("e")
            if k == "<closed>":
                out.append("%d:X" % num)
            elif k in EV:
                out.append("%d:%s:%s" % (num, EV[k], hx(e.get("ty") if "ty" in e else e.get("host", ""))))
            else:
                out.append("%d:?%s" % (num, k))
    return ",".join(out) or "-"


def project(case_line, raw):
    hist = json.loads(case_line)
    res = json.loads(raw)
    if "error" in res:
        return "HARNESSERROR"
    ids = channel_ids(hist)
    groups = expected_groups(hist)
    recs = []
    for r in res["trace"]:
        if r.get("init"):
            if r.get("stuck"):
                return "STUCK-at-start"
            recs.append("%d/%s/0/-/-" % (r["now"], "-" if r.get("wake") is None else r["wake"]))
        elif "it" in r:
            if r.get("stuck"):
                recs.append("%d/STUCK" % r["now"])
                continue
            if r.get("panicked"):
                recs.append("%d/PANICKED" % r["now"])
                continue
            recs.append("%d/%s/%d/%s/%s" % (r["now"], "-" if r.get("wake") is None else r["wake"],
                                            1 if r.get("exited") else 0, sent_token(r.get("sent"), groups),
                                            events_token(r.get("events"), ids)))
        elif r.get("truncated"):
            pass  # max_iters reached inside run_until: the iterations so far are compared
    return ";".join(recs)


def nontrivial(line, result):
    return result.count(";") >= 2 and ("+" in result or ":" in result)
