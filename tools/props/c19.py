"""C19  Repeated queries back off: 1 s, 2 s, 4 s ... capped at one hour."""
import vlib
import schedlib
import mfree

ID = "C19"
CLAIMED = True
MODEL_GROUP = "sched"
THEOREM_FILE = "Props/C19.v"
LEVEL_TEXT = ("Coq theorems over a Gallina model of the daemon's scheduling core (timer heap, retransmission list, "
              "listener maps, deadline handling, command draining, interface-check re-arming): for every well-formed "
              "history of API calls and iteration times (early, on time or late), the queries on the "
              "wire are exactly one per start call plus the scheduled ones at gaps 1, 2, 4 ... 3600 s (chk_C19); for "
              "every k the k-th query of a search leaves at t + sum of min(2^i,3600) s on the timer-exact silent "
              "schedule (induction, no horizon); a repeated browse/resolve leaves exactly one chain in every reachable "
              "state. The model is tied to the Rust on every run: constants and comparisons regenerated from the "
              "source and pinned by proof, and the real daemon thread driven in the simulated world on generated "
              "histories whose per-iteration projection (queries, channel events, requested wake-up) must equal the "
              "model's; chk_C19 itself runs as monitor on the implementation's traces")
TECHNIQUE = ("machine-checked proof in Coq (refinement of a state-machine model to a per-question specification by "
             "invariants over all histories; closed form by induction) + model/implementation correspondence")
LEVELS = ("K6 (real ServiceDaemon + daemon thread under verif-hooks, one loop iteration at a time on the virtual "
          "clock; every iteration compared: queries per interface/family, channel events, requested wake-up)")
RULE = ("histories of browse / browse_cache / stop_browse / resolve_hostname (mixed-case names, timeouts "
        "0,1,999,1000,1001,3001,7001,10^4,2^62,u64::MAX,none) / stop_resolve_hostname / set_ip_check_interval "
        "(0,1,2,5,60,4294967) / shutdown calls at random times, explicit early and late iterations, wake-exact "
        "steps and timer-exact silent runs from seconds to 3 days, on 1-2 interfaces with IPv4 and IPv6; fixed "
        "boundary histories (ladder to the cap, timeouts around retransmission times, re-browse, cache-only); "
        "non-trivial = at least two iterations and at least one query or event; distinct = distinct histories")
TRUSTED = [
    "Coq 8.16.1 kernel (coqc); vm_compute only in the refutation witness and the non-vacuity Example",
    "axioms: none (Print Assumptions: Closed under the global context for every theorem)",
    "extraction (ExtrOcamlBasic only, no Extract Constant) + ocaml/sched/driver.ml (parsing/printing of histories and traces)",
    "tools/params/sched.py + tools/extract_params.py: 21 anchored expressions of service_daemon.rs translated to "
    "Gen/ParamsSched.v (next_delay * 1000, next_delay * 2, 60 * 60, first delay 1, `next_time < timeout`, "
    "`*v > now`, `now >= t`, interface-check re-arming); not extracted: `now >= self.retransmissions[i].next_time` "
    "(index expression outside the translator's grammar) - covered by the correspondence only",
    "hooks: cargo feature verif-hooks (virtual clock, per-iteration gate reporting the earliest timer, captured "
    "egress, simulated interface table); mio poll, real sockets, the OS clock and the signal socket are outside",
    "tools/props/schedlib.py: alignment of history steps with iterations and projection of the JSON trace; "
    "tools/dnsgen.parse_packet for the questions of sent packets",
    "modelled, not verified: browse and hostname resolution as one code path parameterised by `host` "
    "(the two Rust functions are structurally identical); service_queriers + hostname_resolvers as one association "
    "list; BinaryHeap as a multiset; the re-run loop as a partition (justified by delays >= 1, proved); "
    "time inside one iteration does not advance; u64 arithmetic as N except the saturating now + timeout",
]
PARTIAL = ("slice: histories without incoming datagrams, registrations, verify requests and interface changes (cache "
           "empty, so the refresh / follow-up / new-interface / verify clauses of the text are not exercised and "
           "`no_other_queries` is proved only for this slice: every packet is a start or scheduled query); listener "
           "channels are kept open and drained by the caller (a caller that never reads its bounded(10) channel "
           "blocks the daemon thread in listener.send - outside the property). "
           "Non-ASCII case mapping of host names is outside the model.")
HARNESS_ARGS = ["sim"]
PER_SHARD = 8

def project(line, raw):
    return mfree.project(line, raw) if mfree.is_mf(line) else schedlib.project(line, raw)


def model_input(line, raw):
    return mfree.model_input(line, raw) if mfree.is_mf(line) else schedlib.model_input(line, raw)


nontrivial = schedlib.nontrivial


def generate(rng, tier):
    # scheduler-slice histories plus the model-free follow-up family (tools/props/mfree.py: at most
    # three follow-up queries, 500 ms apart, for a found but unresolved instance)
    return schedlib.generate_histories(rng, tier, ID) + mfree.generate(rng, tier, ["fu"])


def shrink(line, still_bad):
    if mfree.is_mf(line):
        return line        # carries its own expectation: not shrunk
    return vlib.shrink_history(line, still_bad)


def search(rng, problems, disagreeing):
    return schedlib.generate_histories(rng, "thorough", ID + "s")[:1500]
