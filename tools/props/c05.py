"""C05  Departed services are reported removed, on time and only when true."""
import browser_common as bc
from browser_common import HARNESS_ARGS, PER_SHARD  # noqa: F401

ID = "C05"
CLAIMED = True
MODEL_GROUP = "browser"
THEOREM_FILE = "Props/C05.v"
LEVEL_TEXT = ("Coq theorems about the cache model: eviction removes exactly the expired PTR/SRV/TXT/NSEC/address "
              "records and changes nothing else; an instance is reported by evict_expired_services exactly when a PTR "
              "pointing to it expired or its SRV bucket became empty; a goodbye (TTL 0) leaves the record expiring "
              "exactly 1000 ms after delivery; verify shortens the SRV records (and the addresses filed under the SRV "
              "target as written) to now + timeout and an answer restores the TTL; every ServiceRemoved the model emits "
              "comes from one of these sources. The history-level statement chk_C05 (removed exactly when PTR / last SRV "
              "/ last address / verify timeout runs out, wake-up requested for that instant, never while PTR+SRV+address "
              "have more than 1 s left, no ServiceResolved afterwards without new records) is REFUTED for the faithful "
              "model in the two classes that stay as known findings (PTR variant expiry, expiry hidden during the PTR's "
              "goodbye second); outside them it is checked by the monitor on "
              "every generated history of the implementation; the spec cache chk_C05 judges against is proved to be the "
              "model's cache for all histories. Model tied to the Rust daemon by the K6 simulation")
TECHNIQUE = ("machine-checked proof in Coq (eviction / goodbye / verify specifications, refutation witnesses) + "
             "model/implementation correspondence on the simulated daemon + history-level monitor with virtual timestamps")
LEVELS = ("K6 sim: one real daemon thread in the simulated world, timer-exact runs (run_until jumps to the wake-up the "
          "daemon asked for) and late wake-ups; events with virtual timestamps, questions and requested wake-ups")
RULE = ("announcement / goodbye / silence histories of 1-3 instances and responders on 1-2 interfaces: TTLs 1 s .. 4500 s "
        "(75 min), goodbyes full/partial/duplicated/lost, responders that vanish, refresh questions answered or not, "
        "verify with timeouts 500 ms .. 10 s answered or not, hosts shared between instances and spelled in mixed case, "
        "address-only goodbyes and addresses with shorter TTL than SRV/PTR, restarts (goodbye then announcement within "
        "a second), stop/re-browse; special classes: instance under type and subtype PTR with the SRV running out first "
        "or the address running out first (both must agree exactly: no hash-order dependence left), PTR delivered "
        "with and without cache-flush bit; non-trivial = at least one event")
TRUSTED = bc.TRUSTED_COMMON
PARTIAL = ("Exact times are statements about timer-exact schedules; on a late wake-up the monitor requires the event in "
           "the first iteration at or after the due time. 'Live' in 'never while live' means more than 1 s of TTL left "
           "(expires_soon convention of the crate and RFC 6762 10.1: a record in its last second is as good as gone), "
           "so a ServiceRemoved up to 1 s before the true expiry is accepted. History-level chk_C05 is a monitor, not a "
           "theorem (refuted in the listed classes; its liveness judgements are tied to the model by spec_tracks_model). Interface removal (C18) is outside the model.")

project = bc.project_line
model_input = bc.model_input_line
nontrivial = bc.nontrivial_obs
shrink = bc.shrink_hist

KNOWN = {
    "alive:ptr-variant": "C05-ptr-variant-expiry",
    "dead:ptr-last-second": "C05-expiry-hidden-by-expiring-ptr",
}


def known_class(line, impl_result, mon_result):
    return bc.known_from_tags(mon_result, KNOWN)


def generate(rng, tier):
    k = 1 if tier == "quick" else 12
    return bc.mk_cases(rng, [
        ("life", 2000 * k, bc.gen_lifecycle),
        ("follow", 200 * k, bc.gen_followup),
        ("long", 8 * k, bc.gen_long),
        ("case", 120 * k, lambda r, i: bc.gen_special(r, i, "case")),
        ("twotypes", 60 * k, lambda r, i: bc.gen_special(r, i, "two-types")),
        ("twotypesaddr", 20 * k, lambda r, i: bc.gen_special(r, i, "two-types-addr")),
        ("ptrvar", 30 * k, lambda r, i: bc.gen_special(r, i, "ptr-variant")),
    ])


def search(rng, problems, disagreeing):
    return generate(rng, "quick")
