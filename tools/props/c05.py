"""C05  Departed services are reported removed, on time and only when true."""
import browser_common as bc
from browser_common import HARNESS_ARGS, PER_SHARD  # noqa: F401

ID = "C05"
CLAIMED = True
MODEL_GROUP = "browser"
THEOREM_FILE = "Props/C05.v"
LEVEL_TEXT = ("Coq theorems. History level, in the standard shape for known findings (for every history in which time does not "
              "run backwards, whatever the wake-ups; the extracted checker viol_C05 run on the model's trace): "
              "C05_removed_only_when_true_partial - outside the executable classes known_ptr_variant and known_srv_targets (and "
              "with no PTR with the root name as owner/target) never F05_alive, i.e. no ServiceRemoved while PTR, SRV and "
              "address of the SRV's host have more than 1 s left at every snapshot of the iteration. "
              "C05_no_resolved_again_partial - same classes plus the well-formedness condition fresh_channels (every browse "
              "call uses a new, larger channel number; the driver checks it on every case): never F05_again, i.e. no "
              "ServiceResolved after ServiceRemoved of the instance on that channel unless a record of the instance or of its "
              "host was delivered in between; inside known_srv_targets this is REFUTED (round 6, "
              "C05_no_resolved_again_refuted_in_srv_targets, confirmed on the daemon). "
              "C05_removed_on_time_partial (round 6, timeliness) - outside timely_class = the classes above plus "
              "known_stop_second_name (C05-stop-browse-drops-shared-records) and known_removal_hidden "
              "(C05-expiry-hidden-by-expiring-ptr as a class of histories: at some call of resolve_updated_instances an updated "
              "instance that is in `resolved` cannot be resolved while a browsed PTR to it is in its last second) never F05_dead: "
              "at the end of EVERY iteration every instance that is up on the current channel of its type has PTR, SRV and an "
              "address of the SRV's host unexpired, so in the first iteration whose now is at or after the instant a "
              "goodbye's second, the TTL of the PTR / last SRV / last address or a verify deadline runs out, the "
              "ServiceRemoved is emitted (whether the daemon is woken then is C12: Props/C12Cache.v). Invariant UI: every up "
              "entry has PTR, SRV and address records present in the model cache and its instance in the model's `resolved` "
              "set; deliveries, verify and refresh keep every record, stop_browse keeps those of instances it does not point "
              "to, the evictions report what they take, afterwards every record is unexpired. One vm_compute witness per "
              "class (PTR variant, second SRV target, removal hidden by an expiring PTR, stop_browse of a second PTR name). "
              "Cache level, all states: eviction removes exactly the expired records; expired PTRs and SRV expiry are "
              "reported under every PTR name; reports only when true; loss of the last address reported under every browsed "
              "name; goodbye = exactly +1000 ms; verify shortens to now + timeout and an answer restores. The wake-up clause "
              "(F05_wake) is monitor-checked on every generated history, not a theorem here. Model tied to the Rust daemon by "
              "the K6 simulation")
TECHNIQUE = ("machine-checked proof in Coq (eviction / goodbye / verify specifications, refutation witnesses) + "
             "model/implementation correspondence on the simulated daemon + history-level monitor with virtual timestamps")
LEVELS = ("K6 sim: one real daemon thread in the simulated world, timer-exact runs (run_until jumps to the wake-up the "
          "daemon asked for) and late wake-ups; events with virtual timestamps, questions and requested wake-ups")
RULE = ("announcement / goodbye / silence histories of 1-3 instances and responders on 1-2 interfaces: TTLs 1 s .. 4500 s "
        "(75 min), goodbyes full/partial/duplicated/lost, responders that vanish, refresh questions answered or not, "
        "verify with timeouts 500 ms .. 10 s answered or not, hosts shared between instances and spelled in mixed case, "
        "address-only goodbyes and addresses with shorter TTL than SRV/PTR, restarts (goodbye then announcement within "
        "a second), stop/re-browse; special classes: instance under type and subtype PTR with the SRV running out first "
        "or the address running out first (both must agree exactly: no hash-order dependence left), stop_browse of one of "
        "the two names (known finding) with or without the records coming back, PTR delivered "
        "with and without cache-flush bit; non-trivial = at least one event")
TRUSTED = bc.TRUSTED_COMMON  # model follows /repo fixes up to 48ec5c0 (follow-ups only while a PTR points to the instance)
PARTIAL = ("Case mapping of NON-ASCII letters (the daemon lower-cases host names with Unicode rules, the Coq model folds "
           "ASCII only) is covered by the model-free family `na-` only: SRV target and address owner differing in the case of "
           "a non-ASCII letter; the expectation is computed in the Python projection, no theorem speaks about it. Of viol_C05's failure kinds F05_alive, F05_again and F05_dead are excluded by history-level theorems outside the "
           "executable classes named in LEVEL_TEXT; F05_wake is not (the browser model does not compute timers: requested "
           "wake-ups are an input of the checker; the cache-layer timer theorem is C12's). Inside the classes: F05_again is "
           "refuted inside known_srv_targets and open inside known_ptr_variant; F05_dead is refuted inside known_removal_hidden "
           "and known_stop_second_name (witnesses) and open inside known_ptr_variant / known_srv_targets. The class "
           "known_removal_hidden is evaluated along the model's run (it needs the `resolved` set and the `updated` list of "
           "each resolve_updated_instances call); it is wider than the old monitor flag 'every PTR in its last second at "
           "the failure': round 6 found, and confirmed on the daemon, the variant in which the skipped PTR is refreshed "
           "afterwards and its browser is never told about the later expiry (corpus hidden-then-refreshed). 'Live' means more "
           "than 1 s of TTL left (expires_soon convention), so a ServiceRemoved up to 1 s before the true expiry is accepted. "
           "Interface removal (C18) is outside the model.")

project = bc.project_line
model_input = bc.model_input_line
nontrivial = bc.nontrivial_obs
shrink = bc.shrink_hist

KNOWN = {
    "alive:ptr-variant": "C05-ptr-variant-expiry",
    "alive:srv-targets": "C05-second-srv-target",
    "again:srv-targets": "C05-second-srv-target",
    "dead:ptr-last-second": "C05-expiry-hidden-by-expiring-ptr",
    "dead:stopped-second-name": "C05-stop-browse-drops-shared-records",
}


def known_class(line, impl_result, mon_result):
    return bc.known_from_tags(mon_result, KNOWN)


def generate(rng, tier):
    k = 1 if tier == "quick" else 12
    return bc.mk_cases(rng, [
        ("na-", 40 * k, lambda r, i: bc.gen_nonascii_host(r, i, True)),
        ("life", 2000 * k, bc.gen_lifecycle),
        ("follow", 200 * k, bc.gen_followup),
        ("long", 8 * k, bc.gen_long),
        ("case", 120 * k, lambda r, i: bc.gen_special(r, i, "case")),
        ("twotypes", 60 * k, lambda r, i: bc.gen_special(r, i, "two-types")),
        ("twotypesaddr", 20 * k, lambda r, i: bc.gen_special(r, i, "two-types-addr")),
        ("srvtargets", 30 * k, lambda r, i: bc.gen_special(r, i, "srv-targets")),
        ("ptrvar", 30 * k, lambda r, i: bc.gen_special(r, i, "ptr-variant")),
        ("stopname", 30 * k, lambda r, i: bc.gen_special(r, i, "stop-second-name")),
    ])


def search(rng, problems, disagreeing):
    return generate(rng, "quick")
