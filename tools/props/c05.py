"""C05  Departed services are reported removed, on time and only when true."""
import browser_common as bc
from browser_common import HARNESS_ARGS, PER_SHARD  # noqa: F401

ID = "C05"
CLAIMED = True
MODEL_GROUP = "browser"
THEOREM_FILE = "Props/C05.v"
LEVEL_TEXT = ("Coq theorems. History level, in the standard shape for known findings: C05_removed_only_when_true_partial - "
              "for every history in which time does not run backwards and that is outside the executable classes "
              "known_ptr_variant and known_srv_targets (and has no PTR with the root name as owner/target), the checker "
              "viol_C05 run on the model's trace never reports F05_alive, i.e. the model never emits ServiceRemoved while "
              "PTR, SRV and address of the SRV's host have more than 1 s left at every snapshot of the iteration (proof: C03 "
              "cache invariant + spec cache = model cache carried through every step); one vm_compute witness per known "
              "class (PTR variant, second SRV target, expiry hidden by an expiring PTR, stop_browse of a second PTR name). "
              "C05_no_resolved_again_partial - same quantifier plus the well-formedness condition fresh_channels (every browse "
              "call uses a new, larger channel number; the driver checks it on every case): viol_C05 never reports F05_again, "
              "i.e. no ServiceResolved of an instance on a channel after its ServiceRemoved there unless a record of the "
              "instance or of its host was delivered in between (invariant DI tying the checker's dead list to the model "
              "cache: a dead instance is not strongly alive or a relevant delivery is logged; liveness only decreases when "
              "the cache shrinks, as time goes by, and under deliveries that do not concern the instance; what is reported "
              "resolved is strongly alive). Cache level, all states: eviction "
              "removes exactly the expired records; expired PTRs and SRV expiry are reported under every PTR name; reports "
              "only when true; loss of the last address reported under every browsed name; goodbye = exactly +1000 ms; "
              "verify shortens to now + timeout and an answer restores. Timeliness (F05_dead) and the wake-up clause "
              "(F05_wake) are monitor-checked on every generated history, not theorems. Model tied "
              "to the Rust daemon by the K6 simulation")
TECHNIQUE = ("machine-checked proof in Coq (eviction / goodbye / verify specifications, refutation witnesses) + "
             "model/implementation correspondence on the simulated daemon + history-level monitor with virtual timestamps")
LEVELS = ("K6 sim: one real daemon thread in the simulated world, timer-exact runs (run_until jumps to the wake-up the "
          "daemon asked for) and late wake-ups; events with virtual timestamps, questions and requested wake-ups")
RULE = ("announcement / goodbye / silence histories of 1-3 instances and responders on 1-2 interfaces: TTLs 1 s .. 4500 s "
        "(75 min), goodbyes full/partial/duplicated/lost, responders that vanish, refresh questions answered or not, "
        "verify with timeouts 500 ms .. 10 s answered or not, hosts shared between instances and spelled in mixed case, "
        "address-only goodbyes and addresses with shorter TTL than SRV/PTR, restarts (goodbye then announcement within "
        "a second), stop/re-browse; special classes: instance under type and subtype PTR with the SRV running out first "
        "or the address running out first (both must agree exactly: no hash-order dependence left), stop_browse of one of "
        "the two names (known finding) with or without the records coming back, PTR delivered "
        "with and without cache-flush bit; non-trivial = at least one event")
TRUSTED = bc.TRUSTED_COMMON
PARTIAL = ("Of viol_C05's failure kinds F05_alive and F05_again (the two safety clauses) are excluded by history-level "
           "theorems, for histories outside known_ptr_variant / known_srv_targets (inside these classes F05_again is neither "
           "proved nor refuted; no generated history of them fails it). Not proved over histories: F05_dead (removal on "
           "time: needs an invariant tying the checker's 'up' list to the model's resolved set and the order of events "
           "inside an iteration; classes to exclude: expiry hidden by an expiring PTR, and stop_browse of a second PTR name "
           "of an instance - decided in round 5 to be a finding, C05-stop-browse-drops-shared-records: the daemon drops the "
           "instance's SRV/TXT/address records, tells nobody, and a silent departure is then reported at the PTR's TTL "
           "instead of the SRV's; confirmed on the daemon), F05_wake (the model does not compute timers). They are "
           "checked by the monitor on every generated history of model and implementation. 'Live' means more than 1 s of "
           "TTL left (expires_soon convention), so a ServiceRemoved up to 1 s before the true expiry is accepted. Exact "
           "times are statements about timer-exact schedules. Interface removal (C18) is outside the model.")

project = bc.project_line
model_input = bc.model_input_line
nontrivial = bc.nontrivial_obs
shrink = bc.shrink_hist

KNOWN = {
    "alive:ptr-variant": "C05-ptr-variant-expiry",
    "alive:srv-targets": "C05-second-srv-target",
    "again:srv-targets": "C05-second-srv-target",
    "dead:ptr-last-second": "C05-expiry-hidden-by-expiring-ptr",
    "dead:stopped-second-name": "C05-stop-browse-drops-shared-records",
}


def known_class(line, impl_result, mon_result):
    return bc.known_from_tags(mon_result, KNOWN)


def generate(rng, tier):
    k = 1 if tier == "quick" else 12
    return bc.mk_cases(rng, [
        ("life", 2000 * k, bc.gen_lifecycle),
        ("follow", 200 * k, bc.gen_followup),
        ("long", 8 * k, bc.gen_long),
        ("case", 120 * k, lambda r, i: bc.gen_special(r, i, "case")),
        ("twotypes", 60 * k, lambda r, i: bc.gen_special(r, i, "two-types")),
        ("twotypesaddr", 20 * k, lambda r, i: bc.gen_special(r, i, "two-types-addr")),
        ("srvtargets", 30 * k, lambda r, i: bc.gen_special(r, i, "srv-targets")),
        ("ptrvar", 30 * k, lambda r, i: bc.gen_special(r, i, "ptr-variant")),
        ("stopname", 30 * k, lambda r, i: bc.gen_special(r, i, "stop-second-name")),
    ])


def search(rng, problems, disagreeing):
    return generate(rng, "quick")
