"""C06  Queries get exactly the registered records, right values, right link."""
import json

import dnsgen
import vlib
from resplib import (T0, Registrations, align, group_ifaces, hx, in_subnet, jdump, mixcase, myintf_tok, packet_tok,
                     parsed_sent, split_ty, src_tok, svc_addrs, svc_fullname)
from vlib import Case

ID = "C06"
CLAIMED = True
MODEL_GROUP = "responder"
THEOREM_FILE = "Props/C06.v"
HARNESS_ARGS = ["sim"]
PER_SHARD = 8
LEVEL_TEXT = ("Coq theorems over a Gallina model of Zeroconf::handle_query (all question lists, known-answer lists, "
              "service tables, rename maps, interfaces, source addresses and ports): the model's response equals, as "
              "multisets per section with destination, id, flags and echoed questions, a specification written from "
              "the property text extended by the two named deviations that remain (four were repaired in /repo and "
              "are now part of the positive theorems); outside the deviation classes it equals the text itself; each "
              "deviation is proved to be one by a witness; for EVERY input (no hypothesis) every record of a response is "
              "proved to be a record of a listed service that is Announced on the receiving interface, also in every "
              "state of the daemon model; and over ALL histories of the daemon model, with a ghost log of everything "
              "emitted, a service is Announced on an interface only after an announcement of it went out for that "
              "interface, so every answer of every reachable history is for a service announced there earlier "
              "(C06_answers_after_announcement; the daemon model registers without probing).  The model is tied to the Rust on every run by "
              "regenerated constants/guards (Gen/ParamsResponder.v) and by a differential run of the real daemon in "
              "the simulated world (injected queries, captured packets parsed independently); the checker chk_C06 of "
              "the theorems is executed on the implementation's packets")
TECHNIQUE = ("machine-checked proof in Coq (refinement of the responder model to a relational/executable spec, "
             "multiset equality) + model/implementation correspondence on the simulated daemon")
LEVELS = "K6 (real ServiceDaemon in the simulated world: register/unregister/conflict histories, injected queries, captured responses)"
RULE = ("histories of 1-3 interfaces (v4, v6, both; differing subnets), 1-4 services (shared types, subtypes, shared "
        "hosts, on-link/off-link addresses, mixed-case names), phases registered / re-registered / unregistered / "
        "still probing / renamed by an injected conflict, and 6-14 injected queries each (PTR on type, subtype, "
        "meta; SRV, TXT, ANY, A, AAAA on instance and host names in mixed case; unknown names; known answers with "
        "TTL half-1, half, half+1, full; port 5353 and other ports; v4 and v6; wrong family / unknown interface). "
        "One case = one history; non-trivial = at least one query got a response; distinct = distinct histories.  "
        "Plus a model-free family (non-ASCII case mapping is outside the model): services whose instance and host "
        "names contain non-ASCII cased letters, asked for in exactly the registered spelling (SRV, TXT, ANY on the "
        "instance; A, AAAA, ANY on the host): the projection demands exactly the right record types under the "
        "asked owner name")
TRUSTED = [
    "Coq 8.16.1 kernel (coqc); vm_compute only in the witnesses of the ..._refuted theorems and the non-vacuity Example",
    "axioms: none (Print Assumptions: Closed under the global context for every theorem)",
    "extraction (ExtrOcamlBasic only) + ocaml/responder/driver.ml (parsing of case lines, enumeration of deviation sets)",
    "tools/extract_params.py + tools/params/responder.py: TTL constants, port 5353, flags, suppression comparison, "
    "response guard, multicast flag and header id of DnsOutgoing, subnet comparison",
    "hooks: cargo feature verif-hooks (simulated sockets, interface table, clock, per-iteration gate); packets are "
    "captured below send_dns_outgoing and parsed by tools/dnsgen.py",
    "tools/props/resplib.py: bookkeeping of the client's own register/unregister calls, of the announcements seen on "
    "the wire (a service counts as announced on an interface once its announcement left on it) and of the "
    "NameChange monitor events (the rename map given to the model)",
    "modelled, not verified: decoding of the query is Model/Wire.v (C01); encoding of the response is the crate's "
    "(C02); the size limit of to_packets is not modelled (responses stay far below 8972 bytes)",
]
PARTIAL = ("Two deviations of the code from the text are findings (known/C06.json: subtype answer, transport family); "
           "for them the theorems state what the code does instead.  Names with non-ASCII cased letters are outside "
           "the model (ASCII case folding only) and covered by a model-free family in exactly the registered spelling.  Service-type names are matched exactly (the text demands case-insensitivity for "
           "instance and host names only).  The text is silent on additionals of SRV answers; the spec admits the "
           "address records RFC 6763 12.2 recommends, for SRV questions.  Which of several same-family addresses of "
           "the interface the packet leaves from is not observed.  Known-answer suppression uses the crate's record "
           "matching (C10).  Rename maps are taken from the monitor's NameChange events, not predicted.")

V4NETS = [("192.168.%d.10", "255.255.255.0", "192.168.%d.%d"), ("10.%d.0.10", "255.255.0.0", "10.%d.7.%d")]
TYPES = ["_http._tcp.local.", "_ipp._tcp.local.", "_x-y._udp.local."]
SUBS = ["_printer", "_S1"]
INST = ["MyInst", "web", "Printer One", "LAB-7", "café", "a"]
HOSTS = ["MyHost.local.", "host2.local.", "SRV-box.local.", "h.local."]


def gen_topology(rng):
    n = rng.choice([1, 1, 2, 2, 3])
    ifaces = []
    nets = []
    for k in range(n):
        idx = 2 + k
        name = "eth%d" % k
        fam = rng.choice(["4", "4", "6", "46", "46"])
        tpl, mask, peer = V4NETS[rng.randrange(2)]
        same_as_prev = k > 0 and rng.random() < 0.15
        kk = k if not same_as_prev else k - 1
        net = {"index": idx, "name": name, "v4": None, "v6": None}
        if "4" in fam:
            a = tpl % (kk + 1) if not same_as_prev else (tpl % (kk + 1))[:-2] + "11"
            ifaces.append({"name": name, "index": idx, "addr": a, "mask": mask})
            net["v4"] = (a, mask, peer, kk + 1)
            if rng.random() < 0.15:
                a2 = "172.16.%d.10" % (k + 1)
                ifaces.append({"name": name, "index": idx, "addr": a2, "mask": "255.255.255.0"})
        if "6" in fam:
            a = "fd00:%d::10" % (kk + 1) if rng.random() < 0.7 else "fe80::%d:10" % (k + 1)
            mask6 = "ffff:ffff:ffff:ffff::"
            ifaces.append({"name": name, "index": idx, "addr": a, "mask": mask6})
            net["v6"] = (a, mask6)
        nets.append(net)
    return ifaces, nets


def peer_addr(rng, net, v4, on_link=True):
    if v4:
        if net["v4"] and on_link:
            _, _, peer, k = net["v4"]
            return peer % (k, rng.randrange(20, 250))
        return "203.0.113.%d" % rng.randrange(1, 250)
    if net["v6"] and on_link:
        base = net["v6"][0].rsplit(":", 1)[0]
        return "%s:%x" % (base, rng.randrange(0x20, 0xffff))
    return "2001:db8::%x" % rng.randrange(1, 0xffff)


def gen_service(rng, nets, used_names):
    ty = rng.choice(TYPES)
    if rng.random() < 0.3:
        ty = "%s._sub.%s" % (rng.choice(SUBS), ty)
    while True:
        name = rng.choice(INST) + rng.choice(["", "", " 2", "-b"])
        if (name.lower(), split_ty(ty)[0]) not in used_names:
            used_names.add((name.lower(), split_ty(ty)[0]))
            break
    host = rng.choice(HOSTS)
    addrs = []
    for net in nets:
        r = rng.random()
        if net["v4"] and r < 0.75:
            addrs.append(net["v4"][0] if rng.random() < 0.7 else peer_addr(rng, net, True))
        if net["v6"] and rng.random() < 0.65:
            addrs.append(net["v6"][0] if rng.random() < 0.7 else peer_addr(rng, net, False))
    if rng.random() < 0.25:
        addrs.append(rng.choice(["203.0.113.5", "2001:db8::5", "169.254.3.3"]))
    if not addrs and rng.random() < 0.8:
        net = rng.choice(nets)
        addrs.append((net["v4"] or net["v6"])[0])
    props = []
    for k in rng.sample(["k", "path", "Ver", "flag", "x"], rng.choice([0, 1, 2, 3])):
        v = rng.choice([None, b"", b"v", b"/a=b", bytes([0, 255, 61])])
        props.append([k.encode().hex(), None if v is None else v.hex()])
    return {"ty": ty, "name": name, "host": host, "ips": ",".join(addrs), "port": rng.choice([80, 8080, 631, 65535, 1]),
            "props": props, "probe": rng.random() < 0.5}


def known_answer(rng, p, svc, kind, ttl_of, owner=None):
    ty_domain, sub = split_ty(svc["ty"])
    full = svc_fullname(svc)
    half = {120: 60, 4500: 2250}
    if kind == "ptr":
        base = 4500
        ttl = rng.choice([half[base] - 1, half[base], half[base] + 1, base, 1, 0])
        p.rr(1, owner or ty_domain, 12, 1, ttl, dnsgen.rd_ptr(full))
    elif kind == "srv":
        ttl = rng.choice([59, 60, 61, 120])
        p.rr(1, owner or full, 33, rng.choice([0x8001, 0x8001, 1]), ttl, dnsgen.rd_srv(0, 0, svc["port"], svc["host"]))
    elif kind == "a":
        a4 = [a for a in svc_addrs(svc) if ":" not in a]
        if a4:
            import ipaddress
            p.rr(1, owner or svc["host"], 1, 0x8001, rng.choice([59, 60, 61, 120]),
                 dnsgen.rd_bytes(ipaddress.ip_address(rng.choice(a4)).packed))
    elif kind == "meta":
        p.rr(1, "_services._dns-sd._udp.local.", 12, 1, rng.choice([2249, 2250, 2251, 4500]), dnsgen.rd_ptr(ty_domain))


def gen_query(rng, nets, svcs, renamed):
    """One injected query: returns the dgram dict."""
    net = rng.choice(nets)
    fams = [f for f in (True, False) if net["v4" if f else "v6"]]
    v4 = rng.choice(fams)
    ifidx = net["index"]
    r = rng.random()
    if r < 0.04:
        v4 = not v4 if len(fams) == 1 else v4          # family without address on the interface: dropped
    elif r < 0.06:
        ifidx = 9                                        # unknown interface: dropped
    src_ip = peer_addr(rng, net, v4, on_link=rng.random() < 0.85)
    port = 5353 if rng.random() < 0.7 else rng.choice([40000, 5354, 1024, 65535])
    p = dnsgen.Packet(compress=rng.random() < 0.8)
    nq = rng.choice([1, 1, 1, 2, 2, 3, 4])
    pool = svcs or [{"ty": "_none._tcp.local.", "name": "nobody", "host": "nohost.local.", "ips": "", "port": 1}]
    asked = []
    for _ in range(nq):
        s = rng.choice(pool)
        ty_domain, sub = split_ty(s["ty"])
        full = svc_fullname(s)
        names_inst = [full] + [n for o, n in renamed if o == full]
        names_host = [s["host"]] + [n for o, n in renamed if o == s["host"]]
        k = rng.random()
        cls = 1 if port != 5353 or rng.random() < 0.8 else 0x8001
        if k < 0.22:
            q = (ty_domain if rng.random() < 0.92 else mixcase(rng, ty_domain), 12)
        elif k < 0.30:
            q = (sub or ("_nosub._sub." + ty_domain), 12)
        elif k < 0.40:
            q = ("_services._dns-sd._udp.local.", 12)
        elif k < 0.66:
            n = rng.choice(names_inst)
            q = (n if rng.random() < 0.5 else mixcase(rng, n), rng.choice([33, 16, 255, 255, 33, 1, 12]))
        elif k < 0.90:
            n = rng.choice(names_host)
            q = (n if rng.random() < 0.5 else mixcase(rng, n), rng.choice([1, 28, 255, 255, 1, 33]))
        else:
            q = (rng.choice(["ghost._http._tcp.local.", "nohost.local.", "_nope._tcp.local.", "local."]),
                 rng.choice([12, 33, 16, 1, 28, 255]))
        p.question(q[0], q[1], cls)
        asked.append((s, q))
    if rng.random() < 0.35:
        for s, q in asked:
            if rng.random() < 0.7:
                kind = {12: "ptr", 33: "srv", 255: "srv", 1: "a"}.get(q[1])
                if q[0].startswith("_services."):
                    kind = "meta"
                if kind:
                    owner = q[0] if rng.random() < 0.8 and kind in ("srv", "a") else None
                    known_answer(rng, p, s, kind, None, owner=owner)
    d = p.finish(flags=0, ident=rng.choice([0, 0x1234, 1, 0xffff]))
    src = ("%s:%d" % (src_ip, port)) if v4 else ("[%s]:%d" % (src_ip, port))
    return {"if": ifidx, "v4": v4, "src": src, "hex": d.hex()}


def conflict_packet(rng, svc, what):
    p = dnsgen.Packet()
    full = svc_fullname(svc)
    if what in ("inst", "both"):
        p.rr(1, full, 33, 0x8001, 120, dnsgen.rd_srv(0, 0, 9, "intruder.local."))
        if rng.random() < 0.5:
            p.rr(1, full, 16, 0x8001, 4500, dnsgen.rd_bytes(b"\x05other"))
    if what in ("host", "both"):
        p.rr(1, svc["host"], 1, 0x8001, 120, dnsgen.rd_bytes(bytes([198, 51, 100, 7])))
    return p.finish(flags=0x8400).hex()


def gen_history(rng, hid, forced=None):
    ifaces, nets = gen_topology(rng)
    used = set()
    nsvc = rng.choice([1, 2, 2, 3, 4])
    svcs = [gen_service(rng, nets, used) for _ in range(nsvc)]
    if nsvc >= 2 and rng.random() < 0.5:
        svcs[1]["ty"] = svcs[0]["ty"]                      # two services of one type (meta-query duplicates)
        if (svcs[1]["name"].lower(), split_ty(svcs[1]["ty"])[0]) in [(s["name"].lower(), split_ty(s["ty"])[0]) for s in svcs[:1]]:
            svcs[1]["name"] += " II"
    if nsvc >= 2 and rng.random() < 0.4:
        svcs[1]["host"] = svcs[0]["host"]
    roles = []
    for i, s in enumerate(svcs):
        roles.append(rng.choice(["A", "A", "A", "U", "P", "R", "N"]))
    steps = []
    t = T0
    first = [{"op": "monitor", "ch": "m"}]
    renamed = []
    conflicts = []
    for s, r in zip(svcs, roles):
        if r in ("A", "U", "R"):
            first.append({"op": "register", "svc": s})
        elif r == "N":
            s["probe"] = True
            first.append({"op": "register", "svc": s})
            what = rng.choice(["inst", "host", "both"])
            net = rng.choice(nets)
            v4 = bool(net["v4"])
            src = peer_addr(rng, net, v4)
            conflicts.append({"if": net["index"], "v4": v4, "src": ("%s:5353" % src) if v4 else ("[%s]:5353" % src),
                              "hex": conflict_packet(rng, s, what)})
            full = svc_fullname(s)
            if what in ("inst", "both"):
                renamed.append((full, full.split(".", 1)[0] + " (2)." + full.split(".", 1)[1]))
            if what in ("host", "both"):
                renamed.append((s["host"], s["host"].split(".", 1)[0] + "-2." + s["host"].split(".", 1)[1]))
    steps.append({"t": t, "d": 0, "calls": first})
    if conflicts:
        steps.append({"t": t + 5, "d": 0, "dgrams": conflicts})
    # settle: probing (also of renamed records), both announcements; the empty steps make the daemon run
    # once more in case it did not ask to be woken for pending work
    steps.append({"run_until": t + 4000})
    steps.append({"t": t + 4001, "d": 0})
    steps.append({"run_until": t + 5500})
    steps.append({"t": t + 5501, "d": 0})
    t += 5501
    live = [s for s, r in zip(svcs, roles) if r in ("A", "U", "R", "N")]
    for i in range(rng.choice([3, 4, 5])):
        t += 10
        steps.append({"t": t, "d": 0, "dgrams": [gen_query(rng, nets, live, renamed)]})
    # second phase: unregister, re-register, new registrations that are still probing
    t = T0 + 7000
    calls = []
    for s, r in zip(svcs, roles):
        if r == "U":
            calls.append({"op": "unregister", "name": svc_fullname(s), "ch": "u%d" % len(calls)})
        elif r == "R":
            s2 = dict(s)
            s2["port"] = s["port"] ^ 1
            s2["props"] = [["6e6577", "31"]]
            if rng.random() < 0.5 and nets[0]["v4"]:
                s2["ips"] = nets[0]["v4"][0]
            s2["probe"] = False
            calls.append({"op": "register", "svc": s2})
            s.update(s2)
        elif r == "P":
            s["probe"] = True
            calls.append({"op": "register", "svc": s})
    if calls:
        steps.append({"t": t, "d": 0, "calls": calls})
        steps.append({"run_until": t + 300})
        t += 300
        for i in range(rng.choice([2, 3, 4])):
            t += 10
            steps.append({"t": t, "d": 0, "dgrams": [gen_query(rng, nets, svcs, renamed)]})
        steps.append({"run_until": T0 + 11000})
        steps.append({"t": T0 + 11001, "d": 0})
        steps.append({"run_until": T0 + 12500})
        steps.append({"t": T0 + 12501, "d": 0})
        t = T0 + 12501
        for i in range(rng.choice([2, 3, 5])):
            t += 10
            steps.append({"t": t, "d": 0, "dgrams": [gen_query(rng, nets, svcs, renamed)]})
    return {"id": hid, "t0": T0, "daemons": [{"seed": rng.randrange(1, 1000), "ifaces": ifaces}], "link": "none",
            "steps": steps}


def generate(rng, tier):
    n = 2500 if tier == "quick" else 40000
    m = 300 if tier == "quick" else 3000
    return ([Case(jdump(gen_history(rng, "c06-%d" % i)), "history") for i in range(n)]
            + [Case(jdump(gen_nonascii(rng, "na-%d" % i)), "nonascii") for i in range(m)])


# --------------------------------------------------------------------------- model-free family: non-ASCII names
# Case mapping of non-ASCII letters is outside the Coq model (Base/Bytes.v lower-cases ASCII only), so names with
# non-ASCII cased letters are kept out of the modelled histories.  This family registers services whose instance
# and host names contain such letters and asks for them in EXACTLY the registered spelling: whatever the daemon does
# about case, an exact-spelling question must be answered with the right record types under the right owner.  The
# expectation is computed here (projection); the model line is the constant "NA ok".

NA_INST = ["ÉCOLE Ñandú", "Çà et LÀ", "ÄÖÜ printer", "Ωmega Σ", "ПРИНТЕР 7", "İstanbul", "straße ẞ"]
NA_HOST = ["HÔTE-É.local.", "Ñandú-box.local.", "ÜBER.local.", "СЕРВЕР.local."]


def is_na(line):
    return line.startswith('{"id":"na-')


def gen_nonascii(rng, hid):
    ifaces = [{"name": "eth0", "index": 2, "addr": "192.168.1.10", "mask": "255.255.255.0"}]
    v6 = rng.random() < 0.5
    if v6:
        ifaces.append({"name": "eth0", "index": 2, "addr": "fd00:1::10", "mask": "ffff:ffff:ffff:ffff::"})
    svcs = []
    for k in range(rng.choice([1, 2])):
        ips = "192.168.1.10" + (",fd00:1::10" if v6 else "")
        svcs.append({"ty": rng.choice(["_http._tcp.local.", "_ipp._tcp.local."]),
                     "name": rng.choice(NA_INST) + ("" if k == 0 else " %d" % k), "host": rng.choice(NA_HOST),
                     "ips": ips, "port": 8000 + k, "props": [["6b", "76"]], "probe": rng.random() < 0.5})
    steps = [{"t": T0, "d": 0, "calls": [{"op": "register", "svc": s} for s in svcs]},
             {"run_until": T0 + 4000}, {"t": T0 + 4001, "d": 0}, {"run_until": T0 + 5500}, {"t": T0 + 5501, "d": 0}]
    t = T0 + 5501
    for s in svcs:
        full = svc_fullname(s)
        for name, ty in [(full, 33), (full, 16), (full, 255), (s["host"], 1), (s["host"], 255)] + ([(s["host"], 28)] if v6 else []):
            if rng.random() < 0.75:
                t += 10
                v4 = (not v6) or rng.random() < 0.6
                p = dnsgen.Packet(compress=rng.random() < 0.7)
                p.question(name, ty)
                port = 5353 if rng.random() < 0.8 else 40001
                src = ("192.168.1.%d:%d" % (rng.randrange(20, 200), port)) if v4 else ("[fd00:1::%x]:%d" % (rng.randrange(0x20, 0xfff), port))
                steps.append({"t": t, "d": 0, "dgrams": [{"if": 2, "v4": v4, "src": src,
                                                          "hex": p.finish(flags=0, ident=rng.choice([0, 77])).hex()}]})
    return {"id": hid, "t0": T0, "daemons": [{"seed": rng.randrange(1, 1000), "ifaces": ifaces}], "link": "none",
            "steps": steps}


def project_na(line, raw):
    h = json.loads(line)
    res = json.loads(raw)
    if "error" in res:
        return "NA harness-error"
    svcs = [c["svc"] for c in h["steps"][0]["calls"]]
    v6 = any(":" in e["addr"] for e in h["daemons"][0]["ifaces"])
    bad = []
    n = 0
    for st, rec in align(h, res):
        if "run_until" in st or not st.get("dgrams") or rec is None:
            continue
        g = st["dgrams"][0]
        n += 1
        q = dnsgen.parse_packet(bytes.fromhex(g["hex"]))["q"][0]
        qname, qty = dnsgen.dotted(q[0]), q[1]
        want = set()
        for s in svcs:
            if qname == svc_fullname(s).encode():
                want |= {(qname, t) for t in ((33,) if qty == 33 else (16,) if qty == 16 else (33, 16))}
            if qname == s["host"].encode():
                if qty in (1, 255):
                    want.add((qname, 1))
                if qty in (28, 255) and v6:
                    want.add((qname, 28))
        got = set()
        pkts = [pk for x, pk in parsed_sent(rec) if pk is not None and (pk["flags"] & 0x8000)]
        for pk in pkts:
            for rr in pk["an"]:
                got.add((dnsgen.dotted(rr["name"]), rr["type"]))
        if got != want or len(pkts) != (1 if want else 0):
            bad.append("q%d:%s/%d want=%s got=%s" % (n, hx(qname), qty, sorted(t for _, t in want), sorted(t for _, t in got)))
    return "NA ok" if not bad else "NA bad " + " ".join(bad)


# --------------------------------------------------------------------------- observation / model input

def _walk(line, raw):
    """-> (list of (iface group of the query | None, nc token, services token, dgram, record))"""
    h = json.loads(line)
    res = json.loads(raw)
    ifaces = h["daemons"][0]["ifaces"]
    groups = group_ifaces(ifaces)
    reg = Registrations(ifaces)
    out = []
    for st, rec in align(h, res):
        if "run_until" in st:
            for r in rec:
                reg.observe(r)
            continue
        if rec is None:
            continue
        if st.get("dgrams") and not st.get("calls"):
            qs = [g for g in st["dgrams"] if not (int(g["hex"][4:8], 16) & 0x8000)]
            if len(qs) == 1 and len(st["dgrams"]) == 1:
                g = qs[0]
                grp = [x for x in groups if x[0] == g["if"]]
                grp = grp[0] if grp else None
                out.append((grp, reg.nc_tok(grp[1]) if grp else "-", reg.svcs_tok(g["if"]), g, rec))
                for evs in (rec.get("events") or {}).values():
                    for e in evs:
                        if e.get("e") == "NameChange":
                            reg.renames.setdefault(e["intf"], []).insert(0, (e["original"], e["new_name"]))
                continue
        reg.apply_calls(st, rec)
        reg.observe(rec)
    return out


def project(line, raw):
    if is_na(line):
        return project_na(line, raw)
    outs = []
    for grp, nc, svcs, g, rec in _walk(line, raw):
        resp = [packet_tok(x, pk) for x, pk in parsed_sent(rec) if pk is None or (pk["flags"] & 0x8000)]
        outs.append("&".join(resp) if resp else "none")
    return "answered=%d/%d %s" % (sum(1 for o in outs if o != "none"), len(outs), " | ".join(outs))


def model_input(line, raw):
    if is_na(line):
        return "na"
    toks = ["c06"]
    for grp, nc, svcs, g, rec in _walk(line, raw):
        toks += ["Q", myintf_tok(grp) if grp else "0/-/-", nc, svcs, src_tok(g["src"]), g["hex"]]
    return " ".join(toks)


def nontrivial(line, result):
    return "dest=" in result or result == "NA ok"


def known_class(line, impl, mon):
    """A monitor rejection is a known finding iff every rejected query is explained by the text plus listed
    deviations only (the monitor prints the smallest explaining set)."""
    if not mon.startswith("FAIL "):
        return None
    first = None
    for tok in mon[5:].split(" "):
        if ":quirks=" not in tok:
            return None
        for q in tok.split(":quirks=", 1)[1].split("+"):
            fid = "C06-" + q.replace("_", "-")
            if fid not in KNOWN_IDS:
                return None
            first = first or fid
    return first


KNOWN_IDS = set()
try:
    import os
    _k = json.load(open(os.path.join(vlib.VERIF, "known", "C06.json")))
    KNOWN_IDS = {f["id"] for f in _k.get("findings", [])}
except Exception:
    pass


def shrink(line, still_bad):
    """drops query steps, then services, never the settling runs"""
    if is_na(line):
        h = json.loads(line)
        qs = [i for i, st in enumerate(h["steps"]) if st.get("dgrams")]
        for i in reversed(qs):
            hh = dict(h)
            hh["steps"] = h["steps"][:i] + h["steps"][i + 1:]
            if still_bad(jdump(hh)):
                h = hh
        return jdump(h)
    h = json.loads(line)
    changed = True
    tries = 0
    while changed and tries < 300:
        changed = False
        for i in range(len(h["steps"]) - 1, -1, -1):
            st = h["steps"][i]
            if "run_until" in st:
                continue
            if st.get("dgrams") or st.get("calls"):
                cands = []
                if st.get("dgrams"):
                    cands.append(h["steps"][:i] + h["steps"][i + 1:])
                if st.get("calls") and len(st["calls"]) > 1:
                    for j in range(len(st["calls"])):
                        st2 = dict(st)
                        st2["calls"] = st["calls"][:j] + st["calls"][j + 1:]
                        cands.append(h["steps"][:i] + [st2] + h["steps"][i + 1:])
                for c in cands:
                    hh = dict(h)
                    hh["steps"] = c
                    tries += 1
                    if still_bad(jdump(hh)):
                        h = hh
                        changed = True
                        break
            if changed:
                break
    return jdump(h)


def search(rng, problems, disagreeing):
    return generate(rng, "quick")
