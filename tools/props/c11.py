"""C11  Records live for their TTL, refresh at 80/85/90/95 %, obey cache-flush."""
import lifelib as L
from vlib import Case

ID = "C11"
CLAIMED = True
MODEL_GROUP = "life"
THEOREM_FILE = "Props/C11.v"
HARNESS_ENV = {"VERIF_WATCHDOG_MS": "30000"}
PER_SHARD = 40
LEVEL_TEXT = ("Coq theorems over a Gallina model of the record lifetime arithmetic and of the cache rules "
              "(DnsRecord, DnsCache::add_or_update / refresh_due_* / evict_expired_*): lifetime = T + 1000*max(1,ttl) for "
              "every TTL and time; the refresh ladder characterised for EVERY sequence of observation times "
              "(one mark per call, never at/after expiry, restart on reset_ttl, once for hostname resolvers); full "
              "functional specification of the cache-flush one-second rule; no u64/u32 overflow below 2^63. The model "
              "calls definitions regenerated from the Rust source on every run (Gen/ParamsLife.v, pinned to the literal "
              "numbers by reflexivity), is compared with the real DnsRecord objects on generated operation histories "
              "(K3) and with the real daemon in the simulated world (K6: refresh queries at the marks, removal events "
              "at expiry and one second after a cache-flush), and the theorem statements are executed as monitors")
TECHNIQUE = ("machine-checked proof in Coq (refinement of the record operations to an abstract ladder state, induction "
             "over operation histories and over the cache Vec) + regenerated parameters + model/implementation correspondence")
LEVELS = ("K3 (real DnsRecord objects through the facade: life_ops, expiration_time) + "
          "K6 (real ServiceDaemon in the simulated world: browse / resolve_hostname with injected responses)")
RULE = ("record level: operation histories (refresh_maybe / updated_refresh_time / is_expired / expires_soon / refresh_due / "
        "halflife_passed / reset_ttl / set_expire_sooner / refresh_no_more / snapshot, plus remaining_ttl, update_ttl, "
        "set_expire outside the daemon alphabet) at the 50/80/85/90/95/100 % marks +-1 ms and +-1000 ms, TTL 0,1,2,3, odd/even, "
        "120, 4500, 2^31, 2^32-1, every TTL 1..300, creation times up to 2^64-1; daemon level: histories of injected "
        "responses (TTL 0..47 s, flush bit, two interfaces, fresh copies = renewals, goodbyes), half of them with the interface "
        "check switched off (set_ip_check_interval 0) so that only the records' own timers wake the daemon, observed "
        "timer-exactly and with late wake-ups; inside timer-exact runs the model is also stepped at every mark / expiry time "
        "of a received record at which the daemon did not iterate (a missing timer shows as a prescribed, unobserved query); a case is non-trivial when it is not SKIP and contains at least one operation / one observation; "
        "distinct = distinct case lines")
TRUSTED = [
    "Coq 8.16.1 kernel (coqc); vm_compute only in the non-vacuity Examples",
    "axioms: none (Print Assumptions: Closed under the global context for every theorem)",
    "extraction (ExtrOcamlBasic only, no Extract Constant) + ocaml/life/driver.ml for correspondence and monitors",
    "tools/extract_params.py + tools/params/life.py: 37 anchored one-line bodies/constants of dns_parser.rs and dns_cache.rs "
    "translated into Gen/ParamsLife.v (a lost anchor fails the check)",
    "hooks: src/verif_hooks.rs facade (life_ops, expiration_time; field copying only), virtual clock, simulated daemon "
    "world (sockets, poll, interface table replaced); harness/src/life.rs, harness/src/sim.rs",
    "modelled, not verified: the structure of refresh_maybe / reset_ttl / add_or_update beyond the regenerated "
    "expressions (tied by correspondence); HashMap/HashSet iteration order (observations are sorted); InterfaceId "
    "equality modelled as index equality; one loop iteration sees one clock value",
    "tools/props/lifelib.py projection of simulation traces (queries of type PTR/SRV/TXT/A/AAAA, ServiceRemoved, "
    "AddressesRemoved) and tools/dnsgen.py packet parser",
]
PARTIAL = ("daemon level: the theorem C11_daemon_level_refinement covers the cache / refresh / evict layer for one browsed "
           "type and one resolved hostname over arbitrary histories of iterations (queries compared by their question lists, "
           "ServiceRemoved, AddressesRemoved); the rest of the daemon around that layer (packet decoding, which channel gets the "
           "event, retransmission schedule, resolve logic of unresolved instances) is tied by the K6 correspondence and the "
           "monitor only. What happens when SRV/TXT/address records of a still-listed instance expire before its PTR is left to "
           "C05/C03 (generated histories keep the PTR the first to expire). That every refresh mark and every expiry of a "
           "cached record has a timer is now a theorem over all histories of this model with per-record timer logs "
           "(Props/C12Cache.v: C12_cache_timers_cover_due_work, incl. renewals, goodbyes, cache-flush, late wake-ups, browse / "
           "resolve start and stop), and the timer-exact runs observe it on the daemon. The monitor compares canonical renderings (sorted) of the extracted spec_run's "
           "observations with the projected trace; that rendering/sorting is OCaml/Python code, not Coq.")


def generate(rng, tier):
    quick = tier == "quick"
    cases = []
    n = 12000 if quick else 120000
    for _ in range(n // 2):
        cases.append(Case(L.gen_life_case(rng, True), "life-daemon-ops"))
    for _ in range(n // 6):
        cases.append(Case(L.gen_life_case(rng, False), "life-all-ops"))
    for ttl in list(range(1, 301)) + [4500, 65535, 1 << 31, L.U32 - 2, L.U32 - 1] + [rng.randrange(1, L.U32) for _ in range(35)]:
        for _ in range(2 if quick else 6):
            cases.append(Case(L.mark_walk_case(rng, ttl, rng.choice([1_000_000, 1_700_000_000_000, (1 << 62)])), "mark-walk"))
    for _ in range(n // 12):
        cases.append(Case(L.gen_exp_case(rng), "exp"))
    ns = 400 if quick else 2500
    for k in range(ns):
        cases.append(L.case_of(L.gen_host(rng, "host%d" % k), "sim-host"))
        cases.append(L.case_of(L.gen_ptr(rng, "ptr%d" % k), "sim-ptr"))
        cases.append(L.case_of(L.gen_svc(rng, "svc%d" % k), "sim-svc"))
        cases.append(L.case_of(L.gen_mix(rng, "mix%d" % k), "sim-mix"))
        cases.append(L.case_of(L.gen_renew(rng, "renew%d" % k), "sim-renew"))
    return cases


project = L.project
model_input = L.model_input


def shrink(line, still_bad):
    s = L.shrink(line, still_bad)
    if s is not None:
        return s
    import vlib
    return vlib.shrink(ID, line, None, still_bad)


def nontrivial(line, result):
    if result == "SKIP":
        return False
    if line.startswith("lsim "):
        return result not in ("SIM -", "RSP -") and "DEAD" not in result
    return not line.endswith(" -")


def known_class(line, impl_result, monitor_result):
    return None


def search(rng, problems, disagreeing):
    return generate(rng, "thorough")[:30000]
