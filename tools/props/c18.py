"""C18  Each interface is its own link; nothing leaks or outlives its removal."""
import ipaddress
import json

import dnsgen
import vlib
from resplib import (T0, hx, ifaddr_tok, ip_tok, jdump, mixcase, packet_tok, parsed_sent, split_ty, src_tok,
                     svc_fullname, svc_tok, default_mask, dest_tok, section_tok)
from vlib import Case

ID = "C18"
CLAIMED = True
MODEL_GROUP = "responder"
THEOREM_FILE = "Props/C18.v"
HARNESS_ARGS = ["sim"]
PER_SHARD = 8
LEVEL_TEXT = ("Coq theorems over Gallina models of the interface layer. Components: interface selection (last matching "
              "selection wins, all selection lists over every IfKind constructor except Predicate, all tables; Addr "
              "resolved at call time), valid_ip_on_intf = equality under the netmask for all addresses and masks, "
              "per-interface address filtering, the interface table after apply_intf_selections / check_ip_changes, full "
              "functional statements of DnsCache::remove_records_on_intf and remove_addrs_on_disabled_intf. Over ALL "
              "histories of the daemon model (Model/IntfDaemon.v; induction over the step list, no bound): a state "
              "invariant holds initially and is preserved by every step (interface-table changes, IP checks, enable / "
              "disable of every kind, register, unregister, datagrams, due retransmissions); every packet emitted in "
              "any history outside the known class C18-selection-while-absent leaves on an interface the daemon holds, "
              "of a family that interface has, enabled by its last matching selection, and carries only addresses in "
              "a subnet of an address of that interface; after an IP check nothing in the cache is attributed to a "
              "removed interface (for every state); and the executable checker chk_C18 ACCEPTS THE RUN OF THE MODEL ON EVERY "
              "HISTORY (C18_checker_accepts_every_run; hypotheses, all decidable and satisfied by every generated "
              "history: unique (interface, address) pairs per OS table, netmasks that fit their family, no IPv4 address "
              "reported on two interfaces anywhere in the history, history outside C18-selection-while-absent), for all "
              "clauses of the checker: packets, IpAdd/IpDel, addresses of resolved instances (cache invariant: every "
              "cached address record belongs to an interface the daemon holds), order and last word of IpDel/IpAdd. "
              "The checker chk_C18 (necessary conditions on a trace) also demands "
              "that every address of a resolved instance was learned on an interface that is not dropped (no entry "
              "enabled, all reported by the OS), and that within one IP check an address is never withdrawn from "
              "the services after it was added (IpDel after IpAdd of an address the OS has on one entry, in an "
              "iteration without enable/disable calls), and that the last IpAdd/IpDel event of an iteration about an "
              "address is not IpDel when the OS table has the address on an entry enabled throughout the iteration "
              "(former finding C18-del-of-held-address, repaired by 0f7c6ac). The daemon model is tied to the Rust by a differential run of the "
              "real daemon in the simulated world, with the checker chk_C18 run on the implementation's trace")
TECHNIQUE = ("machine-checked proof in Coq (selection law by induction over the selection list, bitwise subnet law, "
             "membership characterisations of the cache operations) + model/implementation correspondence on the "
             "simulated daemon with a changing interface table")
LEVELS = "K6 (real ServiceDaemon in the simulated world with a simulated OS interface table)"
RULE = ("histories of 8-18 iterations over topologies of 1-3 interfaces (+ optional loopback) with IPv4 and/or IPv6 "
        "addresses on differing subnets: enable/disable calls with every IfKind constructor, interface-table changes "
        "(interface down/up, one family removed, address added, address moved to another interface, new interface), "
        "registrations with explicit and automatic addresses, unregistration, injected queries on every "
        "interface/family, browsing with injected responses learned on one or two interfaces, IP checks every 1 s or "
        "5 s; one case = one history; non-trivial = the daemon sent a packet or reported an event; distinct = distinct "
        "histories.  Restrictions that keep the observation a function of the history: one fixed IPv4 address per "
        "interface (IPv6 addresses are added, removed and moved freely), at most three browsed instances, identical "
        "content when an announcement is heard again, only explicit time steps.  An announcement heard on an "
        "interface may carry the peer's address of the other family too, whether or not the interface has that "
        "family.  Family xfam (160 histories): an interface with addresses of ONE family (IPv4-only or IPv6-only) "
        "hears announcements with A and AAAA records; it is then disabled by name / index / family / address / All "
        "or disappears from the OS table; then a fresh browse, a TXT update or the announcement again on another "
        "interface makes the daemon report the instance again; sometimes the interface comes back and is asked "
        "once more.  Family held (160 histories): an address the daemon holds shows up on another entry (moved to "
        "another interface, other prefix length, or on two interfaces at once) and an enable/disable call makes the "
        "daemon take up the new entry before the IP check that drops the old one (or disables one of the two); then "
        "queries for the auto-address service on the interface that has the address, and unregistration.  "
        "The IpAdd / IpDel events of an iteration are compared as a set plus, for an address with "
        "several events, their order.  Every generated history satisfies the hypotheses of "
        "C18_checker_accepts_every_run (hist_wf_py: unique pairs per table, one interface per IPv4 address).  "
        "Model-free family nonascii (80 histories; the model folds ASCII only): an instance whose SRV target has "
        "non-ASCII capitals (controls: lower-case non-ASCII, ASCII mixed case, plain) has PTR/SRV/TXT learned on eth1 "
        "and address records on eth0 and eth1 (0-2 families each, the host name on eth0 sometimes in another ASCII "
        "case); eth0 disappears (IP check) or is disabled; the projection demands, after the check, a ServiceResolved "
        "with exactly the addresses learned on eth1 (ServiceRemoved if none) and the same from a fresh browse")
TRUSTED = [
    "Coq 8.16.1 kernel (coqc); vm_compute only in the non-vacuity Examples",
    "axioms: none (Print Assumptions: Closed under the global context for every theorem)",
    "extraction (ExtrOcamlBasic only) + ocaml/responder/driver.ml",
    "tools/extract_params.py + tools/params/responder.py: default selection = enabled, subnet comparison, IP check "
    "interval and due-test, TTL constants",
    "hooks: cargo feature verif-hooks (simulated interface table, sockets, clock, per-iteration gate)",
    "Model/IntfDaemon.v is an executable model of the daemon restricted to the features C18 observes; it is "
    "validated against the Rust by the correspondence run (0 disagreements); the history-level theorems are about "
    "this model",
    "observation function of the simulated world: an IPv4 packet is reported on the interface that owns, in the OS "
    "table of the moment, the address given to IP_MULTICAST_IF; per browsed instance only the last "
    "resolved/removed event of an iteration is compared (HashMap order of simultaneous interface removals)",
    "modelled, not verified: the daemon's own queries, probing, SearchStarted and monitor events other than IpAdd/IpDel "
    "are removed from the observation; record expiry is outside the histories (TTL 4500 s, histories < 40 s)",
]
PARTIAL = ("A run in which one listener is sent more than 10 events within one iteration blocks the daemon (known finding C14-full-listener-blocks-daemon) and is not judged here (projection SKIP).  Theorems over all histories: C18_invariant_reachable, C18_step_preserves_invariant, "
           "C18_every_packet_justified, C18_checker_accepts_every_run (hypotheses: unique (interface, address) pairs per "
           "OS table; hist_wf = netmasks fit their family and no IPv4 address on two interfaces in the whole history; "
           "history outside the decidable class known_class = finding C18-selection-while-absent, witness "
           "C18_known_class_witness), C18_check_forgets_removed_interfaces (every state). The IPv4 hypothesis is needed: "
           "with one IPv4 address on two interfaces the packet for an enabled interface is seen on the first owner of "
           "the address (IP_MULTICAST_IF is given an address), also a disabled one - model, checker and the real daemon "
           "in the simulated world agree on that (C18_same_ipv4_on_two_interfaces_example; outside the property's "
           "quantifier 'differing subnets'). Not a theorem: the address records of a packet are tied to the "
           "interface's subnets in the history theorems and to the SERVICE's address list only in the component "
           "theorems (C18_announcement_only_link_addresses, ...). IfKind::Predicate and "
           "multicast group membership are outside the model. The cache attributes a PTR/SRV/TXT record heard on "
           "several interfaces to the first one only (C18_record_keeps_first_interface); the removal statements are "
           "relative to that attribution; the disable path drops only address records (as the code does).")

LO = [{"name": "lo", "index": 1, "addr": "127.0.0.1", "mask": "255.0.0.0"},
      {"name": "lo", "index": 1, "addr": "::1", "mask": "ffff:ffff:ffff:ffff:ffff:ffff:ffff:ffff"}]


def mk_iface(k, fam, rng):
    """interface number k (index 2+k) with its own subnets"""
    idx, name = 2 + k, "eth%d" % k
    out = []
    if "4" in fam:
        base = rng.choice(["192.168.%d" % (k + 1), "10.%d.0" % (k + 1)])
        mask = "255.255.255.0" if base.startswith("192") else "255.255.0.0"
        out.append({"name": name, "index": idx, "addr": base + ".10", "mask": mask})
    if "6" in fam:
        out.append({"name": name, "index": idx, "addr": "fd00:%d::10" % (k + 1), "mask": "ffff:ffff:ffff:ffff::"})
    return out


def gen_table(rng):
    n = rng.choice([1, 2, 2, 3, 3])
    tbl = []
    for k in range(n):
        tbl += mk_iface(k, rng.choice(["4", "6", "46", "46"]), rng)
    if rng.random() < 0.3:
        tbl = LO[: rng.choice([1, 2])] + tbl
    return tbl


def ip_plus(a, n):
    a = ipaddress.ip_address(a) if isinstance(a, str) else a
    return str((ipaddress.IPv4Address if a.version == 4 else ipaddress.IPv6Address)(int(a) + n))


def peer_of(e, rng):
    a = ipaddress.ip_address(e["addr"])
    if a.version == 4:
        # anywhere in the subnet: a /16 (or the /8 of the loopback) also varies the third octet
        wide = e.get("mask") in ("255.255.0.0", "255.0.0.0")
        return ip_plus(a, rng.randrange(1, 200) + (256 * rng.randrange(0, 200) if wide else 0))
    if a.is_loopback:
        return "::1"
    return ip_plus(a, rng.randrange(0x100, 0xffff) + (rng.randrange(0, 0xffff) << 32))


def gen_kind(rng, tbl_all):
    e = rng.choice(tbl_all) if tbl_all else {"name": "eth0", "index": 2, "addr": "192.168.1.10"}
    k = rng.choice(["All", "IPv4", "IPv6", "Name", "Name", "Addr", "Addr", "LoopbackV4", "LoopbackV6", "IndexV4", "IndexV6"])
    if k == "Name":
        return {"k": k, "v": rng.choice([e["name"], e["name"], "eth9"])}
    if k == "Addr":
        return {"k": k, "v": rng.choice([e["addr"], e["addr"], "192.0.2.1"])}
    if k in ("IndexV4", "IndexV6"):
        return {"k": k, "v": rng.choice([e["index"], e["index"], 7])}
    return {"k": k}


def one_v4_per_index(tbl, pool):
    """The simulated world reports the interface an IPv4 packet leaves on through the ADDRESS given to
    IP_MULTICAST_IF.  If the daemon's view of an interface held two IPv4 addresses owned by different
    interfaces of the OS table, its choice between them (HashSet order) would be visible.  Generated
    histories therefore keep one fixed IPv4 address per interface (it may vanish and come back); IPv6
    addresses are added, removed and moved between interfaces freely."""
    fixed = {e["index"]: e["addr"] for e in pool if ":" not in e["addr"]}
    return all(":" in e["addr"] or fixed.get(e["index"]) == e["addr"] for e in tbl)


def mutate_table(rng, cur, pool):
    for _ in range(6):
        t = mutate_table1(rng, cur, pool)
        if one_v4_per_index(t, pool):
            return t
    return list(pool)


def mutate_table1(rng, cur, pool):
    """one interface event"""
    cur = [dict(e) for e in cur]
    r = rng.random()
    idxs = sorted({e["index"] for e in cur})
    if r < 0.25 and idxs:                                   # interface down
        i = rng.choice(idxs)
        return [e for e in cur if e["index"] != i]
    if r < 0.40 and cur:                                    # one address (maybe a whole family) removed
        e = rng.choice(cur)
        return [x for x in cur if x is not e]
    if r < 0.60:                                            # an interface (back) up / new interface
        missing = [e for e in pool if e not in cur]
        if missing:
            e = rng.choice(missing)
            return cur + [x for x in missing if x["index"] == e["index"]]
    if r < 0.75 and cur:                                    # additional address on an interface
        e = rng.choice(cur)
        a = ipaddress.ip_address(e["addr"])
        new = dict(e)
        new["addr"] = ip_plus(a, 1) if rng.random() < 0.6 else \
            ("172.16.%d.10" % e["index"] if a.version == 4 else "fd77:%d::10" % e["index"])
        if a.version == 4 and new["addr"].startswith("172."):
            new["mask"] = "255.255.255.0"
        if new not in cur:
            return cur + [new]
    if r < 0.90 and len(idxs) >= 2:                         # an address moves to another interface
        e = rng.choice(cur)
        others = [x for x in cur if x["index"] != e["index"]]
        if others:
            o = rng.choice(others)
            moved = dict(e)
            moved["index"], moved["name"] = o["index"], o["name"]
            res = [x for x in cur if x is not e]
            if moved not in res:
                return res + [moved]
    return list(pool)                                        # everything restored


def gen_service(rng, k, pool, auto=None):
    ty = rng.choice(["_http._tcp.local.", "_ipp._tcp.local."])
    name = rng.choice(["Svc", "web", "LAB"]) + str(k)
    auto = rng.random() < 0.45 if auto is None else auto
    ips = "auto"
    if not auto:
        addrs = []
        for e in rng.sample(pool, min(len(pool), rng.choice([1, 2, 3]))):
            addrs.append(e["addr"] if rng.random() < 0.6 else peer_of(e, rng))
        if rng.random() < 0.2:
            addrs.append("203.0.113.9")
        ips = ",".join(dict.fromkeys(addrs))
    return {"ty": ty, "name": name, "host": rng.choice(["hosta.local.", "HostB.local."]), "ips": ips,
            "port": rng.choice([80, 631]), "props": [["6b", "76"]] if rng.random() < 0.5 else [], "probe": False}


def query_dgram(rng, cur_all, svcs):
    e = rng.choice(cur_all)
    v4 = ipaddress.ip_address(e["addr"]).version == 4
    p = dnsgen.Packet()
    s = rng.choice(svcs) if svcs else None
    r = rng.random()
    if s is None or r < 0.15:
        p.question("_services._dns-sd._udp.local.", 12)
    elif r < 0.6:
        p.question(split_ty(s["ty"])[0], 12)
    elif r < 0.8:
        p.question(s["host"], rng.choice([1, 28, 255]))
    else:
        p.question(svc_fullname(s), rng.choice([33, 255]))
    src = peer_of(e, rng)
    port = 5353 if rng.random() < 0.85 else 40000
    return {"if": e["index"], "v4": v4, "src": ("%s:%d" % (src, port)) if v4 else ("[%s]:%d" % (src, port)),
            "hex": p.finish(flags=0, ident=0).hex()}


def host_addr(e, hostnum):
    """the address host number `hostnum` has on the link of OS entry e (always the same one, so that a
    repeated announcement refreshes the cached records instead of flushing them)"""
    a = ipaddress.ip_address(e["addr"])
    if a.version == 4:
        return "198.18.%d.%d" % (e["index"], 60 + hostnum)
    return "fd99:%d::%x" % (e["index"], 0x600 + hostnum)


def response_dgram(rng, e, ty, inst, hostnum, other=None, cross=False, txt=b"\x03a=b", only_txt=False):
    """a peer's complete announcement of instance `inst`, heard on the interface of OS entry e;
    `other` = entry of the other family on the same interface whose address is announced too;
    `cross` = the announcement carries the peer's address of the OTHER family as well, whether or not the
    receiving interface has that family (an AAAA record in a packet that arrived over IPv4 and vice versa: the
    cache attributes a record to the receiving interface, not to the family of the packet);
    `only_txt` = a TXT update: PTR + a TXT record without the cache-flush bit"""
    v4 = ipaddress.ip_address(e["addr"]).version == 4
    host = "peerhost%d.local." % hostnum
    peer = host_addr(e, hostnum)
    p = dnsgen.Packet()
    full = inst + "." + ty
    p.rr(1, ty, 12, 1, 4500, dnsgen.rd_ptr(full))
    if only_txt:
        p.rr(1, full, 16, 1, 4500, dnsgen.rd_bytes(txt))
        return {"if": e["index"], "v4": v4, "src": ("%s:5353" % peer) if v4 else ("[%s]:5353" % peer),
                "hex": p.finish(flags=0x8400).hex()}
    p.rr(1, full, 33, 0x8001, 4500, dnsgen.rd_srv(0, 0, 7000, host))
    p.rr(1, full, 16, 0x8001, 4500, dnsgen.rd_bytes(txt))
    p.rr(1, host, 1 if v4 else 28, 0x8001, 4500, dnsgen.rd_bytes(ipaddress.ip_address(peer).packed))
    if other is not None:
        o = ipaddress.ip_address(host_addr(other, hostnum))
        p.rr(1, host, 1 if o.version == 4 else 28, 0x8001, 4500, dnsgen.rd_bytes(o.packed))
    elif cross:
        o = ipaddress.ip_address(host_addr({"addr": "::" if v4 else "0.0.0.0", "index": e["index"]}, hostnum))
        p.rr(1, host, 1 if o.version == 4 else 28, 0x8001, 4500, dnsgen.rd_bytes(o.packed))
    return {"if": e["index"], "v4": v4, "src": ("%s:5353" % peer) if v4 else ("[%s]:5353" % peer),
            "hex": p.finish(flags=0x8400).hex()}


def gen_history(rng, hid):
    pool = gen_table(rng)
    if rng.random() < 0.4:                                   # an interface that only shows up later
        extra = mk_iface(3, rng.choice(["4", "46"]), rng)
    else:
        extra = []
    full_pool = pool + extra
    cur = list(pool)
    t = T0
    first = [{"op": "monitor", "ch": "m"}]
    if rng.random() < 0.8:
        first.append({"op": "set_ip_check_interval", "secs": 1})
    browse_ty = "_peer._udp.local."
    browsing = rng.random() < 0.6
    nb = 0
    if browsing:
        first.append({"op": "browse", "ty": browse_ty, "ch": "b0"})
        nb = 1
    for _ in range(rng.choice([0, 0, 1, 2])):
        first.append({"op": rng.choice(["enable_interface", "disable_interface"]),
                      "kinds": [gen_kind(rng, full_pool) for _ in range(rng.choice([1, 1, 2]))]})
    svcs = []
    nsvc = 0
    for _ in range(rng.choice([0, 1, 1, 2])):
        s = gen_service(rng, nsvc, full_pool)
        nsvc += 1
        svcs.append(s)
        first.append({"op": "register", "svc": s})
    steps = [{"t": t, "d": 0, "calls": first}]
    peers = 0
    for _ in range(rng.choice([7, 9, 12, 16])):
        t += rng.choice([100, 300, 700, 1000, 1100, 1500, 2600])
        st = {"t": t, "d": 0}
        r = rng.random()
        if r < 0.22:
            st["ifaces"] = mutate_table(rng, cur, full_pool)
            cur = st["ifaces"]
        elif r < 0.40:
            st["calls"] = [{"op": rng.choice(["enable_interface", "disable_interface"]),
                            "kinds": [gen_kind(rng, full_pool) for _ in range(rng.choice([1, 1, 2]))]}]
        elif r < 0.52:
            s = gen_service(rng, nsvc, full_pool)
            if svcs and rng.random() < 0.3:                  # re-registration of an existing name
                s["name"], s["ty"] = svcs[0]["name"], svcs[0]["ty"]
            else:
                nsvc += 1
            svcs = [x for x in svcs if svc_fullname(x).lower() != svc_fullname(s).lower()] + [s]
            st["calls"] = [{"op": "register", "svc": s}]
        elif r < 0.58 and svcs:
            s = svcs.pop(rng.randrange(len(svcs)))
            st["calls"] = [{"op": "unregister", "name": svc_fullname(s), "ch": "u%d" % len(steps)}]
        elif r < 0.78 and cur:
            st["dgrams"] = [query_dgram(rng, cur if rng.random() < 0.85 else full_pool, svcs)]
        elif r < 0.92 and browsing and cur:
            e = rng.choice(cur)
            # at most three instances: a browse reports its cached instances through a channel of capacity 10
            # with a blocking send (2 events per instance + SearchStarted), and the harness reads only between
            # iterations
            k = rng.choice([peers, max(0, peers - 1)]) % 3
            inst = "Peer%d" % k
            peers += 1
            hostnum = k % 2                                  # instances share hosts
            other = None
            if rng.random() < 0.4:
                same = [x for x in cur if x["index"] == e["index"] and (":" in x["addr"]) != (":" in e["addr"])]
                other = same[0] if same else None
            st["dgrams"] = [response_dgram(rng, e, browse_ty, inst, hostnum, other, cross=rng.random() < 0.3)]
            if rng.random() < 0.4:                           # the same announcement heard on a second interface
                others = [x for x in cur if x["index"] != e["index"]]
                if others:
                    st["dgrams"].append(response_dgram(rng, rng.choice(others), browse_ty, inst, hostnum))
        elif browsing:
            st["calls"] = [{"op": "browse", "ty": browse_ty, "ch": "b%d" % nb}]
            nb += 1
        steps.append(st)
    return {"id": hid, "t0": T0, "daemons": [{"seed": 1, "ifaces": pool}], "link": "none", "steps": steps}


def gen_xfam(rng, hid):
    """family `xfam`: an interface with addresses of ONE family learns the peer's addresses of BOTH families
    (the response that arrives over its family carries the other family's record too); then the interface is
    disabled (by name / index / family / address / All) or disappears; then the cache is asked again (a fresh
    browse) or an update arrives elsewhere that makes the daemon resolve the instance again (a TXT update or
    the same announcement on another interface); sometimes the interface is enabled again and asked once more.
    Nothing learned on the removed interface may be reported afterwards, whatever the family of the record."""
    fam = rng.choice(["4", "6"])
    if0 = mk_iface(0, fam, rng)
    if1 = mk_iface(1, rng.choice(["4", "6", "46"]), rng) if rng.random() < 0.65 else []
    pool = (if0 + if1) if rng.random() < 0.7 else (if1 + if0)
    if rng.random() < 0.15:
        pool = LO[:1] + pool
    t = T0
    ty = "_peer._udp.local."
    first = [{"op": "monitor", "ch": "m"}]
    fast = rng.random() < 0.8
    if fast:
        first.append({"op": "set_ip_check_interval", "secs": 1})
    first.append({"op": "browse", "ty": ty, "ch": "b0"})
    if rng.random() < 0.3:
        first.append({"op": "register", "svc": gen_service(rng, 0, pool)})
    steps = [{"t": t, "d": 0, "calls": first}]

    def step(dt, **kw):
        nonlocal t
        t += dt
        st = {"t": t, "d": 0}
        st.update(kw)
        steps.append(st)

    e0 = if0[0]
    ninst = rng.choice([1, 1, 2])
    for k in range(ninst):
        dg = [response_dgram(rng, e0, ty, "Peer%d" % k, k % 2, cross=True)]
        if if1 and rng.random() < 0.4:                       # heard on the second interface too
            dg.append(response_dgram(rng, rng.choice(if1), ty, "Peer%d" % k, k % 2, cross=rng.random() < 0.5))
        step(rng.choice([100, 300, 700]), dgrams=dg)
    # the interface goes
    cur = list(pool)
    how = rng.choice(["name", "index", "family", "addr", "all", "gone", "gone"])
    v4 = fam == "4"
    if how == "gone":
        cur = [x for x in pool if x["index"] != e0["index"]]
        step(rng.choice([100, 600]), ifaces=cur)
        step(1100 if fast else 5100)                         # the IP check notices
    else:
        kind = {"name": {"k": "Name", "v": e0["name"]},
                "index": {"k": "IndexV4" if v4 else "IndexV6", "v": e0["index"]},
                "family": {"k": "IPv4" if v4 else "IPv6"},
                "addr": {"k": "Addr", "v": e0["addr"]},
                "all": {"k": "All"}}[how]
        step(rng.choice([100, 600, 1100]), calls=[{"op": "disable_interface", "kinds": [kind]}])
    # the cache is asked again
    nb = 1
    for _ in range(rng.choice([1, 2, 2])):
        r = rng.random()
        live1 = [x for x in if1 if x in cur] if how not in ("all",) else []
        if how == "family":
            live1 = [x for x in live1 if (":" in x["addr"]) == v4]
        if r < 0.45 or not live1:
            step(rng.choice([100, 300, 1200]), calls=[{"op": "browse", "ty": ty, "ch": "b%d" % nb}])
            nb += 1
        elif r < 0.75:
            k = rng.randrange(ninst)
            step(rng.choice([100, 300, 1200]),
                 dgrams=[response_dgram(rng, rng.choice(live1), ty, "Peer%d" % k, k % 2, only_txt=True, txt=b"\x03a=c")])
        else:
            k = rng.randrange(ninst)
            step(rng.choice([100, 300, 1200]),
                 dgrams=[response_dgram(rng, rng.choice(live1), ty, "Peer%d" % k, k % 2, cross=rng.random() < 0.5)])
    if rng.random() < 0.4:                                   # back again: what was dropped stays dropped
        if how == "gone":
            step(300, ifaces=list(pool))
            step(1100 if fast else 5100)
        else:
            step(300, calls=[{"op": "enable_interface", "kinds": [{"k": "All"}]}])
        step(200, calls=[{"op": "browse", "ty": ty, "ch": "b%d" % nb}])
    return {"id": hid, "t0": T0, "daemons": [{"seed": 1, "ifaces": pool}], "link": "none", "steps": steps}


def gen_held(rng, hid):
    """family `held`: an address the daemon holds on one entry shows up on another entry (moved to another
    interface, or the same interface with another prefix length, or present on two interfaces at once) and an
    enable / disable call makes the daemon take up the new entry BEFORE the IP check that drops the old one
    (or a disable call drops one of the two).  A service with automatic addresses must keep the address as long
    as an enabled entry of the OS table has it: it is asked for on the interface that has it afterwards and
    unregistered (goodbye)."""
    m64 = "ffff:ffff:ffff:ffff::"
    ifs = [mk_iface(k, rng.choice(["6", "46", "46"]), rng) for k in range(rng.choice([2, 2, 3]))]
    pool = [e for i in ifs for e in i]
    t = T0
    svc = gen_service(rng, 0, pool, auto=True)
    first = [{"op": "monitor", "ch": "m"}, {"op": "set_ip_check_interval", "secs": 1}, {"op": "register", "svc": svc}]
    if rng.random() < 0.3:
        first.insert(2, {"op": rng.choice(["enable_interface", "disable_interface"]), "kinds": [gen_kind(rng, pool)]})
    steps = [{"t": t, "d": 0, "calls": first}]

    def step(dt, **kw):
        nonlocal t
        t += dt
        st = {"t": t, "d": 0}
        st.update(kw)
        steps.append(st)

    step(5100)                                               # the first IP check (5 s after the start)
    a = rng.choice(ifs)
    e = rng.choice(a)                                        # the entry whose address shows up elsewhere
    v4 = ":" not in e["addr"]
    others = [i for i in ifs if i is not a]
    how = rng.choice(["prefix"] if v4 else ["moved", "moved", "prefix", "both"])
    new = dict(e)
    if how == "prefix":
        new["mask"] = ("255.255.255.128" if e["mask"] != "255.255.255.128" else "255.255.255.0") if v4 else "ffff:ffff:ffff::"
        cur = [x for x in pool if x is not e] + [new]
    else:
        o = rng.choice(others)[0]
        new["index"], new["name"] = o["index"], o["name"]
        cur = ([x for x in pool if x is not e] if how == "moved" else list(pool)) + [new]
    if rng.random() < 0.5:
        rng.shuffle(cur)
    step(rng.choice([100, 200]), ifaces=cur)
    # the call that makes the daemon look at the fresh table before the next IP check
    if how == "both" and rng.random() < 0.6:                 # one of the two entries is disabled
        d = rng.choice([e, new])
        kind = rng.choice([{"k": "Name", "v": d["name"]}, {"k": "IndexV6", "v": d["index"]}])
        call = {"op": "disable_interface", "kinds": [kind]}
    else:
        call = rng.choice([{"op": "enable_interface", "kinds": [{"k": "All"}]},
                           {"op": "enable_interface", "kinds": [{"k": "Name", "v": new["name"]}]},
                           {"op": "enable_interface", "kinds": [{"k": "IPv4" if v4 else "IPv6"}]},
                           {"op": "disable_interface", "kinds": [{"k": "Name", "v": "eth9"}]},
                           {"op": "disable_interface", "kinds": [{"k": "LoopbackV4"}]}])
    step(rng.choice([100, 300]), calls=[call])
    step(1100)                                               # the IP check that drops the old entry
    # is the service still there with the address?
    for _ in range(rng.choice([1, 2, 3])):
        q = dnsgen.Packet()
        r = rng.random()
        if r < 0.5:
            q.question(split_ty(svc["ty"])[0], 12)
        elif r < 0.8:
            q.question(svc["host"], rng.choice([1, 28, 255]))
        else:
            q.question(svc_fullname(svc), rng.choice([33, 255]))
        on = rng.choice([new, new] + [x for x in cur if x["index"] == new["index"]])
        qv4 = ":" not in on["addr"]
        src = peer_of(on, rng)
        step(rng.choice([300, 1100]),
             dgrams=[{"if": on["index"], "v4": qv4, "src": ("%s:5353" % src) if qv4 else ("[%s]:5353" % src),
                      "hex": q.finish(flags=0, ident=0).hex()}])
    if rng.random() < 0.4:
        step(300, calls=[{"op": "unregister", "name": svc_fullname(svc), "ch": "u"}])
    return {"id": hid, "t0": T0, "daemons": [{"seed": 1, "ifaces": pool}], "link": "none", "steps": steps}


# --------------------------------------------------------------------------- model-free family: non-ASCII host names
# The daemon model folds ASCII only, while the cache keys host names by their Unicode lower-cased form.  This family
# is judged without the model: a browsed instance whose SRV target has non-ASCII capital letters (and controls:
# lower-case non-ASCII, ASCII mixed case, plain) has its PTR / SRV / TXT learned on eth1 and address records on eth0
# and eth1; then eth0 disappears (IP check) or is disabled.  "Instances that lost other records are resolved again
# with what is left": after the IP check that drops eth0 the browser must be told the instance again with exactly
# the addresses learned on eth1 (ServiceRemoved if none is left); a fresh browse afterwards (and after a disable)
# must report exactly these addresses.  The expectation is computed in the projection; the model line is "NA ok".

NA18_HOST = ["ÉCOLE-Imprimante.local.", "BÜRO-Drucker.local.", "ПРИНТЕР-7.local.", "Ñandú-BOX.local.", "İstanbul-pr.local.",
             "école-imprimante.local.", "ECOLE-Imprimante.local.", "plainhost.local."]


def is_na18(line):
    return line.startswith('{"id":"na18-')


def na18_dgram(e, ty, inst, host, hostnum, full, fams):
    """announcement heard on OS entry e: complete (PTR, SRV, TXT) or only the address records of the host"""
    v4 = ":" not in e["addr"]
    p = dnsgen.Packet()
    if full:
        fn = inst + "." + ty
        p.rr(1, ty, 12, 1, 4500, dnsgen.rd_ptr(fn))
        p.rr(1, fn, 33, 0x8001, 4500, dnsgen.rd_srv(0, 0, 7000, host))
        p.rr(1, fn, 16, 0x8001, 4500, dnsgen.rd_bytes(b"\x03a=b"))
    for f in fams:
        a = ipaddress.ip_address(host_addr({"addr": "0.0.0.0" if f == 4 else "::", "index": e["index"]}, hostnum))
        p.rr(1, host, 1 if f == 4 else 28, 0x8001, 4500, dnsgen.rd_bytes(a.packed))
    peer = host_addr(e, hostnum)
    return {"if": e["index"], "v4": v4, "src": ("%s:5353" % peer) if v4 else ("[%s]:5353" % peer),
            "hex": p.finish(flags=0x8400).hex()}


def gen_na18(rng, hid):
    e0 = {"name": "eth0", "index": 2, "addr": "192.168.1.10", "mask": "255.255.255.0"}
    e1 = {"name": "eth1", "index": 3, "addr": "10.2.0.10", "mask": "255.255.0.0"}
    pool = [e0, e1] if rng.random() < 0.6 else [e1, e0]
    ty = "_peer._udp.local."
    host = rng.choice(NA18_HOST)
    inst = rng.choice(["Salle-12", "Peer0", "Büro"])
    fams1 = rng.choice([[4], [4], [4, 6], []])             # what eth1 contributes ([] = nothing is left afterwards)
    fams0 = rng.choice([[4], [6], [4, 6]])
    how = rng.choice(["gone", "gone", "gone", "disabled"])
    t = T0
    steps = [{"t": t, "d": 0, "calls": [{"op": "monitor", "ch": "m"}, {"op": "set_ip_check_interval", "secs": 1},
                                         {"op": "browse", "ty": ty, "ch": "b0"}]}]

    def step(dt, **kw):
        nonlocal t
        t += dt
        st = {"t": t, "d": 0}
        st.update(kw)
        steps.append(st)

    step(100, dgrams=[na18_dgram(e1, ty, inst, host, 0, True, fams1)])
    # on eth0 the same announcement (PTR / SRV / TXT keep their first attribution) or only the addresses,
    # sometimes with the host name in another ASCII case
    host0 = host if rng.random() < 0.7 else host.swapcase() if host.isascii() else host.replace("local", "LOCAL")
    step(100, dgrams=[na18_dgram(e0, ty, inst, host0, 0, rng.random() < 0.5, fams0)])
    step(4900)                                               # first IP check (5 s after the start)
    if how == "gone":
        step(200, ifaces=[e1])
        step(1100)                                           # the IP check that drops eth0: re-resolution expected here
    else:
        step(200, calls=[{"op": "disable_interface", "kinds": [rng.choice([{"k": "Name", "v": "eth0"}, {"k": "IndexV4", "v": 2}])]}])
    step(200, calls=[{"op": "browse", "ty": ty, "ch": "b1"}])
    return {"id": hid, "t0": T0, "daemons": [{"seed": 1, "ifaces": pool}], "link": "none", "steps": steps}


def project_na18(line, raw):
    h, steps, recs = _records(line, raw)
    if len(recs) != len(steps):
        return "NA harness-error"
    g1 = dnsgen.parse_packet(bytes.fromhex(steps[1]["dgrams"][0]["hex"]))
    left = set()
    for rr in g1["an"]:
        if rr["type"] in (1, 28):
            left.add("%s@3" % ipaddress.ip_address(rr["rdata"]))
    inst = dnsgen.dotted(g1["an"][0]["target"]).decode()
    bad = []

    def events(rec, ch):
        return [e for e in (rec.get("events") or {}).get(ch, []) if e.get("name") == inst]

    gone = any("ifaces" in st for st in steps[1:])
    if gone:
        k = [i for i, st in enumerate(steps) if "ifaces" in st][0] + 1          # the iteration of the IP check
        evs = [e for e in events(recs[k], "b0") if e.get("e") in ("ServiceResolved", "ServiceRemoved")]
        if left:
            if not evs or evs[-1].get("e") != "ServiceResolved" or set(evs[-1]["addrs"]) != left:
                bad.append("after-removal:want-resolved=%s:got=%s" % (sorted(left), [(e.get("e"), e.get("addrs")) for e in evs]))
        else:
            if not evs or evs[-1].get("e") != "ServiceRemoved":
                bad.append("after-removal:want-removed:got=%s" % [(e.get("e"), e.get("addrs")) for e in evs])
    evs = [e for e in events(recs[-1], "b1") if e.get("e") == "ServiceResolved"]
    if left:
        if len(evs) != 1 or set(evs[0]["addrs"]) != left:
            bad.append("fresh-browse:want=%s:got=%s" % (sorted(left), [e.get("addrs") for e in evs]))
    elif evs:
        bad.append("fresh-browse:want-none:got=%s" % [e.get("addrs") for e in evs])
    return "NA ok" if not bad else "NA bad " + hx(" ".join(bad))


def hist_wf_py(h):
    """the hypotheses of C18_checker_accepts_every_run on a history (Coq: uniq_keysb / wf_stepsb / hist_wf): every OS
    table reports an (interface, address/mask) pair once; no IPv4 address is reported on two interfaces anywhere in
    the history (netmasks always fit their family here)"""
    tables = [h["daemons"][0]["ifaces"]] + [st["ifaces"] for st in h["steps"] if "ifaces" in st]
    owner = {}
    for t in tables:
        keys = [(e["index"], e["addr"], e.get("mask")) for e in t]
        if len(keys) != len(set(keys)):
            return False
        for e in t:
            if ":" not in e["addr"] and owner.setdefault(e["addr"], e["index"]) != e["index"]:
                return False
    return True


def wf_only(gen, rng, hid):
    """generated histories satisfy the hypotheses of the checker theorem (a violating draw is discarded)"""
    while True:
        h = gen(rng, hid)
        if hist_wf_py(h):
            return h


def generate(rng, tier):
    n = 1500 if tier == "quick" else 30000
    nx = 160 if tier == "quick" else 3000
    return [Case(jdump(wf_only(gen_history, rng, "c18-%d" % i)), "history") for i in range(n)] + \
           [Case(jdump(wf_only(gen_xfam, rng, "c18x-%d" % i)), "xfam") for i in range(nx)] + \
           [Case(jdump(wf_only(gen_held, rng, "c18h-%d" % i)), "held") for i in range(nx)] + \
           [Case(jdump(gen_na18(rng, "na18-%d" % i)), "nonascii") for i in range(nx // 2)]


# --------------------------------------------------------------------------- observation / model input

def iface_tok(e):
    return "%d/%s/%s" % (e["index"], hx(e["name"]), ifaddr_tok(e["addr"], e.get("mask") or default_mask(e["addr"])))


def os_tok(tbl):
    tbl = [e for e in tbl if e.get("up", True) is not False]
    return ";".join(iface_tok(e) for e in tbl) or "none"


def kind_tok(k):
    if k["k"] == "Name":
        return "Name~" + hx(k["v"])
    if k["k"] == "Addr":
        return "Addr~" + ip_tok(k["v"])
    if k["k"] in ("IndexV4", "IndexV6"):
        return "%s~%d" % (k["k"], k["v"])
    return k["k"]


def call_tok(c, r):
    op = c["op"]
    if op == "enable_interface":
        return "en@" + (",".join(kind_tok(k) for k in c["kinds"]) or "-")
    if op == "disable_interface":
        return "dis@" + (",".join(kind_tok(k) for k in c["kinds"]) or "-")
    if op == "register" and r.get("r") == "Ok":
        s = c["svc"]
        return "reg@%s@%d" % (svc_tok(s, "A"), 1 if s.get("ips") == "auto" else 0)
    if op == "unregister":
        return "unreg@" + hx(c["name"].lower())
    if op == "set_ip_check_interval":
        return "ipint@%d" % c["secs"]
    if op == "browse" and r.get("r") == "Ok":
        return "browse@" + hx(c["ty"])
    return None


def scoped_tok(a):
    ip, ids = a.split("@")
    return ip_tok(ip) + "@" + ids


def br_tok(e):
    k = e.get("e")
    if k == "ServiceFound":
        return "found/%s/%s" % (hx(e["ty"]), hx(e["name"]))
    if k == "ServiceRemoved":
        return "removed/%s/%s" % (hx(e["ty"]), hx(e["name"]))
    if k == "ServiceResolved":
        return "resolved/%s/%s/%s/%d/%s" % (hx(e["ty"]), hx(e["name"]), hx(e["host"]), e["port"],
                                            "_".join(sorted(scoped_tok(a) for a in e["addrs"])))
    return None


def _records(line, raw):
    h = json.loads(line)
    res = json.loads(raw)
    recs = [r for r in res.get("trace", []) if "it" in r and r.get("d", 0) == 0]
    steps = [st for st in h["steps"] if "run_until" not in st]
    return h, steps, recs


def project(line, raw):
    if is_na18(line):
        return project_na18(line, raw)
    h, steps, recs = _records(line, raw)
    outs = []
    for st, rec in zip(steps, recs):
        ev, br = [], []
        seq = {}
        for ch, evs in (rec.get("events") or {}).items():
            for e in evs:
                if ch == "m":
                    if e.get("e") == "IpAdd":
                        ev.append("add." + ip_tok(e["ip"]))
                        seq[ip_tok(e["ip"])] = seq.get(ip_tok(e["ip"]), "") + "a"
                    elif e.get("e") == "IpDel":
                        ev.append("del." + ip_tok(e["ip"]))
                        seq[ip_tok(e["ip"])] = seq.get(ip_tok(e["ip"]), "") + "d"
                elif ch.startswith("b"):
                    t = br_tok(e)
                    if t:
                        br.append(t)
        # Several interfaces can vanish in one IP check; the order in which the daemon handles them (HashMap
        # order) shows in intermediate re-resolutions.  Per instance only the last resolved/removed event of an
        # iteration is kept (events of one channel are in chronological order).
        last = {}
        for k, t in enumerate(br):
            f = t.split("/")
            if f[0] in ("resolved", "removed"):
                last[(f[1], f[2])] = k
        br = [t for k, t in enumerate(br) if t.split("/")[0] == "found" or last[(t.split("/")[1], t.split("/")[2])] == k]
        # the events of an iteration are compared as a set; for an address with several events their
        # order is kept too (withdrawn and added again, or added and then withdrawn)
        ev += ["seq.%s.%s" % (a, w) for a, w in seq.items() if len(w) >= 2]
        tx = []
        for x, pk in parsed_sent(rec):
            if pk is not None and not (pk["flags"] & 0x8000):
                continue
            tok = packet_tok(x, pk)
            tx.append(tok)
        outs.append("ev=%s tx=%s br=%s" % (",".join(sorted(ev)) or "-", "&".join(sorted(tx)) or "-",
                                           ",".join(sorted(br)) or "-"))
    if len(recs) != len(steps):
        outs.append("MISSING-ITERATIONS %d/%d" % (len(recs), len(steps)))
    if any(r.get("stuck") or r.get("exited") for r in recs):
        # A listener channel holds 10 events and the harness reads channels between iterations only: an
        # iteration that sends an 11th event to one listener blocks the daemon thread (the known finding
        # C14-full-listener-blocks-daemon). Such a run says nothing about interfaces and is not judged
        # here; a daemon that is stuck for any other reason is reported.
        stuck = [r for r in recs if r.get("stuck")]
        if stuck and not any(r.get("exited") for r in recs) and \
                max([len(v) for v in (stuck[-1].get("events") or {}).values()] or [0]) >= 10:
            return "SKIP"
        outs.append("DAEMON-STUCK-OR-EXITED")
    return "iterations=%d %s" % (len(steps), " | ".join(outs))


def model_input(line, raw):
    if is_na18(line):
        return "na"
    h, steps, recs = _records(line, raw)
    toks = ["c18", str(h.get("t0", T0)), os_tok(h["daemons"][0]["ifaces"])]
    for st, rec in zip(steps, recs):
        calls = []
        for c, r in zip(st.get("calls") or [], rec.get("calls") or []):
            t = call_tok(c, r)
            if t:
                calls.append(t)
        dgs = ["%d/%s/%s" % (g["if"], src_tok(g["src"]), g["hex"]) for g in st.get("dgrams") or []]
        toks += ["S", str(st["t"]), os_tok(st["ifaces"]) if "ifaces" in st else "-", ";".join(dgs) or "-",
                 "^".join(calls) or "-", "-"]
    return " ".join(toks)


def nontrivial(line, result):
    if is_na18(line):
        return True
    return "dest=" in result or "add." in result or "del." in result or "found/" in result


KNOWN_IDS = set()
try:
    import os
    KNOWN_IDS = {f["id"] for f in json.load(open(os.path.join(vlib.VERIF, "known", "C18.json"))).get("findings", [])}
except Exception:
    pass


def known_class(line, impl, mon):
    """the monitor names the classes that explain ALL its rejections of a history"""
    if not mon.startswith("FAIL known="):
        return None
    ids = ["C18-" + c for c in mon.split(" ")[1][len("known="):].split("+")]
    if all(i in KNOWN_IDS for i in ids):
        return ids[0]
    return None


def shrink(line, still_bad):
    if is_na18(line):
        return line                                          # the expectation is positional: not shrunk
    return vlib.shrink_history(line, still_bad)


def search(rng, problems, disagreeing):
    return generate(rng, "quick")
