"""C20  State stays bounded: expired data is forgotten, unrequested data not kept."""
import json
import struct

from vlib import Case
import vlib
import hostres_lib as L

ID = "C20"
CLAIMED = True
MODEL_GROUP = "hostres"
THEOREM_FILE = "Props/C20.v"
HARNESS_ARGS = ["sim"]
PER_SHARD = 4
LEVEL_TEXT = ("Coq theorems about the model of the daemon's querier-side state (cache buckets, subtype map, timer heap, "
              "retransmissions) over all histories: COUNTING BOUND - under either acceptance rule every record counter that "
              "get_metrics reports is at most the number of logged deliveries of that kind whose TTL had not run out at the "
              "previous iteration (under the need rule the log holds exactly the deliveries an open browse / resolver needed "
              "on arrival; under the code's rule every delivery: traffic x TTL); an iteration after every TTL has passed leaves "
              "the five record counters at 0; timer heap: entries leave only by being popped and every entry whose time has "
              "come is popped, an idle iteration pushes nothing; if the code's rule never stored an unneeded record it behaved "
              "exactly as the need rule; the literal statements (subtype map, timers proportional to need, bounded-by-need of "
              "the code's rule) are refuted on the model by computed witnesses that replay on the real daemon; the model "
              "predicts get_metrics exactly on the real daemon in the simulated world and chk_C20 runs as monitor")
TECHNIQUE = ("machine-checked proof in Coq (invariants of the cache/timer model over arbitrary histories, refutations by "
             "computed witnesses) + model/implementation correspondence on get_metrics of the simulated daemon")
LEVELS = "K6 (real ServiceDaemon thread under verif-hooks; observation = get_metrics samples over virtual time)"
RULE = ("histories on one daemon: browse / stop_browse of 1-3 types (one with a subtype), resolve_hostname / stop with "
        "timeouts, get_metrics sampled along the way; traffic mixes: announcements for browsed types, answers for types "
        "nobody browses, PTR-less SRV/TXT/A/AAAA/NSEC for streams of distinct names (10^3 quick, 10^4 thorough), records "
        "piggy-backed on a wanted PTR, repeated identical announcements, goodbyes, cache-flush; one owner name receiving "
        "SRV / TXT / NSEC records with different RDATA and overlapping short lifetimes for several TTLs (with and without a "
        "browse); horizons beyond every TTL "
        "with two final samples; non-trivial = at least two samples and one delivered record; distinct = distinct case lines")
TRUSTED = [
    "Coq 8.16.1 kernel (coqc)",
    "axioms: none expected (Print Assumptions output recorded in this file)",
    "extraction (ExtrOcamlBasic only) + ocaml/hostres/driver.ml; the monitor is the extracted chk_C20",
    "tools/props/c20.py + hostres_lib.py: translation of delivered packets to abstract records, extraction of the metrics samples",
    "hooks: verif-hooks simulated world; get_metrics is the daemon's own report (cached-ptr/srv/txt/addr/nsec/subtype, timer)",
    "modelled, not verified: packet decoding (C01/C02); events and packet contents are not part of this model; "
    "what get_metrics does not report (pending_resolves / resolved sets, empty map keys) is modelled but not observed",
]
PARTIAL = ("no registrations (registry timers / probes are C07/C12), no verify(), static interface table, event channels "
           "never full; the counting bound is proved for the five record counters (not for the subtype map, which is refuted); "
           "timers: the shape of the heap after every iteration and the idle-iteration frame are proved, the need-proportional "
           "count bound is refuted (finding), a count bound by deliveries within TTL + searches is not proved (flush and "
           "refresh-mark pushes need a per-record accounting); pending_resolves / resolved / empty map keys are modelled "
           "(C20_hidden_growth_model) but not observable through get_metrics")

T0 = L.T0
TYPES = ["_http._tcp.local.", "_ipp._tcp.local.", "_x._udp.local."]
SUBTYPE = "_printer._sub._http._tcp.local."


def rec_data(r):
    """RDATA identity as the model compares it."""
    if r["ty"] == 12:
        return (r["target"] or "").encode()
    if r["ty"] == 33:
        return struct.pack(">HHH", *r["srv"]) + (r["target"] or "").encode()
    if r["ty"] == 47:
        return (r["target"] or "").encode() + b"|" + r["data"]
    return r["data"]


class Gen:
    def __init__(self, rng, hid, ifaces=None):
        self.rng = rng
        self.hid = hid
        self.ifaces = ifaces or rng.choice([[L.IF2_V4], [L.IF2_V4], [L.IF2_V4, L.IF2_V6], [L.IF2_V4, L.IF3_V4]])
        self.fam = L.iface_families(self.ifaces)
        self.t = T0
        self.steps = []
        self.nm = 0
        self.browsed = []
        self.resolved = []
        self.ctr = 0
        self.sent = []      # earlier dgrams, for repeats / goodbyes
        self.insts = {}

    def met(self):
        self.nm += 1
        return {"op": "get_metrics", "ch": "m%d" % self.nm}

    def dgram(self, recs, idx=None, v4=True):
        idx = idx if idx is not None else self.rng.choice(sorted(self.fam))
        if "6" not in self.fam[idx]:
            v4 = True
        g = {"if": idx, "v4": v4, "src": "192.168.1.99:5353" if v4 else "[fe80::99]:5353", "hex": L.build_packet(recs)}
        self.sent.append(recs)
        return g

    def fresh(self):
        self.ctr += 1
        return self.ctr

    # ---- traffic kinds -------------------------------------------------------------------
    def announce(self, ty, inst_label=None, host=None, ttl=None, with_sub=False):
        rng = self.rng
        base = ty.split("._sub.")[-1]
        label = inst_label or rng.choice(["alpha", "beta", "Gamma Printer"])
        inst = "%s.%s" % (label, base)
        host = host or "%s-host.local." % label.split(" ")[0].lower()
        ttl = ttl if ttl is not None else rng.choice([4500, 120, 60, 10])
        ip = "192.168.1.%d" % (30 + (sum(map(ord, label)) % 50))
        recs = [L.rec_ptr(1, ty, inst, ttl)]
        if with_sub and ty != base:
            recs.append(L.rec_ptr(1, base, inst, ttl))
        recs += [L.rec_srv(3, inst, host, min(ttl, 120)), L.rec_txt(3, inst, b"\x03a=1", ttl),
                 L.rec_addr(3, host, ip, min(ttl, 120))]
        if rng.random() < 0.3:
            recs.append(L.rec_nsec(3, host, min(ttl, 120)))
        return recs

    def ptrless(self, n, ttl=None):
        """SRV/TXT/A/AAAA/NSEC for distinct names nobody asked about, no PTR."""
        rng = self.rng
        recs = []
        for _ in range(n):
            k = self.fresh()
            inst = "u%d._junk._tcp.local." % k
            host = "junk%d.local." % k
            t = ttl if ttl is not None else rng.choice([120, 120, 60, 10, 4500])
            kind = rng.choice(["srv", "txt", "a", "aaaa", "nsec", "all"])
            if kind in ("srv", "all"):
                recs.append(L.rec_srv(1, inst, host, t))
            if kind in ("txt", "all"):
                recs.append(L.rec_txt(1, inst, b"\x00", t))
            if kind in ("a", "all"):
                recs.append(L.rec_addr(1, host, "10.%d.%d.%d" % (k >> 16 & 255, k >> 8 & 255, k & 255), t))
            if kind == "aaaa":
                recs.append(L.rec_addr(1, host, "fe80::%x" % (k + 1), t))
            if kind == "nsec":
                recs.append(L.rec_nsec(1, host, t))
        return recs

    def foreign_ptr(self, n):
        """Announcements for a type nobody browses."""
        recs = []
        for _ in range(n):
            k = self.fresh()
            inst = "f%d._foreign._tcp.local." % k
            recs += [L.rec_ptr(1, "_foreign._tcp.local.", inst, 4500), L.rec_srv(3, inst, "fh%d.local." % k, 120),
                     L.rec_addr(3, "fh%d.local." % k, "10.9.%d.%d" % (k >> 8 & 255, k & 255), 120)]
        return recs

    def traffic(self):
        rng = self.rng
        r = rng.random()
        if r < 0.25 and self.browsed:
            ty = rng.choice(self.browsed)
            return self.dgram(self.announce(ty, with_sub=rng.random() < 0.5))
        if r < 0.35:
            return self.dgram(self.announce(rng.choice(TYPES + [SUBTYPE])))       # maybe unbrowsed
        if r < 0.55:
            return self.dgram(self.ptrless(rng.choice([1, 2, 5, 20])))
        if r < 0.62:
            return self.dgram(self.foreign_ptr(rng.choice([1, 3])))
        if r < 0.7 and self.browsed:
            # a wanted PTR carrying unrelated records
            return self.dgram(self.announce(rng.choice(self.browsed)) + self.ptrless(rng.choice([2, 6])))
        if r < 0.8 and self.sent:
            return self.dgram(list(rng.choice(self.sent)))                         # identical re-announcement
        if r < 0.88 and self.sent:
            return self.dgram([dict(x, ttl=0) for x in rng.choice(self.sent)])      # goodbye
        if self.resolved:
            h = rng.choice(self.resolved)
            name = rng.choice([h, h.upper()[:-7] + ".local.", h.capitalize()])
            return self.dgram([L.rec_addr(1, name, rng.choice(["192.168.1.77", "192.168.1.78", "fe80::77"]),
                                          rng.choice([120, 10, 2]), flush=rng.random() < 0.7)])
        return self.dgram(self.ptrless(1))

    def call(self):
        rng = self.rng
        r = rng.random()
        if r < 0.3:
            ty = rng.choice(TYPES + [SUBTYPE])
            if ty not in self.browsed:
                self.browsed.append(ty)
            return {"op": "browse", "ty": ty, "ch": "b%d" % self.fresh()}
        if r < 0.45 and self.browsed:
            ty = rng.choice(self.browsed)
            self.browsed.remove(ty)
            return {"op": "stop_browse", "ty": ty}
        if r < 0.65:
            h = rng.choice(["alpha-host.local.", "beta-host.local.", "nas.local."])
            if h not in self.resolved:
                self.resolved.append(h)
            c = {"op": "resolve_hostname", "host": rng.choice([h, h.capitalize()]), "ch": "h%d" % self.fresh()}
            to = rng.choice([None, None, 3000, 10000, 60000, 1000000])
            if to is not None:
                c["timeout"] = to
            return c
        if r < 0.75 and self.resolved:
            h = rng.choice(self.resolved)
            self.resolved.remove(h)
            return {"op": "stop_resolve_hostname", "host": h.upper()[:-7] + ".local."}
        return self.met()

    def step(self, dt=None):
        rng = self.rng
        self.t += dt if dt is not None else rng.choice([0, 10, 100, 500, 1000, 1500, 4000, 9000, 30000])
        st = {"t": self.t, "d": 0}
        calls = []
        if rng.random() < 0.45:
            calls.append(self.call())
        if rng.random() < 0.5:
            calls.append(self.met())
        dg = [self.traffic() for _ in range(rng.choice([0, 1, 1, 2]))]
        if calls:
            st["calls"] = calls
        if dg:
            st["dgrams"] = dg
        self.steps.append(st)

    def finish(self, horizon=None):
        """Stop every search, let every TTL and schedule time pass, sample twice."""
        st = {"t": self.t + 10, "d": 0, "calls": [self.met()]}
        for ty in list(self.browsed):
            st["calls"].append({"op": "stop_browse", "ty": ty})
        for h in list(self.resolved):
            st["calls"].append({"op": "stop_resolve_hostname", "host": h})
        self.browsed, self.resolved = [], []
        self.steps.append(st)
        self.t += 10 + (horizon or 4600 * 1000)
        self.steps.append({"run_until": self.t, "max_iters": 3000})
        self.steps.append({"t": self.t, "d": 0, "calls": [self.met()]})
        self.t += 1000
        self.steps.append({"t": self.t, "d": 0, "calls": [self.met()]})

    def history(self):
        return {"id": self.hid, "t0": T0, "daemons": [{"seed": 1, "ifaces": self.ifaces}], "link": "none",
                "steps": self.steps}


def mixed(rng, hid, nsteps, ipcheck_off):
    g = Gen(rng, hid)
    first = {"t": g.t, "d": 0, "calls": [g.met()]}
    if ipcheck_off:
        first["calls"].insert(0, {"op": "set_ip_check_interval", "secs": 0})
    g.steps.append(first)
    for _ in range(nsteps):
        g.step()
        if rng.random() < 0.15:
            g.t += rng.choice([5000, 60000, 130000])
            g.steps.append({"run_until": g.t, "max_iters": 600})
            g.steps.append({"t": g.t, "d": 0, "calls": [g.met()]})
    g.finish(horizon=None if ipcheck_off else 200 * 1000 if rng.random() < 0.7 else None)
    return g.history()


def clean(rng, hid, nsteps):
    """Only traffic that the active searches asked for: announcements of browsed types after the
    browse started, addresses of resolved names; searches stay open until everything expired."""
    g = Gen(rng, hid, ifaces=[L.IF2_V4])
    tys = rng.sample(TYPES, rng.choice([1, 2]))
    first = {"t": g.t, "d": 0, "calls": [g.met()] + [{"op": "browse", "ty": ty, "ch": "b%d" % g.fresh()} for ty in tys]}
    if rng.random() < 0.6:
        first["calls"].insert(0, {"op": "set_ip_check_interval", "secs": 0})
    hosts = []
    if rng.random() < 0.6:
        hosts = ["nas.local."]
        first["calls"].append({"op": "resolve_hostname", "host": "Nas.local.", "ch": "h%d" % g.fresh()})
    g.browsed = list(tys)
    g.resolved = list(hosts)
    g.steps.append(first)
    for _ in range(nsteps):
        g.t += rng.choice([10, 100, 1000, 5000, 30000])
        st = {"t": g.t, "d": 0}
        r = rng.random()
        if r < 0.5:
            ty = rng.choice(tys)
            st["dgrams"] = [g.dgram(g.announce(ty, rng.choice(["alpha", "beta"]), ttl=rng.choice([4500, 120, 60])))]
        elif r < 0.7 and hosts:
            st["dgrams"] = [g.dgram([L.rec_addr(1, rng.choice(["nas.local.", "NAS.local."]),
                                                rng.choice(["192.168.1.77", "fe80::77"]), rng.choice([120, 60]))])]
        if rng.random() < 0.5:
            st["calls"] = [g.met()]
        g.steps.append(st)
        if rng.random() < 0.2:
            g.t += rng.choice([5000, 60000])
            g.steps.append({"run_until": g.t, "max_iters": 600})
    # let everything expire while the searches are still open, then stop, then wait out the schedules
    g.t += 4600 * 1000
    g.steps.append({"run_until": g.t, "max_iters": 3000})
    g.steps.append({"t": g.t, "d": 0, "calls": [g.met()]})
    g.finish(horizon=3700 * 1000)
    return g.history()


def stream(rng, hid, names, browse):
    """An endless-looking stream of distinct names while (maybe) one type is browsed."""
    g = Gen(rng, hid, ifaces=[L.IF2_V4])
    first = {"t": g.t, "d": 0, "calls": [{"op": "set_ip_check_interval", "secs": 0}, g.met()]}
    if browse:
        first["calls"].append({"op": "browse", "ty": TYPES[0], "ch": "b1"})
        g.browsed.append(TYPES[0])
    g.steps.append(first)
    per = 20
    if browse:
        g.t += 50
        g.steps.append({"t": g.t, "d": 0, "dgrams": [g.dgram(g.announce(TYPES[0], "alpha", ttl=4500))]})
    for k in range(0, names, per):
        g.t += 25
        st = {"t": g.t, "d": 0, "dgrams": [g.dgram(g.ptrless(per, ttl=120))]}
        if (k // per) % 10 == 9:
            st["calls"] = [g.met()]
        g.steps.append(st)
    g.t += 10
    g.steps.append({"t": g.t, "d": 0, "calls": [g.met()]})
    g.finish()
    return g.history()


def variants(rng, hid, kind, browse, n, ttl, gap):
    """ONE owner name that keeps receiving records with different RDATA and overlapping lifetimes
    (SRV with a new port / TXT with a new text / NSEC with a new bitmap in every packet, TTL of a
    few seconds, `gap` ms apart, for several TTLs): per-record eviction makes the counter plateau at
    about ttl*1000/gap; with and without a browse that needs the instance."""
    g = Gen(rng, hid, ifaces=[L.IF2_V4])
    ty = TYPES[0]
    inst = "alpha.%s" % ty
    host = "alpha-host.local."
    first = {"t": g.t, "d": 0, "calls": [{"op": "set_ip_check_interval", "secs": 0}, g.met()]}
    if browse:
        first["calls"].append({"op": "browse", "ty": ty, "ch": "b1"})
        g.browsed.append(ty)
    g.steps.append(first)
    if browse:
        g.t += 20
        # PTR first, then SRV and (after it, so that it is needed on arrival) the address
        g.steps.append({"t": g.t, "d": 0, "dgrams": [g.dgram([L.rec_ptr(1, ty, inst, 4500)])]})
        g.t += 20
        g.steps.append({"t": g.t, "d": 0, "dgrams": [g.dgram([L.rec_srv(1, inst, host, 4500, port=80),
                                                              L.rec_addr(1, host, "192.168.1.40", 4500)])]})
    for k in range(n):
        g.t += gap
        if kind == "srv":
            rec = L.rec_srv(1, inst, host, ttl, port=1000 + k)
        elif kind == "txt":
            rec = L.rec_txt(1, inst, bytes([3]) + b"k=" + bytes([48 + k % 75]) + bytes([2]) + b"v" + bytes([48 + (k // 75) % 75]), ttl)
        else:
            rec = L.rec_nsec(1, host, ttl, bitmap=bytes([k % 256, 1 + k // 256]))
        st = {"t": g.t, "d": 0, "dgrams": [g.dgram([rec])]}
        if k % 4 == 3:
            st["calls"] = [g.met()]
        g.steps.append(st)
    g.t += 100
    g.steps.append({"t": g.t, "d": 0, "calls": [g.met()]})
    g.finish()
    return g.history()


def repeats(rng, hid, n):
    """One wanted record announced again and again."""
    g = Gen(rng, hid, ifaces=[L.IF2_V4])
    g.steps.append({"t": g.t, "d": 0, "calls": [{"op": "set_ip_check_interval", "secs": 0},
                                               {"op": "resolve_hostname", "host": "nas.local.", "ch": "h1"}, g.met()]})
    g.resolved.append("nas.local.")
    rec = [L.rec_addr(1, "nas.local.", "192.168.1.77", 120)]
    for k in range(n):
        g.t += 100
        st = {"t": g.t, "d": 0, "dgrams": [g.dgram(rec)]}
        if k % 10 == 9:
            st["calls"] = [g.met()]
        g.steps.append(st)
    g.finish()
    return g.history()


def fixed_histories():
    out = []
    off = {"op": "set_ip_check_interval", "secs": 0}
    one = [L.IF2_V4]

    def h(hid, steps):
        return {"id": hid, "t0": T0, "daemons": [{"seed": 1, "ifaces": one}], "link": "none", "steps": steps}

    def dg(recs):
        return {"if": 2, "v4": True, "src": "192.168.1.99:5353", "hex": L.build_packet(recs)}
    t = T0
    # nothing happens: one timer
    out.append(h("f-idle", [{"t": t, "d": 0, "calls": [{"op": "get_metrics", "ch": "m1"}]},
                            {"run_until": t + 60000, "max_iters": 100},
                            {"t": t + 60000, "d": 0, "calls": [{"op": "get_metrics", "ch": "m2"}]}]))
    # (a) PTR-less records nobody asked about are cached
    out.append(h("f-ptrless", [
        {"t": t, "d": 0, "calls": [off, {"op": "get_metrics", "ch": "m1"}]},
        {"t": t + 10, "d": 0, "dgrams": [dg([L.rec_srv(1, "u1._junk._tcp.local.", "junk1.local.", 120),
                                             L.rec_txt(1, "u1._junk._tcp.local.", b"\x00", 120),
                                             L.rec_addr(1, "junk1.local.", "10.0.0.1", 120),
                                             L.rec_nsec(1, "junk1.local.", 120)])]},
        {"t": t + 20, "d": 0, "calls": [{"op": "get_metrics", "ch": "m2"}]},
        {"run_until": t + 130000, "max_iters": 100},
        {"t": t + 130000, "d": 0, "calls": [{"op": "get_metrics", "ch": "m3"}]},
        {"t": t + 131000, "d": 0, "calls": [{"op": "get_metrics", "ch": "m4"}]}]))
    # (b) the subtype map is never emptied
    out.append(h("f-subtype", [
        {"t": t, "d": 0, "calls": [off, {"op": "browse", "ty": SUBTYPE, "ch": "b1"}]},
        {"t": t + 10, "d": 0, "dgrams": [dg([L.rec_ptr(1, SUBTYPE, "alpha._http._tcp.local.", 10)])]},
        {"t": t + 20, "d": 0, "calls": [{"op": "get_metrics", "ch": "m1"}]},
        {"t": t + 30, "d": 0, "calls": [{"op": "stop_browse", "ty": SUBTYPE}]},
        {"run_until": t + 4000000, "max_iters": 300},
        {"t": t + 4000000, "d": 0, "calls": [{"op": "get_metrics", "ch": "m2"}]},
        {"t": t + 4001000, "d": 0, "calls": [{"op": "get_metrics", "ch": "m3"}]}]))
    # (f) a stopped search leaves its timers
    out.append(h("f-stale-timer", [
        {"t": t, "d": 0, "calls": [off, {"op": "resolve_hostname", "host": "nas.local.", "timeout": 1000000, "ch": "h1"}]},
        {"t": t + 100, "d": 0, "calls": [{"op": "stop_resolve_hostname", "host": "nas.local."}]},
        {"t": t + 10000, "d": 0, "calls": [{"op": "get_metrics", "ch": "m1"}]},
        {"t": t + 11000, "d": 0, "calls": [{"op": "get_metrics", "ch": "m2"}]}]))
    # legitimate browse: everything needed, then stop and expiry
    out.append(h("f-legit", [
        {"t": t, "d": 0, "calls": [off, {"op": "browse", "ty": TYPES[0], "ch": "b1"}]},
        {"t": t + 10, "d": 0, "dgrams": [dg([L.rec_ptr(1, TYPES[0], "alpha._http._tcp.local.", 4500),
                                             L.rec_srv(3, "alpha._http._tcp.local.", "alpha-host.local.", 120),
                                             L.rec_txt(3, "alpha._http._tcp.local.", b"\x03a=1", 4500),
                                             L.rec_addr(3, "alpha-host.local.", "192.168.1.40", 120)])]},
        {"t": t + 20, "d": 0, "calls": [{"op": "get_metrics", "ch": "m1"}]},
        {"run_until": t + 100000, "max_iters": 300},
        {"t": t + 100000, "d": 0, "calls": [{"op": "get_metrics", "ch": "m2"}, {"op": "stop_browse", "ty": TYPES[0]}]},
        {"run_until": t + 5000000, "max_iters": 300},
        {"t": t + 5000000, "d": 0, "calls": [{"op": "get_metrics", "ch": "m3"}]},
        {"t": t + 5001000, "d": 0, "calls": [{"op": "get_metrics", "ch": "m4"}]}]))
    return out


def generate(rng, tier):
    quick = tier == "quick"
    cases = [Case(L.dumps(h), "fixed") for h in fixed_histories()]
    n = 520 if quick else 4000
    for i in range(n):
        cases.append(Case(L.dumps(mixed(rng, "g%d" % i, rng.choice([6, 12, 20, 30]), rng.random() < 0.7)), "mixed"))
    for i in range(n // 3):
        cases.append(Case(L.dumps(clean(rng, "c%d" % i, rng.choice([4, 8, 14]))), "clean"))
    for i, names in enumerate([200, 1000, 2000] if quick else [200, 1000, 3000, 10000]):
        cases.append(Case(L.dumps(stream(rng, "s%d" % i, names, browse=i % 2 == 1)), "stream-%d" % names))
    i = 0
    for kind in ("srv", "txt", "nsec"):
        for browse in (False, True):
            for (ttl, gap, cnt) in ([(2, 250, 32), (3, 500, 30)] if quick else [(2, 250, 32), (3, 500, 30), (5, 200, 120), (1, 300, 20)]):
                cases.append(Case(L.dumps(variants(rng, "v%d" % i, kind, browse, cnt, ttl, gap)),
                                  "variants-%s%s" % (kind, "-browse" if browse else "")))
                i += 1
    for i, k in enumerate([30, 200] if quick else [30, 200, 1000]):
        cases.append(Case(L.dumps(repeats(rng, "r%d" % i, k)), "repeats-%d" % k))
    return cases


# ------------------------------------------------------------------------------------------ projection

KEYS = ["cached-ptr", "cached-srv", "cached-txt", "cached-addr", "cached-nsec", "cached-subtype", "timer"]


def project(line, raw):
    res = json.loads(raw)
    if "error" in res:
        return "HARNESS-ERROR " + str(res["error"])[:100]
    outs = []
    for rec in res["trace"]:
        if "it" not in rec:
            if rec.get("truncated"):
                outs.append("TRUNCATED")
            continue
        if rec.get("stuck") or rec.get("exited"):
            outs.append("%d:DEAD" % rec["now"])
            continue
        evs = rec.get("events", {})
        for ch in sorted((c for c in evs if c.startswith("m")), key=lambda c: int(c[1:])):
            for e in evs[ch]:
                if e.get("e") == "Metrics":
                    outs.append("%d:%s" % (rec["now"], ",".join(str(e["m"].get(k, 0)) for k in KEYS)))
    return "MET " + ("|".join(outs) or "-")


def model_input(line, raw):
    h = json.loads(line)
    res = json.loads(raw)
    if "error" in res:
        return "BADINPUT harness error"
    its = []
    for rec, st in L.iterations(h, res):
        calls = []
        msgs = []
        if st is not None:
            for c, r in zip(st.get("calls") or [], rec.get("calls") or []):
                if r.get("r") != "Ok":
                    continue
                op = c["op"]
                if op == "browse":
                    calls.append("B:%s" % L.hx(c["ty"]))
                elif op == "stop_browse":
                    calls.append("SB:%s" % L.hx(c["ty"]))
                elif op == "resolve_hostname":
                    to = c.get("timeout")
                    calls.append("R:%s:%s" % (L.hx(c["host"]), "~" if to is None else str(to)))
                elif op == "stop_resolve_hostname":
                    calls.append("S:%s" % L.hx(c["host"]))
                elif op == "get_metrics":
                    calls.append("M")
                elif op == "set_ip_check_interval":
                    calls.append("I:%d" % (c["secs"] * 1000))
            for idx, recs in L.delivered_msgs(h, st):
                rs = ["%s.%d.%s.%d.%d.%d.%s.%s" % ("a" if r["sec"] == 1 else "o", r["ty"], L.hx(r["name"]), r["cls"],
                                                   1 if r["flush"] else 0, r["ttl"], L.hx(rec_data(r)),
                                                   L.hx(r["target"] or "") if r["ty"] in (12, 33) else "-")
                      for r in recs if r["ty"] in (1, 12, 16, 28, 33, 47)]
                msgs.append("%d:%s" % (idx, "/".join(rs)))
        its.append("%d;%s;%s" % (rec["now"], ",".join(calls) or "-", ",".join(msgs) or "-"))
    return "hr20 %d#%s" % (h.get("t0", T0), "|".join(its) or "-")


def nontrivial(line, result):
    return result.startswith("MET ") and result.count("|") >= 1 and '"dgrams"' in line


def known_class(line, impl_result, mon_result):
    if not mon_result.startswith("FAIL["):
        return None
    tags = mon_result[5:mon_result.index("]")].split(",")
    table = {"unneeded": "C20-unneeded-records-cached",
             "subtype": "C20-subtype-map-never-shrinks",
             "timers": "C20-timers-not-merged-or-cancelled"}
    ids = [table.get(t) for t in tags]
    if any(i is None for i in ids):
        return None
    # the class reported first; every tag of the line is a registered finding
    return ids[0]


def shrink(line, still_bad):
    return vlib.shrink_history(line, still_bad)


def search(rng, problems, disagreeing):
    return generate(rng, "quick")[:120]
