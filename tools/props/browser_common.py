"""Shared machinery of the browser-group checks (C03, C04, C05): simulated-daemon histories
(one daemon, 1-2 interfaces, browse open, responders played by injected response packets),
projection of the implementation's trace, model input, scenario generators.

Observation line (both sides):  OBS <n iterations> {#k@now|<events>|<questions>|<metrics>}
  events    = ch=ev,ev;ch=ev ...   per channel: stable sort by instance name
              F:<ty>:<inst>  X:<ty>:<inst>  R:<ty>:<sub|->:<inst>:<host>:<port>:<ip@if+..>:<k=v+k+..>
  questions = set of <label.label...>:<qtype> over all query packets of the iteration, labels in
              lower case (ASCII), PTR-type questions (browse query / PTR refresh) excluded
  metrics   = m<ch>=ptr.srv.txt.addr.nsec.subtype  (cache sizes reported by get_metrics)
All byte strings in hex ('_' = empty).
"""
import ipaddress
import json
import os
import sys

sys.path.insert(0, os.path.dirname(os.path.dirname(os.path.abspath(__file__))))
import dnsgen  # noqa: E402
from vlib import Case  # noqa: E402

T0 = 1000000
IF_A = {"name": "eth0", "index": 2, "addr": "192.168.1.10", "mask": "255.255.255.0"}
IF_A6 = {"name": "eth0", "index": 2, "addr": "fe80::10", "mask": "ffff:ffff:ffff:ffff::"}
IF_B = {"name": "eth1", "index": 3, "addr": "10.0.0.10", "mask": "255.255.255.0"}


def hx(b):
    if isinstance(b, str):
        b = b.encode()
    return b.hex() if b else "_"


# --------------------------------------------------------------------------- packets

def labels(name):
    """name: list of label bytes, or dotted str without escapes."""
    return dnsgen.labels_of(name)


def dotted(name):
    return dnsgen.dotted(labels(name))


def txt_rdata(props):
    """props: list of (key bytes, value bytes | None)."""
    b = b"".join(bytes([len(k) + (0 if v is None else 1 + len(v))]) + k + (b"" if v is None else b"=" + v)
                 for k, v in props)
    return b or b"\x00"


def packet(recs, flags=0x8400, compress=True):
    """recs: list of (section 1..3, name, type, class (with flush bit), ttl, rdata builder)."""
    p = dnsgen.Packet(compress)
    for sec, name, ty, cls, ttl, rd in recs:
        p.rr(sec, name, ty, cls, ttl, rd)
    return p.finish(flags=flags).hex()


def r_ptr(ty, inst, ttl=4500, sec=1, cls=1):
    return (sec, ty, 12, cls, ttl, dnsgen.rd_ptr(inst))


def r_srv(inst, host, port=8080, ttl=120, sec=3, cls=0x8001, prio=0, weight=0):
    return (sec, inst, 33, cls, ttl, dnsgen.rd_srv(prio, weight, port, host))


def r_txt(inst, props=((b"a", b"1"),), ttl=4500, sec=3, cls=0x8001):
    return (sec, inst, 16, cls, ttl, dnsgen.rd_bytes(txt_rdata(list(props))))


def r_a(host, ip, ttl=120, sec=3, cls=0x8001):
    b = ipaddress.ip_address(ip).packed
    return (sec, host, 1 if len(b) == 4 else 28, cls, ttl, dnsgen.rd_bytes(b))


def r_nsec(name, ttl=120, sec=3, cls=0x8001):
    return (sec, name, 47, cls, ttl, dnsgen.rd_nsec(name, b"\x00\x00\x00\x40"))


# --------------------------------------------------------------------------- histories

class Hist:
    """Builder of one sim history. Steps are explicit iterations or timer-exact runs."""

    def __init__(self, hid, ifaces=None, seed=1):
        self.h = {"id": hid, "t0": T0, "daemons": [{"seed": seed, "ifaces": ifaces or [IF_A, IF_A6, IF_B]}],
                  "link": "none", "steps": []}
        self.nch = 0

    def step(self, t, calls=None, dgrams=None):
        st = {"t": T0 + t, "d": 0}
        if calls:
            st["calls"] = calls
        if dgrams:
            st["dgrams"] = dgrams
        self.h["steps"].append(st)
        return self

    def run_until(self, t):
        self.h["steps"].append({"run_until": T0 + t, "max_iters": 4000})
        return self

    def chan(self):
        self.nch += 1
        return "c%d" % self.nch

    def browse(self, ty):
        return {"op": "browse", "ty": ty if isinstance(ty, str) else dotted(ty).decode(), "ch": self.chan()}

    def stop(self, ty):
        return {"op": "stop_browse", "ty": ty if isinstance(ty, str) else dotted(ty).decode()}

    def verify(self, inst, timeout):
        return {"op": "verify", "name": inst if isinstance(inst, str) else dotted(inst).decode(), "timeout": timeout}

    def metrics(self):
        return {"op": "get_metrics", "ch": self.chan().replace("c", "m")}

    def line(self):
        return json.dumps(self.h, separators=(",", ":"))


def dg(hexpkt, ifidx=2, v4=True):
    src = {2: "192.168.1.99:5353", 3: "10.0.0.99:5353"}.get(ifidx, "192.168.7.7:5353") if v4 else "[fe80::99]:5353"
    return {"if": ifidx, "v4": v4, "src": src, "hex": hexpkt}


# --------------------------------------------------------------------------- aligning steps and trace

def chan_no(name):
    return int("".join(c for c in name if c.isdigit()) or "0")


def align(case, raw):
    """Returns the list of iterations [(now, wake, calls, dgrams, trace record)] in trace order,
    attributing calls/dgrams of explicit steps to their trace records (run_until iterations
    carry none). Mirrors the stepping logic of harness/src/sim.rs."""
    trace = [r for r in raw["trace"]]
    if not trace or not trace[0].get("init"):
        raise ValueError("no init record")
    if trace[0].get("stuck"):
        raise ValueError("stuck at init")
    last_wake = trace[0].get("wake")
    recs = trace[1:]
    pos = 0
    out = []
    for st in case["steps"]:
        if "run_until" in st:
            u = st["run_until"]
            n = 0
            while last_wake is not None and last_wake <= u and n < st.get("max_iters", 5000):
                if pos >= len(recs):
                    raise ValueError("trace shorter than the steps")
                r = recs[pos]
                pos += 1
                n += 1
                if r.get("truncated"):
                    raise ValueError("truncated")
                out.append((r["now"], r.get("wake"), [], [], r))
                if r.get("stuck") or r.get("exited"):
                    raise ValueError("daemon stuck or exited")
                last_wake = r.get("wake")
            if pos < len(recs) and recs[pos].get("truncated"):
                raise ValueError("truncated")
        else:
            if pos >= len(recs):
                raise ValueError("trace shorter than the steps")
            r = recs[pos]
            pos += 1
            if r.get("stuck") or r.get("exited") or r.get("truncated"):
                raise ValueError("daemon stuck or exited")
            out.append((r["now"], r.get("wake"), st.get("calls", []), st.get("dgrams", []), r))
            last_wake = r.get("wake")
    if pos != len(recs):
        raise ValueError("trace longer than the steps")
    return out


def fmt_event(e):
    k = e["e"]
    if k == "ServiceFound":
        return e["name"].encode(), "F:%s:%s" % (hx(e["ty"]), hx(e["name"]))
    if k == "ServiceRemoved":
        return e["name"].encode(), "X:%s:%s" % (hx(e["ty"]), hx(e["name"]))
    if k == "ServiceResolved":
        pairs = set()
        for a in e["addrs"]:
            ip, ifs = a.rsplit("@", 1)
            for i in ifs.split("+"):
                pairs.add("%s@%s" % (ipaddress.ip_address(ip).packed.hex(), i))
        txt = []
        for kv in e["txt"]:
            key = "_" if kv[0] == "-" else kv[0]
            if kv[1] is None:
                txt.append(key)
            else:
                txt.append("%s=%s" % (key, "_" if kv[1] == "-" else kv[1]))
        return e["name"].encode(), "R:%s:%s:%s:%s:%d:%s:%s" % (
            hx(e["ty"]), hx(e["sub"]) if e["sub"] is not None else "-", hx(e["name"]), hx(e["host"]), e["port"],
            "+".join(sorted(pairs)) or "-", "+".join(txt) or "-")
    return None, None


METRIC_KEYS = ["cached-ptr", "cached-srv", "cached-txt", "cached-addr", "cached-nsec", "cached-subtype"]


def project_line(case_line, raw_line):
    if is_na(case_line):
        return project_na(case_line, raw_line)
    case = json.loads(case_line)
    raw = json.loads(raw_line)
    if "error" in raw:
        return "HARNESSERROR " + str(raw["error"])[:100]
    try:
        its = align(case, raw)
    except ValueError as e:
        return "SKIP" if str(e) == "truncated" else "BADTRACE " + str(e)
    toks = []
    for k, (now, wake, calls, dgrams, r) in enumerate(its):
        cparts = []
        mparts = []
        evs = r.get("events", {})
        for ch in sorted(evs, key=chan_no):
            if ch.startswith("m"):
                for e in evs[ch]:
                    if e.get("e") == "Metrics":
                        mparts.append("m%d=%s" % (chan_no(ch), ".".join(str(e["m"].get(kk, 0)) for kk in METRIC_KEYS)))
                continue
            l = []
            for e in evs[ch]:
                key, s = fmt_event(e)
                if s is not None:
                    l.append((key, s))
            l.sort(key=lambda x: x[0])        # stable: events of one instance keep their order
            if l:
                cparts.append("%d=%s" % (chan_no(ch), ",".join(s for _, s in l)))
        qs = set()
        for e in r.get("sent", []):
            p = dnsgen.parse_packet(bytes.fromhex(e["hex"]))
            if p is None:
                qs.add("UNPARSABLE")
                continue
            if p["flags"] & 0x8000:
                continue
            for (ls, ty, _cl) in p["q"]:
                if ty != 12:
                    # DNS names: ASCII case is not significant (two spellings of one host may be
                    # asked in either spelling, depending on hash order)
                    qs.add("%s:%d" % (".".join(hx(l.lower()) for l in ls) or "_", ty))
        if cparts or qs or mparts:
            toks.append("#%d@%d|%s|%s|%s" % (k, now, ";".join(cparts) or "-", ",".join(sorted(qs)) or "-",
                                             ",".join(mparts) or "-"))
    return "OBS %d" % len(its) + ("".join(" " + t for t in toks))


def model_input_line(case_line, raw_line):
    if is_na(case_line):
        return "na"
    case = json.loads(case_line)
    raw = json.loads(raw_line)
    its = align(case, raw)
    # interface table: index -> has v4 / v6 address (the daemon picks up every simulated interface)
    ifs = {}
    for i in case["daemons"][0]["ifaces"]:
        e = ifs.setdefault(i["index"], [0, 0])
        if ":" in i["addr"]:
            e[1] = 1
        else:
            e[0] = 1
    iftok = ",".join("%d:%d:%d" % (k, v[0], v[1]) for k, v in sorted(ifs.items())) or "-"
    toks = ["sim", iftok]
    for (now, wake, calls, dgrams, r) in its:
        cs = []
        for c, res in zip(calls, r.get("calls", [])):
            if res.get("r") != "Ok":
                continue            # refused by the API: no command reaches the daemon
            op = c["op"]
            if op == "browse":
                cs.append("B:%s:%d" % (hx(c["ty"]), chan_no(c["ch"])))
            elif op == "stop_browse":
                cs.append("S:%s" % hx(c["ty"]))
            elif op == "verify":
                cs.append("V:%s:%d" % (hx(c["name"]), c["timeout"]))
            elif op == "get_metrics":
                cs.append("M:%d" % chan_no(c["ch"]))
            else:
                raise ValueError("call not in the model: " + op)
        ds = ["%d:%s:%s" % (g["if"], "4" if g.get("v4", True) else "6", g["hex"] or "_") for g in dgrams]
        toks.append("%d/%s/%s/%s" % (now, "-" if wake is None else str(wake), ";".join(cs) or "-", ";".join(ds) or "-"))
    return " ".join(toks)


# --------------------------------------------------------------------------- scenario generators

TY1 = "_http._tcp.local."
TY2 = "_ipp._tcp.local."
SUB1 = "_printer._sub._http._tcp.local."
FOREIGN = "_other._udp.local."
INST_LABELS = [b"web", b"My Web", "Büro".encode(), b"printer-2", b"x" * 20, b"a\\b", b"UPPER", b"n1"]
HOSTS = [b"host1", b"nas", b"box-3", b"h"]
TTLS_SHORT = [2, 3, 5, 10]


def inst_name(label, ty):
    """Instance names live under the parent type also when the PTR is a subtype PTR."""
    return [label] + (labels(ty)[-3:] if "._sub." in ty else labels(ty))


class Svc:
    """What a simulated responder currently advertises for one instance."""

    def __init__(self, rng, label, ty, host, ifidx, sub=None, mixed_case=False):
        self.rng = rng
        self.ty = ty            # the name of the PTR record (a type, or a subtype)
        self.sub = sub          # a second PTR name for the same instance (hash-order dependent removal!)
        self.inst = inst_name(label, ty)
        hl = host.upper() if mixed_case and rng.random() < 0.5 else host
        self.host = [hl.capitalize() if mixed_case else host, b"local"]
        self.addr_owner = [host, b"local"] if mixed_case else self.host
        self.port = rng.choice([80, 8080, 631, 5000])
        self.txt = [(b"a", b"1")] if rng.random() < 0.7 else []
        self.ifidx = ifidx
        base = {2: "192.168.1.", 3: "10.0.0."}[ifidx]
        self.addrs = [base + str(rng.randrange(20, 250))]
        if rng.random() < 0.3:
            self.addrs.append(base + str(rng.randrange(20, 250)))
        if rng.random() < 0.25 and ifidx == 2:
            self.addrs.append("fe80::%x" % rng.randrange(1, 0xffff))
        self.ttl_ptr = rng.choice([4500, 120, 10, 5])
        self.ttl_srv = rng.choice([120, 10, 5, 3])
        self.ttl_txt = rng.choice([4500, 120, 10])
        self.ttl_a = rng.choice([120, 10, 5, 3])

    def recs(self, parts="PSTA", ttl0=False, flush=True, ptr_sec=1, other_sec=3):
        out = []
        z = (lambda t: 0) if ttl0 else (lambda t: t)
        uc = 0x8001 if flush else 1
        if "P" in parts:
            out.append(r_ptr(self.ty, self.inst, z(self.ttl_ptr), sec=ptr_sec))
            if self.sub:
                out.append(r_ptr(self.sub, self.inst, z(self.ttl_ptr), sec=ptr_sec))
        if "S" in parts:
            out.append(r_srv(self.inst, self.host, self.port, z(self.ttl_srv), sec=other_sec, cls=uc))
        if "T" in parts:
            out.append(r_txt(self.inst, self.txt, z(self.ttl_txt), sec=other_sec, cls=uc))
        if "A" in parts:
            for a in self.addrs:
                out.append(r_a(self.addr_owner, a, z(self.ttl_a), sec=other_sec, cls=uc))
        return out

    def max_ttl(self):
        return max(self.ttl_ptr, self.ttl_srv, self.ttl_txt, self.ttl_a)


def split_packets(rng, recs, for_us_ty=None):
    """Random partition of the record list into 1..4 packets, random order, optional duplicates.
    Records other than the first of a packet may sit in any section."""
    recs = list(recs)
    if rng.random() < 0.3:
        recs.append(rng.choice(recs))          # a duplicate
    rng.shuffle(recs)
    n = rng.choice([1, 1, 2, 2, 3, 4])
    n = min(n, len(recs))
    cuts = sorted(rng.sample(range(1, len(recs)), n - 1)) if n > 1 else []
    parts = [recs[i:j] for i, j in zip([0] + cuts, cuts + [len(recs)])]
    pk = []
    for p in parts:
        q = []
        for (sec, name, ty, cls, ttl, rd) in p:
            # a PTR of a type that is not browsed must not be the only PTR in the answer section;
            # keep PTRs in the answer section, move the others around freely
            s = 1 if ty == 12 else rng.choice([1, 2, 3, 3])
            q.append((s, name, ty, cls, ttl, rd))
        pk.append(q)
    return pk


def foreign_recs(rng):
    fi = [rng.choice([b"zz", b"other"])] + labels(FOREIGN)
    fh = [b"elsewhere", b"local"]
    return [r_ptr(FOREIGN, fi, 4500, sec=3), r_srv(fi, fh, 9, 120), r_a(fh, "192.168.1.77", 120), r_nsec(fh)]


class Scenario:
    def __init__(self, rng, hid, two_if=True, browse=(TY1,)):
        self.rng = rng
        self.h = Hist(hid, ifaces=[IF_A, IF_A6, IF_B] if two_if else [IF_A, IF_A6])
        self.two_if = two_if
        self.t = 0
        self.pending_dgrams = []
        self.pending_calls = [self.h.browse(t) for t in browse]
        self.max_ttl = 1
        self.exact = True

    def now_flush(self):
        """Emits the pending calls/datagrams as one explicit iteration at self.t."""
        self.h.step(self.t, calls=self.pending_calls or None, dgrams=self.pending_dgrams or None)
        self.pending_calls = []
        self.pending_dgrams = []

    def deliver(self, recs, ifidx=2, v4=None, compress=True, flags=0x8400):
        if v4 is None:
            # now and then over IPv6 (interface 2 has an IPv6 address, interface 3 has none: dropped)
            v4 = self.rng.random() >= 0.12
        self.pending_dgrams.append(dg(packet(recs, flags=flags, compress=compress), ifidx, v4))

    def noise(self, recs):
        """Datagrams the daemon must ignore: a query carrying the records as known answers, a
        response on an interface the daemon does not have, a truncated response."""
        k = self.rng.choice(["query", "unknown-if", "truncated", "v6-on-v4-only"])
        if k == "query":
            p = dnsgen.Packet()
            p.question(TY1, 12)
            for sec, name, ty, cls, ttl, rd in recs:
                p.rr(1, name, ty, cls & 0x7FFF, ttl, rd)
            self.pending_dgrams.append(dg(p.finish(flags=0).hex(), 2, True))
        elif k == "unknown-if":
            self.pending_dgrams.append(dg(packet(recs), 9, True))
        elif k == "truncated":
            h = packet(recs)
            self.pending_dgrams.append(dg(h[:max(24, (len(h) // 4) * 2)], 2, True))
        else:
            self.pending_dgrams.append(dg(packet(recs), 3, False))

    def advance(self, dt, exact=None):
        """Flush the current iteration, then move the clock by dt (timer-exact run or a jump)."""
        self.now_flush()
        self.t += dt
        if exact is None:
            exact = self.exact
        if exact and dt > 0:
            self.h.run_until(self.t)

    def finish(self, horizon, metrics=True):
        self.now_flush()
        self.t += horizon
        self.h.run_until(self.t)
        if metrics:
            self.h.step(self.t, calls=[self.h.metrics()])
        return self.h.line()


GAPS = [0, 0, 50, 200, 499, 500, 700, 1000, 1001, 1500, 2500, 4000]


def gen_lifecycle(rng, hid, special=None):
    """announce / update / goodbye / refresh / verify / stop histories of 1-3 instances."""
    two_if = rng.random() < 0.6
    browse = [TY1]
    if rng.random() < 0.25:
        browse.append(TY2)
    use_sub = rng.random() < 0.2
    if use_sub:
        browse.append(SUB1)
    sc = Scenario(rng, hid, two_if, browse)
    sc.exact = rng.random() < 0.75
    svcs = []
    nsv = rng.choice([1, 1, 2, 2, 3])
    shared_host = rng.choice(HOSTS)
    labels_pool = rng.sample(INST_LABELS, 3)
    for i in range(nsv):
        ty = TY1 if i < 2 else TY2
        host = shared_host if rng.random() < 0.5 else rng.choice(HOSTS)
        ifidx = 3 if (two_if and rng.random() < 0.3) else 2
        if use_sub and i == 0:
            ty = SUB1           # advertised under the subtype PTR only (one PTR name per instance)
        svcs.append(Svc(rng, labels_pool[i], ty, host, ifidx, mixed_case=rng.random() < 0.3))
    if rng.random() < 0.5:
        for s in svcs:      # short-lived world: everything expires within seconds
            s.ttl_ptr = rng.choice([10, 5, 4500]); s.ttl_srv = rng.choice(TTLS_SHORT); s.ttl_a = rng.choice(TTLS_SHORT)
            s.ttl_txt = rng.choice([3, 10, 4500])
    sc.advance(rng.choice([0, 100, 1000]))
    announced = set()
    nact = rng.choice([2, 4, 6, 9])
    for _ in range(nact):
        s = rng.choice(svcs)
        act = rng.choice(["announce", "announce", "refresh", "port", "txt", "addr", "bye", "bye-part", "foreign",
                          "notforus", "verify", "silence", "dup-if", "stop", "announce-split", "noise"])
        npk = 0
        if act in ("announce", "announce-split") or (s.inst[0] not in announced and act in ("refresh", "port", "txt")):
            announced.add(s.inst[0])
            if act == "announce-split":
                pks = split_packets(rng, s.recs())
                # spread over up to 2 iterations
                for j, p in enumerate(pks[:3]):
                    sc.deliver(p, s.ifidx)
                    if j == 0 and len(pks) > 1 and rng.random() < 0.5:
                        sc.advance(rng.choice([0, 100, 499, 600, 1200]))
            else:
                sc.deliver(s.recs(), s.ifidx, compress=rng.random() < 0.8)
        elif act == "refresh":
            sc.deliver(s.recs(rng.choice(["PSTA", "SA", "P", "S", "A", "T"])), s.ifidx)
        elif act == "port":
            s.port = rng.choice([81, 82, 9000])
            sc.deliver(s.recs("S", flush=rng.random() < 0.8), s.ifidx)
        elif act == "txt":
            s.txt = rng.choice([[(b"a", b"2")], [(b"k", None), (b"K", b"dup")], [], [(b"path", b"/x"), (b"a", b"1")]])
            sc.deliver(s.recs("T", flush=rng.random() < 0.8), s.ifidx)
        elif act == "addr":
            base = {2: "192.168.1.", 3: "10.0.0."}[s.ifidx]
            if rng.random() < 0.5:
                s.addrs = [base + str(rng.randrange(20, 250))]
            else:
                s.addrs.append(base + str(rng.randrange(20, 250)))
                s.addrs = s.addrs[-2:]
            sc.deliver(s.recs("A", flush=rng.random() < 0.8), s.ifidx)
        elif act == "bye":
            sc.deliver(s.recs(ttl0=True), s.ifidx)
            if rng.random() < 0.3:
                sc.deliver(s.recs(ttl0=True), s.ifidx)          # duplicated goodbye
            announced.discard(s.inst[0])
        elif act == "bye-part":
            sc.deliver(s.recs(rng.choice(["P", "S", "A", "SA", "T"]), ttl0=True), s.ifidx)
        elif act == "noise":
            sc.noise(s.recs(rng.choice(["PSTA", "SA", "P"]), ttl0=rng.random() < 0.3))
        elif act == "foreign":
            sc.deliver(foreign_recs(rng) + (s.recs("A") if rng.random() < 0.3 else []), s.ifidx)
        elif act == "notforus":
            # answers hold only a PTR of a type nobody browses: the packet is not for us
            fi = [b"zz"] + labels(FOREIGN)
            sc.deliver([r_ptr(FOREIGN, fi, 4500, sec=1)] + [(3,) + r[1:] for r in s.recs(rng.choice(["PSTA", "ST", "A"]))], s.ifidx)
        elif act == "verify":
            sc.pending_calls.append(sc.h.verify(dotted(s.inst).decode(), rng.choice([500, 1000, 1500, 3000, 10000])))
            if rng.random() < 0.5:
                sc.advance(rng.choice([200, 1000, 1200]))
                sc.deliver(s.recs(rng.choice(["S", "A", "SA"])), s.ifidx)     # the answer
        elif act == "dup-if" and two_if:
            other = 3 if s.ifidx == 2 else 2
            recs = s.recs()
            sc.deliver(recs, other)
        elif act == "stop":
            sc.pending_calls.append(sc.h.stop(s.ty))
            if rng.random() < 0.6:
                sc.advance(rng.choice([0, 300, 2000]))
                sc.pending_calls.append(sc.h.browse(s.ty))
        sc.max_ttl = max(sc.max_ttl, s.max_ttl())
        gap = rng.choice(GAPS + [s.ttl_srv * 1000, s.ttl_a * 1000 - 500, s.ttl_srv * 800, s.ttl_a * 1000 + 1])
        if len(sc.pending_dgrams) >= 3 or gap > 0:
            sc.advance(max(gap, 1))
    short = [min(s.ttl_srv, s.ttl_a) for s in svcs]
    horizon = rng.choice([3000, 1000 * min(30, max(short)) + 2500, 1000 * min(140, sc.max_ttl) + 2500])
    return sc.finish(horizon)


def gen_order(rng, hid):
    """C04: every partition / order / duplication of one instance's record set."""
    ty = SUB1 if rng.random() < 0.2 else TY1
    sc = Scenario(rng, hid, rng.random() < 0.5, [ty])
    s = Svc(rng, rng.choice(INST_LABELS), ty, rng.choice(HOSTS), 2)
    sc.advance(rng.choice([0, 100]))
    pks = split_packets(rng, s.recs() + (foreign_recs(rng)[:2] if rng.random() < 0.3 else []))
    for j, p in enumerate(pks):
        sc.deliver(p, s.ifidx, compress=rng.random() < 0.8)
        if j + 1 < len(pks) and rng.random() < 0.6:
            sc.advance(rng.choice([0, 100, 400, 499, 500, 501, 700, 1000, 1600, 2100]), exact=rng.random() < 0.85)
    return sc.finish(rng.choice([2500, 6000]))


def gen_followup(rng, hid):
    """C04: only the PTR arrives; the answers to the follow-up questions come later or never."""
    sc = Scenario(rng, hid, rng.random() < 0.5, [TY1])
    s = Svc(rng, rng.choice(INST_LABELS), TY1, rng.choice(HOSTS), 2)
    s.ttl_ptr = rng.choice([4500, 120, 10, 3, 2])
    sc.advance(rng.choice([0, 100]))
    sc.deliver(s.recs("P"), s.ifidx)
    t_answer_srv = rng.choice([None, 300, 500, 600, 1100, 1600, 2500])
    if t_answer_srv is not None:
        sc.advance(t_answer_srv)
        sc.deliver(s.recs(rng.choice(["S", "ST", "ST", "STA"])), s.ifidx)
        t_answer_a = rng.choice([None, 100, 500, 700, 1300])
        if t_answer_a is not None:
            sc.advance(t_answer_a)
            sc.deliver(s.recs("A"), s.ifidx)
    if rng.random() < 0.3:
        # the PTR runs out and is announced again later (alone)
        sc.advance(s.ttl_ptr * 1000 + rng.choice([100, 2000]) if s.ttl_ptr <= 10 else 3000)
        sc.deliver(s.recs("P"), s.ifidx)
    return sc.finish(rng.choice([2500, 4000]))


def gen_special(rng, hid, which):
    sc = Scenario(rng, hid, True, [TY1])
    if which == "dotted":
        s = Svc(rng, rng.choice([b"a.b", b"dot.ted.name", b"v1.2"]), TY1, rng.choice(HOSTS), 2)
        sc.advance(100)
        sc.deliver(s.recs("P"), 2)
        if rng.random() < 0.5:
            sc.advance(rng.choice([700, 1200]))
            sc.deliver(s.recs("STA"), 2)
        return sc.finish(3000)
    if which == "case":
        # SRV target and address owner spelled with different letter case (repaired D21: must
        # resolve when the address arrives alone, and be removed when the last address goes)
        s = Svc(rng, rng.choice(INST_LABELS), TY1, rng.choice(HOSTS), 2, mixed_case=True)
        s.ttl_a = rng.choice([3, 5, 120]); s.ttl_srv = rng.choice([10, 120]); s.ttl_ptr = 4500
        sc.advance(100)
        mode = rng.choice(["sep", "together", "verify", "addr-bye"])
        if mode == "sep":
            sc.deliver(s.recs("PST"), 2)
            sc.advance(rng.choice([0, 200, 700]))
            sc.deliver(s.recs("A"), 2)
        else:
            sc.deliver(s.recs(), 2)
        if mode == "verify":
            sc.advance(1000)
            sc.pending_calls.append(sc.h.verify(dotted(s.inst).decode(), rng.choice([1500, 3000])))
            if rng.random() < 0.5:
                sc.advance(rng.choice([300, 1200]))
                sc.deliver(s.recs(rng.choice(["S", "SA"])), 2)
        if mode == "addr-bye":
            sc.advance(rng.choice([500, 1500]))
            sc.deliver(s.recs("A", ttl0=True), 2)          # address-only goodbye, PTR/SRV stay live
            if rng.random() < 0.4:
                sc.advance(rng.choice([400, 2500]))
                sc.deliver(s.recs("A"), 2)
        return sc.finish(rng.choice([3000, s.ttl_a * 1000 + 3000]))
    if which in ("two-types", "two-types-addr"):
        # the instance is advertised under its type and a subtype PTR
        br = rng.choice([[TY1, SUB1], [TY1, SUB1], [TY1], [SUB1]])
        sc = Scenario(rng, hid, True, br)
        s = Svc(rng, rng.choice(INST_LABELS), TY1, rng.choice(HOSTS), 2, sub=SUB1)
        s.ttl_ptr = 4500
        if which == "two-types":
            s.ttl_srv = rng.choice([3, 5]); s.ttl_a = 120          # the SRV runs out first: repaired
        else:
            s.ttl_srv = 120; s.ttl_a = rng.choice([3, 5])          # the address runs out first (repaired f108398)
            s.addrs = s.addrs[:1]
        sc.advance(100)
        sc.deliver(s.recs(), 2, v4=True)
        return sc.finish(min(s.ttl_srv, s.ttl_a) * 1000 + 3000)
    if which == "srv-targets":
        # a second SRV record (no cache-flush bit) naming another host (with or without addresses)
        s = Svc(rng, rng.choice(INST_LABELS), TY1, rng.choice(HOSTS), 2)
        s.ttl_ptr = 4500; s.ttl_srv = 120; s.ttl_a = 120
        sc.advance(100)
        sc.deliver(s.recs(flush=rng.random() < 0.5), 2, v4=True)
        sc.advance(rng.choice([500, 2000]))
        other = [b"other-host", b"local"]
        recs = [r_srv(s.inst, other, 9090, 120, cls=1)]
        if rng.random() < 0.4:
            recs.append(r_a(other, "192.168.1.77", 120))
        sc.deliver(recs, 2, v4=True)
        return sc.finish(rng.choice([3000, 6000]))
    if which == "ptr-variant":
        s = Svc(rng, rng.choice(INST_LABELS), TY1, rng.choice(HOSTS), 2)
        s.ttl_ptr = 4500; s.ttl_srv = 120; s.ttl_a = 120
        sc.advance(100)
        sc.deliver(s.recs(), 2)
        sc.advance(rng.choice([0, 500]))
        sc.deliver([r_ptr(TY1, s.inst, rng.choice([2, 5]), cls=0x8001)], 2)
        return sc.finish(8000)
    if which == "stop-second-name":
        # the instance is browsed under its type and a subtype; one of the two is stopped (finding
        # C05-stop-browse-drops-shared-records: the instance's SRV/TXT/address records go with it),
        # or - control - the instance has only one PTR name and another type is stopped
        both = rng.random() < 0.75
        sc = Scenario(rng, hid, True, [TY1, SUB1])
        s = Svc(rng, rng.choice(INST_LABELS), TY1, rng.choice(HOSTS), 2, sub=SUB1 if both else None)
        s.ttl_ptr = 4500; s.ttl_srv = rng.choice([10, 120]); s.ttl_a = 120; s.addrs = s.addrs[:1]
        sc.advance(100)
        sc.deliver(s.recs(), 2, v4=True)
        sc.advance(rng.choice([500, 1500]))
        sc.pending_calls.append(sc.h.stop(rng.choice([TY1, SUB1])))
        if rng.random() < 0.3:
            sc.advance(rng.choice([500, 2000]))
            sc.deliver(s.recs("SA"), 2, v4=True)          # the records come back: resolved again
        return sc.finish(rng.choice([3000, 12000]))
    if which == "quick-update":
        # an SRV / TXT update that does not flush its predecessor: less than a second after the
        # announcement (RFC 6762 10.2 guard) or without the cache-flush bit - two live records of one
        # name and type coexist; then, sometimes, the OLDER record is announced again (reset_ttl leaves
        # it where it is in the Vec).  C03: the event must carry the data received last.
        s = Svc(rng, rng.choice(INST_LABELS), TY1, rng.choice(HOSTS), 2)
        s.ttl_ptr = 4500; s.ttl_srv = rng.choice([120, 10]); s.ttl_txt = rng.choice([4500, 120]); s.ttl_a = 120
        s.addrs = s.addrs[:1]; s.txt = [(b"v", b"1")]
        p1 = s.port
        sc.advance(100)
        sc.deliver(s.recs(), 2, v4=True)
        gap = rng.choice([0, 0, 200, 700, 999, 1000, 1001, 1500])
        if gap:
            sc.advance(gap)
        flush = rng.random() < 0.6
        what = rng.choice(["S", "T", "ST"])
        s.port = p1 + 1; s.txt = [(b"v", b"2")]
        sc.deliver(s.recs(what, flush=flush), 2, v4=True)
        if rng.random() < 0.5:
            # the older record again
            g2 = rng.choice([0, 300, 1200])
            if g2:
                sc.advance(g2)
            s.port = p1; s.txt = [(b"v", b"1")]
            sc.deliver(s.recs(what, flush=rng.random() < 0.5), 2, v4=True)
            if rng.random() < 0.5:
                sc.advance(rng.choice([300, 1500]))
                sc.deliver(s.recs("A"), 2, v4=True)          # a refresh that changes nothing
        if rng.random() < 0.4:
            sc.advance(rng.choice([500, 2000]))
            sc.deliver([r_a(s.addr_owner, "192.168.1.%d" % rng.randrange(200, 250), 120)], 2, v4=True)   # a new address: resolved again
        return sc.finish(rng.choice([2500, 5000]))
    if which == "stale-resolve":
        # finding C04-stale-resolve-overlaps-series: the PTR arrives a datagram (or 100 ms) before the rest, so a
        # Resolve command is queued and the instance is resolved; the command is still queued (late
        # schedule: no iteration at its due time, or < 500 ms) when the instance becomes invalid and a new
        # record starts a new series; a later new record then starts yet another one
        sc.exact = False
        s = Svc(rng, rng.choice(INST_LABELS), TY1, rng.choice(HOSTS), 2)
        s.ttl_ptr = 4500; s.ttl_srv = rng.choice([10, 5]); s.ttl_a = 120; s.ttl_txt = 4500; s.addrs = s.addrs[:1]
        sc.advance(100)
        sc.deliver(s.recs("PA"), 2, v4=True)
        if rng.random() < 0.5:
            sc.advance(100)
        sc.deliver(s.recs("ST"), 2, v4=True)
        late = rng.random() < 0.7
        sc.advance(s.ttl_srv * 1000 - rng.choice([0, 0, 300]), exact=not late)
        sc.deliver([r_a(s.addr_owner, "192.168.1.%d" % rng.randrange(200, 250), 10)], 2, v4=True)
        if rng.random() < 0.8:
            sc.advance(rng.choice([799, 1001]), exact=rng.random() < 0.5)
            sc.deliver([r_txt(s.inst, [(b"k", b"dup")], 4500, cls=1)], 2, v4=True)
        sc.exact = True
        return sc.finish(4000)
    if which == "found-withdrawn":
        # a PTR record and its goodbye in ONE packet (finding C04-found-withdrawn-in-same-message), or in
        # two packets of one iteration / the goodbye first (controls: must pass)
        s = Svc(rng, rng.choice(INST_LABELS), TY1, rng.choice(HOSTS), 2)
        sc.advance(100)
        mode = rng.choice(["one", "one", "two", "bye-first"])
        if mode == "one":
            sc.deliver([r_ptr(TY1, s.inst, 120), r_ptr(TY1, s.inst, 0)], 2, v4=True)
        elif mode == "two":
            sc.deliver([r_ptr(TY1, s.inst, 120)], 2, v4=True)
            sc.deliver([r_ptr(TY1, s.inst, 0)], 2, v4=True)
        else:
            sc.deliver([r_ptr(TY1, s.inst, 0), r_ptr(TY1, s.inst, 120)], 2, v4=True)
        return sc.finish(3000)
    if which == "stop-rebrowse":
        # browse; only the PTR arrives; stop_browse inside the follow-up window (1.5 s); browse again
        # at any later time; again only the PTR arrives: ServiceFound, and the follow-up question
        # must come within 500 ms (a chain cancelled by stop_browse must not leave the instance
        # "pending").  Variant: type and subtype share the instance, the type is stopped, the subtype
        # stays browsed: its chain must go on.
        shared = rng.random() < 0.3
        sc = Scenario(rng, hid, True, [TY1, SUB1] if shared else [TY1])
        s = Svc(rng, rng.choice(INST_LABELS), TY1, rng.choice(HOSTS), 2, sub=SUB1 if shared else None)
        s.ttl_ptr = rng.choice([4500, 120])
        sc.advance(100)
        sc.deliver(s.recs("P"), 2, v4=True)
        sc.advance(rng.choice([0, 100, 400, 600, 900, 1300]))
        sc.pending_calls.append(sc.h.stop(TY1))
        if shared and rng.random() < 0.5:
            return sc.finish(3000)
        gap = rng.choice([0, 0, 200, 800, 3000, 10000])
        if gap:
            sc.advance(gap)
        sc.pending_calls.append(sc.h.browse(TY1))
        sc.advance(rng.choice([50, 300, 1000]))
        sc.deliver([r_ptr(TY1, s.inst, s.ttl_ptr)], 2, v4=True)
        if rng.random() < 0.3:
            sc.advance(rng.choice([700, 1200]))
            sc.deliver(s.recs("STA"), 2, v4=True)
        return sc.finish(3000)
    if which == "browse-expiring":
        # browse starts while a cached PTR record of the type is in its last second (finding
        # C04-browse-over-expiring-ptr), or shortly before that (control: must pass).  The PTR gets
        # into the cache while its type is not browsed: in the additional section of a response
        # without PTR answers, or beside the PTR of a browsed subtype.
        route = rng.choice(["addl", "subtype"])
        sc = Scenario(rng, hid, True, [] if route == "addl" else [SUB1])
        s = Svc(rng, rng.choice(INST_LABELS), TY1, rng.choice(HOSTS), 2, sub=SUB1 if route == "subtype" else None)
        ttl = rng.choice([2, 3, 5])
        sc.advance(100)
        if route == "addl":
            sc.deliver([r_txt(s.inst, sec=1), (3, TY1, 12, 1, ttl, dnsgen.rd_ptr(s.inst))], 2, v4=True)
        else:
            sc.deliver([r_ptr(SUB1, s.inst, 4500), r_ptr(TY1, s.inst, ttl)], 2, v4=True)
        sc.advance(ttl * 1000 - rng.choice([100, 500, 900, 999, 1000, 1300]))
        sc.pending_calls.append(sc.h.browse(TY1))
        if rng.random() < 0.8:
            sc.advance(rng.choice([0, 50, 200]))
            sc.deliver([r_ptr(TY1, s.inst, 120)], 2, v4=True)
        sc.advance(rng.choice([0, 200, 700]))
        sc.deliver([r_srv(s.inst, s.host, 8080, 120), r_a(s.host, "192.168.1.50", 120)], 2, v4=True)
        return sc.finish(3000)
    raise ValueError(which)


# --------------------------------------------------------------------------- model-free family: non-ASCII case
# Case mapping of non-ASCII letters is outside the Coq model (Base/Bytes.v lower-cases ASCII only; the
# daemon uses Unicode to_lowercase), so host names with non-ASCII cased letters are kept out of the modelled
# histories.  This family: browse; packet 1 = PTR + SRV + TXT with the SRV target in one spelling; packet 2
# (200-900 ms later, i.e. before or after the first follow-up query) = the address record under another
# spelling of the same name (differing in the case of a non-ASCII letter; controls: ASCII case, identical,
# lower-case non-ASCII); with expiry: a short address TTL runs out unrefreshed on a timer-exact run.
# Expected (computed here, the model line is the constant "na", the driver answers "NA ok"): ServiceFound
# in the iteration of packet 1, exactly one ServiceResolved, in the iteration of packet 2, with that address;
# with expiry exactly one ServiceRemoved, at the expiry of the address (up to 1 s early); else none.

NA_PAIRS = [("B\u00dcRO-DRUCKER", "b\u00fcro-drucker"), ("CAF\u00c9-printer", "caf\u00e9-printer"),
            ("\u00c5ngstr\u00f6m-NAS", "\u00e5ngstr\u00f6m-nas"), ("\u0421\u0415\u0420\u0412\u0415\u0420", "\u0441\u0435\u0440\u0432\u0435\u0440")]


def is_na(line):
    return line.startswith('{"id":"na-')


def gen_nonascii_host(rng, hid, expiry):
    up, lo = rng.choice(NA_PAIRS)
    mode = rng.choice(["nonascii-case", "nonascii-case", "nonascii-case", "ascii-case", "same", "lower-nonascii"])
    if mode == "nonascii-case":
        a, b = (up, lo) if rng.random() < 0.5 else (lo, up)
    elif mode == "ascii-case":
        a, b = rng.choice([("Host-One", "host-one"), ("host-one", "HOST-ONE")])
    elif mode == "same":
        a = b = rng.choice([up, lo, "plainhost"])
    else:
        a = b = lo
    gap = rng.choice([200, 400, 600, 900])
    ttl = rng.choice([4, 5, 7, 10]) if expiry else 120
    h = Hist("%s-g%d-t%d-e%d" % (hid, gap, ttl, 1 if expiry else 0), ifaces=[IF_A, IF_A6])
    inst = inst_name(rng.choice([b"web", b"My Web", b"printer-2"]), TY1)
    ha = [a.encode(), b"local"]; hb = [b.encode(), b"local"]
    h.step(0, calls=[h.browse(TY1)])
    h.step(100, dgrams=[dg(packet([r_ptr(TY1, inst, 4500), r_srv(inst, ha, 8080, 120), r_txt(inst, [(b"a", b"1")], 4500)]), 2, True)])
    h.run_until(100 + gap)
    h.step(100 + gap, dgrams=[dg(packet([r_a(hb, "192.168.1.77", ttl)]), 2, True)])
    h.run_until(100 + gap + (ttl * 1000 + 2500 if expiry else 2500))
    return h.line()


def project_na(case_line, raw_line):
    case = json.loads(case_line)
    raw = json.loads(raw_line)
    if "error" in raw:
        return "HARNESSERROR " + str(raw["error"])[:100]
    try:
        its = align(case, raw)
    except ValueError as e:
        return "SKIP" if str(e) == "truncated" else "BADTRACE " + str(e)
    parts = case["id"].split("-")
    gap = int([x for x in parts if x.startswith("g")][-1][1:])
    ttl = int([x for x in parts if x.startswith("t")][-1][1:])
    exp = [x for x in parts if x.startswith("e")][-1] == "e1"
    t0 = case["t0"]
    t1, t2 = t0 + 100, t0 + 100 + gap
    found, resolved, removed = [], [], []
    for (now, wake, calls, dgrams, r) in its:
        for ch, evs in r.get("events", {}).items():
            for e in evs:
                if e.get("e") == "ServiceFound":
                    found.append(now)
                elif e.get("e") == "ServiceResolved":
                    resolved.append((now, sorted(a.rsplit("@", 1)[0] for a in e["addrs"])))
                elif e.get("e") == "ServiceRemoved":
                    removed.append(now)
    bad = []
    if found[:1] != [t1]:
        bad.append("found=%s" % ",".join(str(x - t0) for x in found))
    if resolved != [(t2, ["192.168.1.77"])]:
        bad.append("resolved=%s" % ";".join("%d:%s" % (x - t0, "+".join(a)) for x, a in resolved))
    if exp:
        due = t2 + ttl * 1000
        if len(removed) != 1 or not (due - 1000 <= removed[0] <= due):
            bad.append("removed=%s(expected %d)" % (",".join(str(x - t0) for x in removed), due - t0))
    elif removed:
        bad.append("removed=%s(expected none)" % ",".join(str(x - t0) for x in removed))
    return "NA ok" if not bad else "NA bad " + " ".join(bad)


def gen_long(rng, hid):
    """Default TTLs (120 s / 4500 s), silence until everything is gone: refresh questions at
    80/85/90/95 %, removal at the TTL."""
    sc = Scenario(rng, hid, False, [TY1])
    s = Svc(rng, rng.choice(INST_LABELS), TY1, rng.choice(HOSTS), 2)
    s.ttl_ptr = 4500; s.ttl_srv = 120; s.ttl_txt = 4500; s.ttl_a = 120
    sc.advance(100)
    sc.deliver(s.recs(), 2)
    if rng.random() < 0.5:
        sc.advance(rng.choice([96000, 100000, 110000]))
        sc.deliver(s.recs("SA"), 2)        # the refresh query is answered once
    return sc.finish(rng.choice([130000, 4700000]))


# --------------------------------------------------------------------------- shared module attributes

HARNESS_ARGS = ["sim"]
PER_SHARD = 8

TRUSTED_COMMON = [
    "Coq 8.16.1 kernel (coqc)",
    "axioms: none expected (Print Assumptions output recorded in this file)",
    "extraction (ExtrOcamlBasic only) + ocaml/browser/driver.ml (parsing of histories / observation lines, printing); "
    "the monitors are the extracted chk_C03 / viol_C04 / viol_C05",
    "tools/extract_params.py anchors (tools/params/browser.py -> Gen/ParamsBrowser.v, pinned in Proofs/ParamsBrowserPinned.v)",
    "hooks: the K6 simulated world (virtual clock, injected datagrams, per-iteration gate, captured egress) of the "
    "verif-hooks feature; harness/src/sim.rs; tools/dnsgen.py builds and parses the packets",
    "Model/Wire.v (decoder model, theorems C01/C02) is what turns delivered datagrams into records on the model side",
    "modelled, not verified: hash-map iteration order (canonical order per channel and instance; histories keep one "
    "PTR name per instance except in the known-finding class), time standing still inside one loop iteration, the "
    "static interface table, non-ASCII case mapping (identity), channel capacity (flume bounded(10): histories keep "
    "fewer than 10 events per channel and iteration), everything the hooks replace (mio, sockets, OS clock)",
]


def known_from_tags(mon_result, table):
    """mon_result 'FAIL[tag,tag] ...' -> finding id if EVERY tag is a listed class, else None."""
    if not mon_result.startswith("FAIL["):
        return None
    tags = mon_result[5:mon_result.index("]")].split(",")
    ids = [table.get(t) for t in tags]
    if not ids or any(i is None for i in ids):
        return None
    return ids[0]


def nontrivial_obs(line, result):
    """A history counts when the daemon produced at least one browse event or follow-up question."""
    return (result.startswith("OBS ") and "#" in result) or result == "NA ok"


def shrink_hist(line, still_bad):
    if is_na(line):
        return line            # the expectation of the model-free family is tied to the shape of the history
    import vlib
    return vlib.shrink_history(line, still_bad)


def mk_cases(rng, spec):
    """spec: list of (tag, count, generator(rng, id))."""
    out = []
    for tag, n, g in spec:
        for i in range(n):
            out.append(Case(g(rng, "%s%d" % (tag, i)), tag))
    return out
