"""C16  TXT properties survive the trip unchanged."""
from vlib import Case

ID = "C16"
CLAIMED = True
LEVEL_TEXT = ("Coq theorems over a Gallina model of the TXT codec: round trip for every accepted property list "
              "(all sizes, all byte values), refusal characterised, decoder total and reading only inside the record; "
              "the model is tied to the Rust on every run by a regenerated guard translator (Gen/Params.v) and a "
              "differential correspondence run, and the theorem statements are executed as monitors on the "
              "implementation's outputs")
TECHNIQUE = "machine-checked proof in Coq (round-trip by induction over the property list) + model/implementation correspondence"
MODEL_GROUP = "codec"
THEOREM_FILE = "Props/C16.v"
LEVELS = "K2 (TXT codec through ServiceInfo::new / generate_txt / decode_txt_unique / TxtProperties::get)"
RULE = ("generated property lists (structured, boundary lengths 254/255/256, refused forms, "
        "case-variant duplicates, boolean and empty values, binary values) and TXT byte strings "
        "(valid encodings, mutations, truncations, random); a case is non-trivial when the "
        "implementation did not SKIP it; distinct = distinct case lines")
TRUSTED = [
    "Coq 8.16.1 kernel (coqc); vm_compute used only in the non-vacuity Example",
    "axioms: none (Print Assumptions: Closed under the global context for every theorem)",
    "extraction (ExtrOcamlBasic only, no Extract Constant) + ocaml/driver.ml for correspondence and monitors",
    "tools/extract_params.py: translates the guard `prop_len > u8::MAX as usize` of ServiceInfo::new into Gen/Params.v",
    "hooks: src/verif_hooks.rs facade (field copying only), cargo feature verif-hooks",
    "modelled, not verified: Rust String keys as UTF-8 byte lists; to_lowercase modelled on ASCII only "
    "(generators avoid non-ASCII cased letters); HashMap input type of IntoTxtProperties not driven "
    "(its iteration order is unspecified; it funnels into the same Vec<TxtProperty> path)",
]
PARTIAL = ("end-to-end delivery through the daemon (TXT RDATA unchanged on the wire) rests on C02's "
           "round trip for TXT RDATA; the browser-side path is covered at component level "
           "(decode_txt_unique on the published RDATA)")

PRINTABLE = [c for c in range(0x20, 0x7F) if c != 0x3D]
NONASCII = ["é", "日", "\U0001F600", "ß"]


def hx(b):
    return b.hex() if b else "-"


def rand_key(rng, n):
    return bytes(rng.choice(PRINTABLE) for _ in range(n))


def rand_val(rng, n):
    mode = rng.random()
    if mode < 0.3:
        return bytes(rng.choice(PRINTABLE + [0x3D]) for _ in range(n))
    if mode < 0.6:
        return bytes(rng.choice([0, 0x3D, 0xFF, 0x80, 0x61]) for _ in range(n))
    return bytes(rng.randrange(256) for _ in range(n))


def prop_tok(k, v):
    return "%s:%s" % (hx(k), "~" if v is None else hx(v))


def gen_prop(rng, prev_keys):
    r = rng.random()
    if r < 0.12 and prev_keys:
        k = rng.choice(prev_keys)
        k = bytes((c ^ 0x20) if (65 <= c <= 90 or 97 <= c <= 122) and rng.random() < 0.6 else c for c in k)
    elif r < 0.16:
        k = b""
    elif r < 0.20:
        k = rand_key(rng, rng.randrange(1, 5)) + b"=" + rand_key(rng, rng.randrange(0, 3))
    elif r < 0.24:
        k = (rand_key(rng, rng.randrange(0, 3)).decode() + rng.choice(NONASCII)).encode()
    else:
        k = rand_key(rng, rng.choice([1, 1, 2, 3, 5, 8, 9, 20]))
    r = rng.random()
    if r < 0.2:
        v = None
    elif r < 0.35:
        v = b""
    else:
        v = rand_val(rng, rng.choice([1, 2, 3, 8, 30, 100]))
    return k, v


def gen_boundary_prop(rng):
    total = rng.choice([253, 254, 255, 256, 257])
    if rng.random() < 0.3:
        return rand_key(rng, total), None
    klen = rng.choice([0, 1, 9, 100, total - 1])
    klen = max(0, min(klen, total - 1))
    return rand_key(rng, klen), rand_val(rng, total - 1 - klen)


def gen_props(rng):
    n = rng.choice([0, 1, 1, 2, 3, 4, 6, 9])
    ps, keys = [], []
    for _ in range(n):
        if rng.random() < 0.08:
            k, v = gen_boundary_prop(rng)
        else:
            k, v = gen_prop(rng, keys)
        keys.append(k)
        ps.append((k, v))
    return ps


def toks(ps):
    return ",".join(prop_tok(k, v) for k, v in ps) if ps else "-"


def enc(ps):
    out = b""
    for k, v in ps:
        s = k if v is None else k + b"=" + v
        s = s[:255]
        out += bytes([len(s)]) + s
    return out or b"\x00"


def generate(rng, tier):
    n = 3000 if tier == "quick" else 60000
    cases = []
    # fixed boundary cases first
    fixed = [
        [(b"", None), (b"a", None)],
        [(b"a", None), (b"", None), (b"b", b"1")],
        [(b"", b"v")],
        [(b"k" * 255, None)], [(b"k" * 256, None)], [(b"k" * 254, b"")], [(b"k" * 255, b"")],
        [(b"k", b"v" * 253)], [(b"k", b"v" * 254)],
        [(b"Key", b"1"), (b"key", b"2"), (b"KEY", None)],
        [(b"a", b""), (b"b", None)],
        [(b"a=b", b"c")], [("é".encode(), b"x")],
    ]
    for ps in fixed:
        cases.append(Case("txt_trip " + toks(ps), "fixed"))
        cases.append(Case("txt_new " + toks(ps), "fixed"))
    for _ in range(n // 2):
        ps = gen_props(rng)
        cases.append(Case("txt_trip " + toks(ps), "structured"))
    for _ in range(n // 10):
        ps = [gen_boundary_prop(rng) for _ in range(rng.choice([1, 1, 2]))]
        cases.append(Case("txt_trip " + toks(ps), "boundary"))
    for _ in range(n // 10):
        ps = gen_props(rng)
        keys = [k for k, _ in ps] or [b"x"]
        k = rng.choice(keys)
        if rng.random() < 0.5:
            k = bytes((c ^ 0x20) if (65 <= c <= 90 or 97 <= c <= 122) else c for c in k)
        try:
            k.decode()
        except UnicodeDecodeError:
            k = b"x"
        cases.append(Case("txt_get %s %s" % (toks(ps), hx(k)), "lookup"))
    for _ in range(n // 10):
        ps = gen_props(rng)
        cases.append(Case("txt_enc " + toks([(k, v) for k, v in ps if len(k) + (len(v) + 1 if v is not None else 0) <= 255]), "encode"))
    # received TXT data: valid, mutated, truncated, random
    for _ in range(n // 5):
        b = bytearray(enc(gen_props(rng)))
        r = rng.random()
        tag = "dec-valid"
        if r < 0.3 and b:
            for _ in range(rng.choice([1, 1, 2, 4])):
                b[rng.randrange(len(b))] = rng.choice([0, 1, 0x3D, 0xFF, 0xC3, 0x80, rng.randrange(256)])
            tag = "dec-mutated"
        elif r < 0.5 and b:
            b = b[: rng.randrange(len(b) + 1)]
            tag = "dec-truncated"
        elif r < 0.65:
            b = bytearray(rng.randrange(256) for _ in range(rng.choice([0, 1, 2, 5, 40, 300])))
            tag = "dec-random"
        op = "txt_decu" if rng.random() < 0.7 else "txt_dec"
        cases.append(Case("%s %s" % (op, hx(bytes(b))), tag))
    return cases


def nontrivial(line, result):
    return result != "SKIP" and not line.endswith(" -")


def search(rng, problems, disagreeing):
    return generate(rng, "thorough")[:20000]
