"""C17  Hostname resolution: right addresses, case-insensitive, ends on time."""
import json

from vlib import Case
import vlib
import hostres_lib as L

ID = "C17"
CLAIMED = True
MODEL_GROUP = "hostres"
THEOREM_FILE = "Props/C17.v"
HARNESS_ARGS = ["sim"]
PER_SHARD = 8
LEVEL_TEXT = ("Coq theorems over all histories of resolve_hostname / stop_resolve_hostname calls and delivered "
              "responses (any names, letter cases, address sets, TTLs, goodbyes, cache-flush, timeouts, iteration "
              "times): the model of the daemon's hostname resolution satisfies chk_C17 (AddressesFound content, "
              "AddressesRemoved on expiry and after a goodbye (1 s), A+AAAA question at once and then on the schedule "
              "1,2,4,..3600 s, every due record of an open search refreshed once at 80 % in the iteration in which it is due, "
              "SearchTimeout then SearchStopped at the deadline); the model is tied to the real daemon thread in the simulated "
              "world (events with virtual timestamps and A/AAAA questions compared per iteration) and chk_C17 runs "
              "as monitor on the implementation's traces")
TECHNIQUE = ("machine-checked proof in Coq (invariants over arbitrary histories, simulation under case renaming) "
             "+ model/implementation correspondence on the simulated daemon")
LEVELS = "K6 (real ServiceDaemon thread under verif-hooks: virtual clock, injected datagrams, captured egress, real event channels)"
RULE = ("histories of 3-40 steps on one daemon with 1-3 interface addresses: resolve_hostname with mixed-case names and "
        "timeouts {none,0,1,999,1000,1001,10000,2^63,2^64-1}, stop_resolve_hostname in any case, repeated resolves of the "
        "same name, responses carrying A/AAAA for the names in other letter cases (answer / additional sections, with and "
        "without PTR/SRV/TXT company, cache-flush on/off), TTLs 0..4500, goodbyes, changing address sets, steps at "
        "arbitrary times (early, exact `wake`, late) and timer-exact run_until horizons up to 3 hours; plus a model-free "
        "family (120 quick / 1500 thorough): names with NON-ASCII capitals in the spelling that starts the search, answers "
        "in another letter case (Unicode lower-casing), stop in a third spelling or a timeout or an expiring TTL, judged "
        "directly against the property text (SearchStarted first, question at start, address reported under the answer's "
        "spelling, removal at expiry, exactly one SearchStopped last and no question afterwards, SearchTimeout+SearchStopped "
        "exactly at start+timeout); non-trivial = at least one hostname event or query observed; distinct = distinct case lines")
TRUSTED = [
    "Coq 8.16.1 kernel (coqc)",
    "axioms: none expected (Print Assumptions output recorded in this file)",
    "extraction (ExtrOcamlBasic only) + ocaml/hostres/driver.ml; the monitor is the extracted chk_C17",
    "tools/props/c17.py + hostres_lib.py: projection of the sim trace (events canonicalised, one copy of each multicast "
    "query) and translation of the delivered packets to abstract records (tools/dnsgen.py parser)",
    "hooks: verif-hooks simulated world (virtual clock, gate instead of poll, injected ingress, captured egress)",
    "modelled, not verified: decoding of packets (C01/C02), known-answer sections of the queries, non-address records "
    "(only 'PTR in the answer section' matters without a browse), ASCII-only case mapping",
]
PARTIAL = ("model domain: no browse / register calls in the same daemon; non-ASCII cased letters are outside the case "
           "theorem and the model (ASCII folding): they are covered by the model-free family only, without proof; events and queries happen in loop iterations, so 'at start+timeout' / 'at last+gap' mean the first "
           "iteration at or after that time (exactly then when the daemon is woken as it asked); wake-up requests are "
           "checked by the monitor (wake <= next due time) but wake-up arithmetic itself is C12's")


# ------------------------------------------------------------------------------------------ generation

BASES = ["host", "printer-1", "nas", "a", "my-pc", "box9"]
V4 = ["192.168.1.20", "192.168.1.21", "192.168.1.22", "10.0.0.5", "10.0.0.6", "169.254.7.7"]
V6 = ["fe80::1", "fe80::2", "2001:db8::1"]
TIMEOUTS = [None, None, None, 0, 1, 999, 1000, 1001, 10000, 10000, 3000, 2 ** 63, 2 ** 64 - 1]
TTLS = [0, 1, 1, 2, 2, 5, 5, 10, 10, 60, 120, 120, 4500]
DTS = [0, 0, 1, 10, 100, 500, 799, 800, 801, 999, 1000, 1001, 1500, 1600, 2000, 2500, 4000, 8000, 10000]


def rcase(rng, s):
    return "".join(c.upper() if rng.random() < 0.4 else c.lower() for c in s)


class Gen:
    def __init__(self, rng, hid):
        self.rng = rng
        self.hid = hid
        self.ifaces = rng.choice([[L.IF2_V4], [L.IF2_V4, L.IF2_V6], [L.IF2_V4, L.IF3_V4],
                                  [L.IF2_V4, L.IF2_V6, L.IF3_V4]])
        self.fam = L.iface_families(self.ifaces)
        self.bases = rng.sample(BASES, rng.choice([1, 1, 2]))
        # two caller spellings and two responder spellings per base name
        self.caller = {b: [rcase(rng, b) + ".local.", rng.choice([b, rcase(rng, b)]) + ".local."] for b in self.bases}
        self.resp = {b: [rng.choice([b, rcase(rng, b)]) + rng.choice([".local.", ".local.", ".LOCAL.", ".Local."]),
                         rcase(rng, b) + rng.choice([".local.", ".lOcAl."])] for b in self.bases}
        self.other = "elsewhere.local."
        self.nchan = 0
        self.t = L.T0
        self.steps = []
        self.huge = False   # a deadline timer near 2^63 / 2^64 ms is in the heap: no blind `wake` steps

    def chan(self):
        self.nchan += 1
        return "h%d" % self.nchan

    def call_resolve(self):
        rng = self.rng
        r = rng.random()
        if r < 0.04:
            host = rng.choice(["nodomain.com.", ".local.", "x" * 64 + ".local.", "Host.LOCAL."])
        else:
            host = rng.choice(self.caller[rng.choice(self.bases)])
        c = {"op": "resolve_hostname", "host": host, "ch": self.chan()}
        to = rng.choice(TIMEOUTS)
        if to is not None:
            c["timeout"] = to
            if to >= 2 ** 62:
                self.huge = True
        return c

    def call_stop(self):
        rng = self.rng
        b = rng.choice(self.bases)
        host = rng.choice(self.caller[b] + self.resp[b] + [b.upper() + ".LOCAL."])
        return {"op": "stop_resolve_hostname", "host": host}

    def addr_rec(self, sec=None):
        rng = self.rng
        b = rng.choice(self.bases)
        name = rng.choice(self.resp[b]) if rng.random() < 0.93 else self.other
        addr = rng.choice(V4 if rng.random() < 0.65 else V6)
        return L.rec_addr(sec if sec is not None else rng.choice([1, 1, 1, 3, 2]), name, addr, rng.choice(TTLS),
                          flush=rng.random() < 0.6, cls=1 if rng.random() < 0.97 else 3)

    def dgram(self, nrec):
        rng = self.rng
        recs = [self.addr_rec() for _ in range(nrec)]
        r = rng.random()
        if r < 0.12:
            # company that matters for is_for_us: a PTR answer (nobody browses), before or after
            recs.append(L.rec_ptr(1, "_http._tcp.local.", "x._http._tcp.local.", 4500))
            if rng.random() < 0.5:
                recs.reverse()
        elif r < 0.2:
            recs.append(L.rec_srv(rng.choice([1, 3]), "x._http._tcp.local.", rng.choice(self.resp[self.bases[0]]), 120))
            recs.append(L.rec_txt(1, "x._http._tcp.local.", b"\x00", 4500))
        elif r < 0.23:
            recs = [L.rec_ptr(1, "_http._tcp.local.", "x._http._tcp.local.", 4500)] + \
                   [dict(x, sec=3) for x in recs]
        idx = rng.choice(sorted(self.fam))
        v4 = True if "6" not in self.fam[idx] else rng.random() < 0.7
        if rng.random() < 0.03:
            idx = 9  # unknown interface: dropped by handle_read
        return {"if": idx, "v4": v4, "src": "192.168.1.99:5353" if v4 else "[fe80::99]:5353",
                "hex": L.build_packet(recs, compress=rng.random() < 0.8)}

    def step(self, kind=None):
        rng = self.rng
        r = rng.random()
        if r < 0.12 and self.steps and not self.huge:
            st = {"t": "wake", "d": 0}
        elif r < 0.22 and self.steps:
            self.t += rng.choice([1000, 3000, 8000, 20000, 130000])
            self.steps.append({"run_until": self.t, "max_iters": 400})
            st = {"t": self.t, "d": 0}
        else:
            self.t += rng.choice(DTS)
            st = {"t": self.t, "d": 0}
        calls, dgrams = [], []
        k = kind or rng.choice(["resp", "resp", "resp", "resolve", "stop", "none", "resp+resolve"])
        if "resolve" in k:
            calls.append(self.call_resolve())
        if k == "stop":
            calls.append(self.call_stop())
        if "resp" in k:
            n = rng.choice([1, 1, 1, 2])
            budget = 3
            for _ in range(n):
                m = min(budget, rng.choice([1, 1, 2, 3]))
                if m <= 0:
                    break
                budget -= m
                dgrams.append(self.dgram(m))
        if calls:
            st["calls"] = calls
        if dgrams:
            st["dgrams"] = dgrams
        self.steps.append(st)
        if st.get("t") == "wake":
            # the virtual clock may have moved; later explicit times must not go backwards:
            # explicit steps use max(t, now) in the harness, so nothing to do here
            pass

    def history(self, nsteps, horizon, ipcheck_off=True):
        rng = self.rng
        first = {"t": self.t, "d": 0, "calls": []}
        if ipcheck_off:
            first["calls"].append({"op": "set_ip_check_interval", "secs": 0})
        if rng.random() < 0.85:
            first["calls"].append(self.call_resolve())
        self.steps.append(first)
        for _ in range(nsteps):
            self.step()
        self.t += horizon
        self.steps.append({"run_until": self.t, "max_iters": 2500})
        return {"id": self.hid, "t0": L.T0, "daemons": [{"seed": 1, "ifaces": self.ifaces}], "link": "none",
                "steps": self.steps}


def fixed_histories():
    """Hand-written histories: the documented scenarios and the boundary cases of the theorems."""
    out = []
    one = [L.IF2_V4]
    two = [L.IF2_V4, L.IF2_V6]
    off = {"op": "set_ip_check_interval", "secs": 0}

    def h(hid, ifaces, steps):
        return {"id": hid, "t0": L.T0, "daemons": [{"seed": 1, "ifaces": ifaces}], "link": "none", "steps": steps}

    def dg(recs, idx=2, v4=True):
        return {"if": idx, "v4": v4, "src": "192.168.1.99:5353", "hex": L.build_packet(recs)}
    t = L.T0
    # schedule 1,2,4,... capped at 3600 s, no timeout, 5 hours
    out.append(h("f-schedule", one, [{"t": t, "d": 0, "calls": [off, {"op": "resolve_hostname", "host": "Sched.local.", "ch": "h1"}]},
                                     {"run_until": t + 5 * 3600 * 1000, "max_iters": 3000}]))
    # every timeout value on the timer-exact schedule
    for k, to in enumerate([0, 1, 999, 1000, 1001, 10000, 2 ** 63, 2 ** 64 - 1]):
        out.append(h("f-timeout-%d" % k, one, [
            {"t": t, "d": 0, "calls": [off, {"op": "resolve_hostname", "host": "MyHost.local.", "timeout": to, "ch": "h1"}]},
            {"run_until": t + 20000, "max_iters": 300}]))
    # late wake-up at the deadline (former finding C17-late-wake-requery-after-timeout; also corpus/C17.cases)
    out.append(h("f-late", one, [
        {"t": t, "d": 0, "calls": [off, {"op": "resolve_hostname", "host": "MyHost.local.", "timeout": 1001, "ch": "h1"}]},
        {"t": t + 1001, "d": 0}, {"run_until": t + 20000, "max_iters": 300}]))
    # case variants, two spellings, v4 + v6, refresh at 80 %, expiry, removal
    out.append(h("f-case", two, [
        {"t": t, "d": 0, "calls": [off, {"op": "resolve_hostname", "host": "MyHost.local.", "ch": "h1"}]},
        {"t": t + 100, "d": 0, "dgrams": [dg([L.rec_addr(1, "myhost.LOCAL.", "192.168.1.20", 10),
                                              L.rec_addr(1, "MYHOST.local.", "fe80::1", 10, flush=False)])]},
        {"run_until": t + 30000, "max_iters": 300}]))
    # cache replay on a later resolve in another case, then stop in a third case
    out.append(h("f-replay", one, [
        {"t": t, "d": 0, "calls": [off], "dgrams": [dg([L.rec_addr(1, "Nas.Local.", "192.168.1.21", 120)])]},
        {"t": t + 500, "d": 0, "calls": [{"op": "resolve_hostname", "host": "nAS.local.", "timeout": 10000, "ch": "h1"}]},
        {"t": t + 700, "d": 0, "calls": [{"op": "stop_resolve_hostname", "host": "NAS.LOCAL."}]},
        {"run_until": t + 200000, "max_iters": 300}]))
    # goodbye, changing address set with cache flush
    out.append(h("f-goodbye", one, [
        {"t": t, "d": 0, "calls": [off, {"op": "resolve_hostname", "host": "a.local.", "ch": "h1"}]},
        {"t": t + 10, "d": 0, "dgrams": [dg([L.rec_addr(1, "A.local.", "192.168.1.20", 120), L.rec_addr(1, "A.local.", "192.168.1.21", 120)])]},
        {"t": t + 3000, "d": 0, "dgrams": [dg([L.rec_addr(1, "A.local.", "192.168.1.20", 0)])]},
        {"t": t + 6000, "d": 0, "dgrams": [dg([L.rec_addr(1, "A.local.", "192.168.1.22", 120, flush=True)])]},
        {"run_until": t + 300000, "max_iters": 300}]))
    # replaced search: second resolve of the same name (other case, other timeout)
    out.append(h("f-replace", one, [
        {"t": t, "d": 0, "calls": [off, {"op": "resolve_hostname", "host": "Box9.local.", "timeout": 10000, "ch": "h1"}]},
        {"t": t + 1500, "d": 0, "calls": [{"op": "resolve_hostname", "host": "bOX9.local.", "timeout": 3000, "ch": "h2"}]},
        {"run_until": t + 20000, "max_iters": 300}]))
    # dual-stack host: A and AAAA learned on one interface; 1.5 s later a cache-flush A alone must
    # not touch the AAAA record (the flush pass compares the record type); later a flush AAAA alone
    out.append(h("f-dualstack-flush", two, [
        {"t": t, "d": 0, "calls": [off, {"op": "resolve_hostname", "host": "Dual.local.", "ch": "h1"}]},
        {"t": t + 10, "d": 0, "dgrams": [dg([L.rec_addr(1, "dual.local.", "192.168.1.20", 120),
                                             L.rec_addr(1, "dual.local.", "fe80::1", 120)])]},
        {"t": t + 1600, "d": 0, "dgrams": [dg([L.rec_addr(1, "dual.local.", "192.168.1.21", 120, flush=True)])]},
        {"t": t + 2700, "d": 0}, {"t": t + 4000, "d": 0},
        {"t": t + 5000, "d": 0, "dgrams": [dg([L.rec_addr(1, "dual.local.", "fe80::2", 120, flush=True)])]},
        {"t": t + 6100, "d": 0}, {"t": t + 8000, "d": 0},
        {"run_until": t + 200000, "max_iters": 300}]))
    # goodbye, then the same record announced again within the goodbye second (counts as new)
    # and once more after it (a plain refresh)
    out.append(h("f-goodbye-revive", one, [
        {"t": t, "d": 0, "calls": [off, {"op": "resolve_hostname", "host": "a.local.", "ch": "h1"}]},
        {"t": t + 10, "d": 0, "dgrams": [dg([L.rec_addr(1, "A.local.", "192.168.1.20", 120)])]},
        {"t": t + 3000, "d": 0, "dgrams": [dg([L.rec_addr(1, "A.local.", "192.168.1.20", 0)])]},
        {"t": t + 3400, "d": 0, "dgrams": [dg([L.rec_addr(1, "A.local.", "192.168.1.20", 120)])]},
        {"t": t + 5000, "d": 0, "dgrams": [dg([L.rec_addr(1, "A.local.", "192.168.1.20", 120)])]},
        {"run_until": t + 200000, "max_iters": 300}]))
    # mixed-case name with a timeout, retransmission times around the deadline, late and exact
    for k, (to, late) in enumerate([(3000, 0), (3001, 0), (3001, 1), (7000, 0), (6999, 2), (2999, 500)]):
        steps = [{"t": t, "d": 0, "calls": [off, {"op": "resolve_hostname", "host": "MiXeD-Case.local.", "timeout": to, "ch": "h1"}]}]
        if late:
            steps += [{"t": t + 1000, "d": 0}, {"t": t + to + late, "d": 0}]
        steps.append({"run_until": t + 40000, "max_iters": 300})
        out.append(h("f-mixed-timeout-%d" % k, one, steps))
    # address in the additional section of somebody else's PTR answer: not for us
    out.append(h("f-notforus", one, [
        {"t": t, "d": 0, "calls": [off, {"op": "resolve_hostname", "host": "host.local.", "ch": "h1"}]},
        {"t": t + 10, "d": 0, "dgrams": [dg([L.rec_ptr(1, "_http._tcp.local.", "x._http._tcp.local.", 4500),
                                             L.rec_addr(3, "host.local.", "192.168.1.20", 120)])]},
        {"t": t + 20, "d": 0, "dgrams": [dg([L.rec_addr(1, "host.local.", "192.168.1.21", 120)])]},
        {"t": t + 30, "d": 0, "dgrams": [dg([L.rec_ptr(1, "_http._tcp.local.", "x._http._tcp.local.", 4500),
                                             L.rec_addr(3, "host.local.", "192.168.1.22", 120)])]},
        {"run_until": t + 200000, "max_iters": 300}]))
    return out


# ------------------------------------------------------------------------------------------ model-free family
# Names with NON-ASCII capitals in the spelling that starts the search (the Coq model folds ASCII
# letters only, so these histories are judged without it, directly against the property text):
# resolve; answers for the name in another letter case (Unicode lower-casing); stop in yet another
# spelling, or the timeout.  Expected: SearchStarted first; the answer's address in an AddressesFound
# in the iteration of delivery, under the answer's spelling; AddressesRemoved when its TTL runs out
# while the search is open; stop -> exactly one SearchStopped (lower-cased name), last event, no
# A/AAAA question for the name afterwards; timeout -> SearchTimeout then SearchStopped at
# start + timeout exactly (timer-exact run), last events, no question at or after the deadline.
NAC_HOSTS = ["BÜCHER-Regal.local.", "ÉCOLE.local.", "Ünit-Ж.local.", "ÑANDÚ-7.local.", "Ærø-Åsa.local.", "ΑΘΗΝΑ-pc.local."]


def nac_variant(rng, host):
    base = host[:-len(".local.")]
    v = rng.choice([base.lower(), base.upper(), base.swapcase(), base.title(), base])
    if v.lower() != base.lower():
        v = base.lower()
    return v + ".local."


def gen_nac(rng, hid):
    t0 = L.T0
    host = rng.choice(NAC_HOSTS)
    kind = rng.choice(["stop", "stop", "timeout", "timeout", "expire"])
    timeout = rng.choice([1500, 3000, 3001, 7000]) if kind == "timeout" else None
    call = {"op": "resolve_hostname", "host": host, "ch": "h1"}
    if timeout is not None:
        call["timeout"] = timeout
    steps = [{"t": t0, "d": 0, "calls": [{"op": "set_ip_check_interval", "secs": 0}, call]}]
    answers = []
    t = t0
    for k in range(rng.choice([1, 1, 2])):
        t += rng.choice([100, 400, 1100])
        if timeout is not None and t >= t0 + timeout:
            break
        owner = nac_variant(rng, host)
        addr = rng.choice(V4[:4])
        ttl = 5 if kind == "expire" else rng.choice([120, 60])
        steps.append({"run_until": t, "max_iters": 100})
        steps.append({"t": t, "d": 0, "dgrams": [{"if": 2, "v4": True, "src": "192.168.1.99:5353",
                                                  "hex": L.build_packet([L.rec_addr(1, owner, addr, ttl, flush=False)])}]})
        answers.append({"t": t, "owner": owner, "addr": addr, "ttl": ttl})
    stop = None
    if kind == "stop":
        t += rng.choice([50, 700, 2600])
        stop = t
        steps.append({"run_until": t, "max_iters": 100})
        steps.append({"t": t, "d": 0, "calls": [{"op": "stop_resolve_hostname", "host": rng.choice([host, nac_variant(rng, host)])}]})
    steps.append({"run_until": t0 + 30000, "max_iters": 300})
    return {"id": hid, "mf17": {"kind": kind, "host": host, "timeout": timeout, "stop": stop, "answers": answers},
            "t0": t0, "daemons": [{"seed": 1, "ifaces": [L.IF2_V4]}], "link": "none", "steps": steps}


def is_nac(line):
    return '"mf17":' in line[:200]


def project_nac(line, raw):
    import ipaddress
    h = json.loads(line)
    res = json.loads(raw)
    if "error" in res:
        return "MF harness-error"
    mf = h["mf17"]
    key = mf["host"].lower()
    t0 = h["t0"]
    evs, queries = [], []
    for rec in res["trace"]:
        if "it" not in rec:
            continue
        if rec.get("stuck") or rec.get("exited"):
            return "MF daemon-died at %d" % rec.get("now", 0)
        for e in (rec.get("events") or {}).get("h1", []):
            evs.append((rec["now"], e))
        for q in L.sent_queries(rec, (2, True)):
            if any(n.decode("utf-8", "replace").lower() == key and ty in (1, 28) for n, ty in q):
                queries.append(rec["now"])
    names = [e["e"] for _, e in evs if e["e"] != "<closed>"]
    if not names or names[0] != "SearchStarted":
        return "MF no-SearchStarted-first events=%s" % names[:3]
    if not queries or queries[0] != t0:
        return "MF no-question-at-start queries=%s" % queries[:3]
    end = None   # time at which the search ends
    if mf["kind"] == "stop":
        end = mf["stop"]
    elif mf["kind"] == "timeout":
        end = t0 + mf["timeout"]
    for a in mf["answers"]:
        if end is not None and a["t"] >= end:
            continue
        want = (ipaddress.ip_address(a["addr"]).packed, 2)
        earlier = [b for b in mf["answers"] if b["t"] < a["t"] and b["owner"] == a["owner"] and b["addr"] == a["addr"]
                   and b["t"] + b["ttl"] * 1000 > a["t"]]
        if earlier:
            continue          # the same record again: a refresh, no new event is required
        found = [e for tt, e in evs if tt == a["t"] and e["e"] == "AddressesFound" and e.get("host") == a["owner"]
                 and want in sum((L.addr_token(x) for x in e.get("addrs", [])), [])]
        if not found:
            return "MF answer-not-reported owner=%s at %d" % (a["owner"], a["t"])
        exp = a["t"] + a["ttl"] * 1000
        later = [b for b in mf["answers"] if b["t"] > a["t"] and b["owner"] == a["owner"] and b["addr"] == a["addr"]]
        if (end is None or exp < end) and exp <= t0 + 30000 and not later:
            rem = [tt for tt, e in evs if e["e"] == "AddressesRemoved" and e.get("host") == a["owner"]
                   and want in sum((L.addr_token(x) for x in e.get("addrs", [])), [])]
            if rem != [exp]:
                return "MF expiry-not-reported owner=%s expected %d got %s" % (a["owner"], exp, rem)
    if mf["kind"] == "stop":
        if names.count("SearchStopped") != 1 or names[-1] != "SearchStopped":
            return "MF stop SearchStopped-missing-or-not-last events=%s" % names[-4:]
        st = [(tt, e) for tt, e in evs if e["e"] == "SearchStopped"][0]
        if st[0] != end or st[1].get("host") != key:
            return "MF stop SearchStopped wrong time/name %s" % (st,)
        late = [q for q in queries if q > end]
        if late:
            return "MF stop question-after-stop at %s" % late[:3]
    elif mf["kind"] == "timeout":
        if names[-2:] != ["SearchTimeout", "SearchStopped"] or names.count("SearchTimeout") != 1 or names.count("SearchStopped") != 1:
            return "MF timeout events-not-Timeout-Stopped-last events=%s" % names[-4:]
        tt = [x for x, e in evs if e["e"] in ("SearchTimeout", "SearchStopped")]
        if tt != [end, end]:
            return "MF timeout not-at-deadline %s expected %d" % (tt, end)
        late = [q for q in queries if q >= end]
        if late:
            return "MF timeout question-at-or-after-deadline at %s" % late[:3]
    else:
        if "SearchStopped" in names or "SearchTimeout" in names:
            return "MF open-search ended events=%s" % names[-4:]
    return "MF ok"


def generate(rng, tier):
    n = 1500 if tier == "quick" else 12000
    cases = [Case(L.dumps(h), "fixed") for h in fixed_histories()]
    for i in range(n):
        g = Gen(rng, "g%d" % i)
        r = rng.random()
        if r < 0.08:
            hist = g.history(rng.choice([3, 6]), rng.choice([3 * 3600 * 1000, 2 * 3600 * 1000]), ipcheck_off=True)
            tag = "long-horizon"
        elif r < 0.2:
            hist = g.history(rng.choice([4, 8, 12]), rng.choice([20000, 200000]), ipcheck_off=False)
            tag = "ipcheck-on"
        else:
            hist = g.history(rng.choice([3, 6, 10, 16, 24, 36]), rng.choice([3000, 20000, 200000, 5000000]))
            tag = "structured"
        cases.append(Case(L.dumps(hist), tag))
    for i in range(120 if tier == "quick" else 1500):
        cases.append(Case(L.dumps(gen_nac(rng, "mf17-%d" % i)), "model-free-non-ascii"))
    return cases


# ------------------------------------------------------------------------------------------ projection

KIND = {"SearchStarted": "St", "AddressesFound": "F", "AddressesRemoved": "Rm", "SearchTimeout": "To",
        "SearchStopped": "Sp", "<closed>": "Cl"}


def ev_tokens(chan, evs):
    """Canonical tokens of one channel's events of one iteration (runs of F / Rm sorted)."""
    items = []
    for e in evs:
        k = KIND.get(e["e"])
        if k is None:
            items.append(("?", b"", []))
            continue
        host = e.get("host", "").encode()
        addrs = []
        for a in e.get("addrs", []):
            addrs += L.addr_token(a)
        addrs = sorted(set(addrs))
        items.append((k, host, addrs))
    # sort maximal runs of F (resp. Rm)
    out = []
    i = 0
    while i < len(items):
        k = items[i][0]
        if k in ("F", "Rm"):
            j = i
            while j < len(items) and items[j][0] == k:
                j += 1
            out += sorted(items[i:j], key=lambda x: (x[1], x[2]))
            i = j
        else:
            out.append(items[i])
            i += 1
    toks = []
    for k, host, addrs in out:
        if k == "Cl":
            toks.append("%d:Cl" % chan)
        elif k in ("F", "Rm"):
            toks.append("%d:%s:%s:%s" % (chan, k, L.hx(host), "+".join("%s@%d" % (a.hex(), i) for a, i in addrs) or "~"))
        else:
            toks.append("%d:%s:%s" % (chan, k, L.hx(host)))
    return toks


def project(line, raw):
    if is_nac(line):
        return project_nac(line, raw)
    h = json.loads(line)
    res = json.loads(raw)
    if "error" in res:
        return "HARNESS-ERROR " + str(res["error"])[:100]
    pair = L.first_pair(h["daemons"][0]["ifaces"])
    outs = []
    for rec in res["trace"]:
        if "it" not in rec:
            if rec.get("truncated"):
                outs.append("TRUNCATED")
            continue
        if rec.get("stuck") or rec.get("exited"):
            outs.append("%d;DEAD" % rec["now"])
            continue
        if not L.check_copies(rec, h["daemons"][0]["ifaces"]):
            outs.append("%d;UNEVEN-COPIES" % rec["now"])
        toks = []
        evs = rec.get("events", {})
        for ch in sorted((c for c in evs if c.startswith("h")), key=lambda c: int(c[1:])):
            toks += ev_tokens(int(ch[1:]), evs[ch])
        qs = sorted(L.sent_queries(rec, pair))
        qt = ["/".join("%s.%d" % (L.hx(n), t) for n, t in q) for q in qs]
        outs.append("%d;%s;%s" % (rec["now"], ",".join(toks) or "-", ",".join(qt) or "-"))
    return "OBS " + ("|".join(outs) or "-")


def model_input(line, raw):
    """History as the model sees it: per iteration of the trace its time, the wake-up the daemon
    asked for afterwards, the accepted calls and the responses that reached handle_response."""
    if is_nac(line):
        return "mf17"
    h = json.loads(line)
    res = json.loads(raw)
    if "error" in res:
        return "BADINPUT harness error"
    its = []
    for rec, st in L.iterations(h, res):
        calls = []
        msgs = []
        if st is not None:
            results = rec.get("calls") or []
            for c, r in zip(st.get("calls") or [], results):
                if r.get("r") != "Ok":
                    continue
                if c["op"] == "resolve_hostname":
                    to = c.get("timeout")
                    calls.append("R:%s:%s:%d" % (L.hx(c["host"]), "~" if to is None else str(to), int(c["ch"][1:])))
                elif c["op"] == "stop_resolve_hostname":
                    calls.append("S:%s" % L.hx(c["host"]))
            for idx, recs in L.delivered_msgs(h, st):
                rs = ["%s.%d.%s.%d.%d.%d.%s" % ("a" if r["sec"] == 1 else "o", r["ty"], L.hx(r["name"]), r["cls"],
                                                1 if r["flush"] else 0, r["ttl"],
                                                L.hx(r["data"]) if r["ty"] in (1, 28) else "-") for r in recs]
                msgs.append("%d:%s" % (idx, "/".join(rs)))
        wake = rec.get("wake")
        its.append("%d;%s;%s;%s" % (rec["now"], "-" if wake is None else str(wake), ",".join(calls) or "-",
                                    ",".join(msgs) or "-"))
    return "hr17 " + ("|".join(its) or "-")


def nontrivial(line, result):
    if is_nac(line):
        return result.startswith("MF ")
    return result.startswith("OBS ") and any(not x.endswith(";-;-") for x in result[4:].split("|"))


def known_class(line, impl_result, mon_result):
    return None     # no registered finding (C17-late-wake-requery-after-timeout was repaired by a4675d4)


def shrink(line, still_bad):
    if is_nac(line):
        return line      # the expectation is part of the history: not shrunk
    return vlib.shrink_history(line, still_bad)


def search(rng, problems, disagreeing):
    return generate(rng, "quick")[:300]
