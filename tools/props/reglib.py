"""Shared machinery of the `registry` group checks (C07, C08, C09): history construction,
projection of simulated-daemon traces to canonical observation lines, and the model input
(history + the environment's choices observed in the trace: jitter values, hash order of the
interface table, link deliveries, requested wake-ups)."""
import ipaddress
import json
import struct

import dnsgen

# --------------------------------------------------------------------------- small helpers


def hx(b):
    return b.hex() if b else "-"


def labels_str(labels):
    return ".".join(hx(l) for l in labels) if labels else "~"


def dotted(labels):
    return b"".join(l + b"." for l in labels)


def jdump(h):
    return json.dumps(h, separators=(",", ":"))


# --------------------------------------------------------------------------- canonical observation

def rr_str(rr):
    ty = rr["type"]
    rd = rr["rdata"]
    if ty in (1, 28):
        r = "A" + hx(rd)
    elif ty in (12, 5) and rr["target"] is not None:
        r = "P" + labels_str(rr["target"])
    elif ty == 33 and rr["srv"] is not None and rr["target"] is not None:
        r = "S%d_%d_%d_%s" % (rr["srv"][0], rr["srv"][1], rr["srv"][2], labels_str(rr["target"]))
    elif ty == 16:
        r = "T" + hx(rd)
    else:
        r = "O" + hx(rd)
    return "%s/%d/%d/%d/%d/%s" % (labels_str(rr["name"]), ty, rr["class"], 1 if rr["flush"] else 0, rr["ttl"], r)


def canon_section(recs):
    """Records of one section as a sorted multiset (hash-container order inside the daemon
    decides the emission order). Mirrors canon_section of ocaml/registry/driver.ml."""
    if not recs:
        return "n"
    return "+".join(sorted(recs))


def groups_sorted(recs):
    """Emission order check for the authority section of a probe: records of one name are
    contiguous and, within a name, ordered by (class, type) as Probe::insert_record keeps them."""
    seen = []
    last = None
    for r in recs:
        f = r.split("/")
        name, key = f[0], (int(f[2]), int(f[1]))
        if last is not None and last[0] == name:
            if key < last[1]:
                return False
        else:
            if name in seen:
                return False
            seen.append(name)
        last = (name, key)
    return True


def canon_qs(qs):
    if not qs:
        return "n"
    return "+".join(sorted("%s/%d" % (labels_str(n), t) for (n, t, _c) in qs))


def send_str(p):
    m = dnsgen.parse_packet(bytes.fromhex(p["hex"]))
    if m is None:
        return "S:%s:%s:BADPACKET" % (p["if"], "4" if p["v4"] else "6")
    if p["kind"] == "mcast":
        d = "M"
    else:
        host, _, port = p["dest"].rpartition(":")
        ip = ipaddress.ip_address(host.strip("[]"))
        d = "U%s_%s" % (hx(ip.packed), port)
    ns = [rr_str(r) for r in m["ns"]]
    return "S:%s:%s:%s:%s:%s:%s:%s:%s:o%d" % (
        p["if"], "4" if p["v4"] else "6", d, "R" if m["flags"] & 0x8000 else "Q", canon_qs(m["q"]),
        canon_section([rr_str(r) for r in m["an"]]), canon_section(ns),
        canon_section([rr_str(r) for r in m["ar"]]), 1 if groups_sorted(ns) else 0)


def event_strs(events):
    out = []
    for ch, evs in (events or {}).items():
        for e in evs:
            k = e.get("e")
            if ch.startswith("m"):
                if k == "Announce":
                    det = e.get("detail", "")
                    if det.startswith("[") or ":" not in det:
                        d = "-"
                    else:
                        host, _, ifn = det.rpartition(":")
                        d = "%s_%s" % (hx(host.encode()), hx(ifn.encode()))
                    out.append("E:A:%s:%s" % (hx(e["name"].encode()), d))
                elif k == "NameChange":
                    out.append("E:N:%s:%s:%d:%s" % (hx(e["original"].encode()), hx(e["new_name"].encode()),
                                                     e["rr_type"], hx(e["intf"].encode())))
                elif k == "Respond":
                    out.append("E:R:%s" % hx(e.get("detail", "").encode()))
                elif k in ("IpAdd", "IpDel"):
                    out.append("E:I:%s:%s" % ("+" if k == "IpAdd" else "-", hx(ipaddress.ip_address(e["ip"]).packed)))
                elif k == "<closed>":
                    pass
                else:
                    out.append("E:O:%s" % hx(str(k).encode()))
            elif ch.startswith("u"):
                if k == "OK":
                    out.append("U:%s:OK" % hx(ch.encode()))
                elif k == "NotFound":
                    out.append("U:%s:NF" % hx(ch.encode()))
    return out


def iterations(raw):
    r = json.loads(raw)
    if "trace" not in r:
        raise ValueError("no trace: %s" % raw[:200])
    return [t for t in r["trace"] if "it" in t], r


def project(case_line, raw):
    its, _ = iterations(raw)
    parts = []
    for t in its:
        if t.get("stuck"):
            end = "H"
        elif t.get("exited"):
            end = "P" if t.get("panicked") else "X"
        else:
            end = "R"
        items = sorted([send_str(p) for p in t.get("sent", [])] + event_strs(t.get("events")))
        parts.append(" ".join(["@%d:%d:%s:%d" % (t["d"], t["now"], end, len(t.get("jitter", [])))] + items))
    return " | ".join(parts)


# --------------------------------------------------------------------------- model input

def history_of(case_line):
    s = case_line[4:] if case_line.startswith("sim ") else case_line
    return json.loads(s)


def escape_instance(name):
    return name.replace("\\", "\\\\").replace(".", "\\.") if False else "".join(
        "\\." if c == "." else "\\\\" if c == "\\" else c for c in name)


def svc_fields(svc):
    """Mirrors ServiceInfo::new: split_sub_domain, escape_instance_name, normalize_hostname."""
    ty = svc["ty"]
    sub = None
    if "._sub." in ty:
        sub = ty
        ty = ty.rsplit("._sub.", 1)[1]
    full = escape_instance(svc["name"]) + "." + ty
    host = svc["host"]
    if host.endswith(".local.local."):
        host = host[:-len("local.")]
    addrs = [] if svc.get("ips") == "auto" else [ipaddress.ip_address(a.strip()) for a in svc.get("ips", "").split(",") if a.strip()]
    txt = b""
    for kv in svc.get("props", []):
        k = bytes.fromhex(kv[0]) if kv[0] != "-" else b""
        s = k if kv[1] is None else k + b"=" + (bytes.fromhex(kv[1]) if kv[1] not in ("-", "") else b"")
        txt += bytes([len(s)]) + s
    if not txt:
        txt = b"\x00"
    return ty, sub, full, host, addrs, txt


def call_tok(c, result):
    op = c.get("op")
    ok = (result or {}).get("r") == "Ok"
    if not ok:
        return "o"
    if op == "monitor":
        return "m"
    if op == "shutdown":
        return "s"
    if op == "unregister":
        return "u,%s,%s" % (hx(c["name"].encode()), hx(c.get("ch", "").encode()))
    if op == "register":
        svc = c["svc"]
        ty, sub, full, host, addrs, txt = svc_fields(svc)
        return "r,%s,%s,%s,%s,%s,%d,%s,%d,%d" % (
            hx(ty.encode()), hx(sub.encode()) if sub else "~", hx(full.encode()), hx(host.encode()),
            "+".join(hx(a.packed) for a in addrs) if addrs else "n", svc.get("port", 80), hx(txt),
            0 if svc.get("probe") is False else 1, 1 if svc.get("ips") == "auto" else 0)
    if op in ("enable_interface", "disable_interface"):
        ks = []
        for k in c.get("kinds", []):
            kk = k.get("k")
            ks.append("A" if kk == "All" else "4" if kk == "IPv4" else "6" if kk == "IPv6"
                      else ("N" + hx(k.get("v", "").encode())) if kk == "Name" else "U")
        return "i,%d,%s" % (1 if op == "enable_interface" else 0, "+".join(ks) if ks else "n")
    return "o"


def in_rr(rr):
    ty = rr["type"]
    rd = rr["rdata"]
    if ty == 1 and len(rd) == 4 or ty == 28 and len(rd) == 16:
        r = "A" + hx(rd)
    elif ty in (12, 5) and rr["target"] is not None:
        r = "P" + hx(dotted(rr["target"]))
    elif ty == 33 and rr["srv"] is not None and rr["target"] is not None:
        r = "S%d_%d_%d_%s" % (rr["srv"][0], rr["srv"][1], rr["srv"][2], hx(dotted(rr["target"])))
    elif ty == 16:
        r = "T" + hx(rd)
    else:
        return None
    return "%s/%d/%d/%d/%d/%s" % (hx(dotted(rr["name"])), ty, rr["class"], 1 if rr["flush"] else 0, rr["ttl"], r)


def dgram_tok(g):
    m = dnsgen.parse_packet(bytes.fromhex(g["hex"])) if g.get("hex") not in (None, "-", "") else None
    if m is None:
        return None
    src = g.get("src", "192.168.1.99:5353")
    host, _, port = src.rpartition(":")
    ip = ipaddress.ip_address(host.strip("[]"))

    def sec(l):
        rs = [x for x in (in_rr(r) for r in l) if x is not None]
        return "+".join(rs) if rs else "n"
    qs = "+".join("%s/%d" % (hx(dotted(n)), t) for (n, t, _c) in m["q"]) if m["q"] else "n"
    is_resp = 1 if (m["flags"] & 0x8000) else 0
    return "%d,%d,%s,%s,%d,%s,%s,%s,%s" % (g.get("if", 0), 1 if g.get("v4", True) else 0, hx(ip.packed), port, is_resp,
                                           qs, sec(m["an"]), sec(m["ns"]), sec(m["ar"]))


def iface_groups(ifaces):
    """simulated OS table -> per index (name, [(ip, mask)]) in table order"""
    out = {}
    order = []
    for i in ifaces:
        idx = i["index"]
        ip = ipaddress.ip_address(i["addr"])
        mask = ipaddress.ip_address(i.get("mask") or ("255.255.255.0" if ip.version == 4 else "ffff:ffff:ffff:ffff::"))
        if idx not in out:
            out[idx] = (i["name"], [])
            order.append(idx)
        out[idx][1].append((ip, mask))
    return out, order


def replay_steps(h, its):
    """Re-plays the stepping rules of harness/src/sim.rs over the trace: yields for every trace
    iteration (record, calls of the step or None, datagrams delivered: explicit + link)."""
    nd = len(h["daemons"])
    dead = [False] * nd
    last_wake = [None] * nd
    lossless = h.get("link") == "lossless"
    pending = []          # (to, dgram dict)
    pos = 0
    out = []
    vnow = h.get("t0", 1000000)
    ifcfg = [d["ifaces"] for d in h["daemons"]]

    def consume(d, step):
        nonlocal pos, pending, vnow
        if pos >= len(its):
            return None
        rec = its[pos]
        if rec["d"] != d:
            return None
        pos += 1
        vnow = rec["now"]
        dg = list(step.get("dgrams") or []) if step is not None else []
        rest = []
        for (to, g) in pending:
            if to == d:
                dg.append(g)
            else:
                rest.append((to, g))
        pending = rest
        if step is not None and step.get("ifaces") is not None:
            ifcfg[d] = step["ifaces"]
        out.append((rec, (step.get("calls") if step is not None else None), dg))
        if rec.get("exited") or rec.get("stuck"):
            dead[d] = True
            last_wake[d] = None
        else:
            last_wake[d] = rec.get("wake")
        if lossless:
            for e in rec.get("sent", []):
                if e["kind"] != "mcast":
                    continue
                src = None
                for x in ifcfg[d]:
                    if x["index"] == e["if"] and (ipaddress.ip_address(x["addr"]).version == 4) == e["v4"]:
                        src = x["addr"]
                        break
                if src is None:
                    continue
                for j in range(nd):
                    if j == d or dead[j]:
                        continue
                    if any(x["index"] == e["if"] for x in ifcfg[j]):
                        s = ("%s:5353" % src) if e["v4"] else ("[%s]:5353" % src)
                        pending.append((j, {"if": e["if"], "v4": e["v4"], "src": s, "hex": e["hex"]}))
                        last_wake[j] = rec["now"] if last_wake[j] is None else min(last_wake[j], rec["now"])
        return rec

    for st in h.get("steps", []):
        d = st.get("d", 0)
        if "run_until" in st:
            u = st["run_until"]
            n = 0
            mx = st.get("max_iters", 5000)
            while True:
                ws = [last_wake[i] for i in range(nd) if not dead[i] and last_wake[i] is not None]
                if not ws or min(ws) > u or n >= mx:
                    break
                n += 1
                now = max(min(ws), vnow)
                vnow = now
                run_set = [i for i in range(nd) if not dead[i] and last_wake[i] is not None and last_wake[i] <= now]
                for i in run_set:
                    if dead[i]:
                        continue
                    consume(i, None)
            vnow = max(vnow, u)
        else:
            if st.get("t") == "wake" and last_wake[d] is None:
                continue
            if dead[d]:
                continue
            consume(d, st)
    return out


def infer_if_order(h, its, d):
    """The iteration order of the daemon's interface map is unspecified but fixed for a run; it
    decides which interface gets which jitter value. Evidence: the order in which one iteration
    sends on several interfaces; otherwise the first probe time per interface."""
    groups, order = iface_groups(h["daemons"][d]["ifaces"])
    if len(order) < 2:
        return order
    for t in its:
        if t["d"] != d:
            continue
        seen = []
        for p in t.get("sent", []):
            if p["if"] not in seen and p["if"] in order:
                seen.append(p["if"])
        if len(seen) >= 2:
            return seen + [i for i in order if i not in seen]
    # first probe times per interface vs the jitter values drawn by the registrations
    first_probe = {}
    for t in its:
        if t["d"] != d:
            continue
        for p in t.get("sent", []):
            m = dnsgen.parse_packet(bytes.fromhex(p["hex"]))
            if m and not (m["flags"] & 0x8000) and p["if"] not in first_probe:
                first_probe[p["if"]] = t["now"]
    if len(order) == 2 and first_probe:
        def on_subnet(a, ip, mask):
            return a.version == ip.version and (int(a) & int(mask)) == (int(ip) & int(mask))
        for rec, calls, _dg in replay_steps(h, its):
            if rec["d"] != d or not calls or not rec.get("jitter"):
                continue
            regs = [c for k, c in enumerate(calls) if c.get("op") == "register"
                    and k < len(rec.get("calls", [])) and rec["calls"][k].get("r") == "Ok"]
            if not regs:
                continue
            addrs = svc_fields(regs[0]["svc"])[4]
            def nslots(i):
                n = 0
                for ver in (4, 6):
                    if any(a.version == ver and any(on_subnet(a, ip, mask) for ip, mask in groups[i][1]) for a in addrs):
                        n += 1
                return n
            j = rec["jitter"]
            best = None
            for perm in ((order[0], order[1]), (order[1], order[0])):
                pos, err = 0, 0
                for i in perm:
                    if nslots(i) > 0 and pos < len(j) and i in first_probe:
                        err += abs((rec["now"] + j[pos]) - first_probe[i])
                    pos += nslots(i)
                if best is None or err < best[0]:
                    best = (err, list(perm))
            return best[1]
    return order


_MODEL = None


def _model_eval(line):
    """One line through a persistent model driver (used only to settle the hash order of a
    multi-interface daemon's interface map, an unobservable environment choice)."""
    global _MODEL
    import os
    import subprocess
    if _MODEL is None or _MODEL.poll() is not None:
        binp = os.path.join(os.path.dirname(os.path.dirname(os.path.dirname(os.path.abspath(__file__)))),
                            "ocaml", "registry", "model_driver")
        _MODEL = subprocess.Popen([binp], stdin=subprocess.PIPE, stdout=subprocess.PIPE)
    _MODEL.stdin.write((line + "\n").encode())
    _MODEL.stdin.flush()
    return _MODEL.stdout.readline().decode().rstrip("\n")


def _common_prefix(a, b):
    x, y = a.split(" | "), b.split(" | ")
    n = 0
    while n < len(x) and n < len(y) and x[n] == y[n]:
        n += 1
    return n


def build_input(pid, h, its, orders, jperm=None):
    toks = ["simh", pid]
    for d, dv in enumerate(h["daemons"]):
        groups, _ = iface_groups(dv["ifaces"])
        ifs = []
        for idx in orders[d]:
            name, addrs = groups[idx]
            ifs.append("%d,%s,%s" % (idx, hx(name.encode()),
                                     "+".join("%s_%s" % (hx(ip.packed), hx(mask.packed)) for ip, mask in addrs)))
        toks.append("D:%d:%s" % (d, ";".join(ifs) if ifs else "n"))
        rows = []
        for x in dv["ifaces"]:
            ip = ipaddress.ip_address(x["addr"])
            mask = ipaddress.ip_address(x.get("mask") or ("255.255.255.0" if ip.version == 4 else "ffff:ffff:ffff:ffff::"))
            rows.append("%d,%s,%s,%s" % (x["index"], hx(x["name"].encode()), hx(ip.packed), hx(mask.packed)))
        toks.append("O:%d:%s" % (d, ";".join(rows) if rows else "n"))
    for k_it, (rec, calls, dgs) in enumerate(replay_steps(h, its)):
        ctoks = []
        if calls:
            results = rec.get("calls", [])
            for k, c in enumerate(calls):
                ctoks.append(call_tok(c, results[k] if k < len(results) else None))
        gtoks = [x for x in (dgram_tok(g) for g in dgs) if x is not None]
        jit = rec.get("jitter", [])
        if jperm and k_it in jperm:
            jit = jperm[k_it]
        wake = rec.get("wake")
        toks.append("I:%d:%d:%s:%s:%s:%s" % (
            rec["d"], rec["now"], "n" if wake is None else str(wake),
            ".".join(str(x) for x in jit) if jit else "n",
            ";".join(ctoks) if ctoks else "n", ";".join(gtoks) if gtoks else "n"))
    return " ".join(toks)


def _wake_consistent(line):
    """the requested wake-ups of the trace never lie after the model's due work (for this choice of
    interface order); used only to choose between orders that reproduce the observation equally"""
    out = _model_eval(line.replace("simh", "simdue", 1))
    exits = ":s:" in line or ";s:" in line or ":s;" in line or ";s;" in line     # a shutdown call: no wake-up after it
    for part in out.split(" | "):
        f = dict(x.split("=") for x in part.split(" ")[1:] if "=" in x)
        if f.get("due", "-") == "-":
            continue
        if f.get("wake", "-") == "-":
            if exits:
                continue
            return False
        if int(f["wake"]) > int(f["due"]):
            return False
    return True


def model_input(pid, case_line, raw):
    """The model's input for one run: the history, the environment values the trace reports
    (iteration times, granted wake-ups, jitter values, OS table) and two environment choices the
    trace does not report and that are settled with the help of the model: the iteration order of a
    multi-interface daemon's interface map, and - when several jitter values are drawn in one
    iteration - which consumer got which value (hash-set / timer order of equal-time work)."""
    import itertools
    h = history_of(case_line)
    its, _ = iterations(raw)
    orders = [infer_if_order(h, its, d) for d in range(len(h["daemons"]))]
    first = build_input(pid, h, its, orders)
    multi_j = [k for k, (rec, _c, _g) in enumerate(replay_steps(h, its)) if 2 <= len(rec.get("jitter", [])) <= 4]
    if all(len(o) < 2 for o in orders) and not multi_j:
        return first
    obs = project(case_line, raw)
    try:
        cands = [orders] + [[list(c) for c in cand] for cand in itertools.product(
            *[list(itertools.permutations(o)) if 2 <= len(o) <= 3 else [tuple(o)] for o in orders])
            if [list(c) for c in cand] != orders]
        best = None
        matching = []
        for cand in cands:
            line = first if cand is orders else build_input(pid, h, its, cand)
            out = _model_eval(line)
            if out == obs:
                matching.append(line)
                if _wake_consistent(line):
                    return line
            n = _common_prefix(out, obs)
            if best is None or n > best[0]:
                best = (n, line, cand)
        # which of several jitter values of one iteration went to which consumer: first choice a
        # candidate that reproduces the observation AND whose due work agrees with the wake-ups
        recs = list(replay_steps(h, its))
        fallback = None
        for k in multi_j[:8]:
            jit = recs[k][0]["jitter"]
            for perm in itertools.permutations(jit):
                if list(perm) == list(jit):
                    continue
                line = build_input(pid, h, its, best[2], {k: list(perm)})
                if _model_eval(line) == obs:
                    if _wake_consistent(line):
                        return line
                    if fallback is None:
                        fallback = line
        if matching:
            return matching[0]
        if fallback is not None:
            return fallback
        return best[1]
    except Exception:
        return first


# --------------------------------------------------------------------------- history building

def iface(name, index, addr, mask=None):
    ip = ipaddress.ip_address(addr)
    return {"name": name, "index": index, "addr": addr,
            "mask": mask or ("255.255.255.0" if ip.version == 4 else "ffff:ffff:ffff:ffff::")}


def svc(ty, name, host, ips, port=80, props=None, probe=None):
    s = {"ty": ty, "name": name, "host": host, "ips": ips, "port": port, "props": props or []}
    if probe is not None:
        s["probe"] = probe
    return s


def response_packet(answers, flags=0x8400):
    """answers: list of (name, type, class, ttl, rdata_fn)"""
    p = dnsgen.Packet(True)
    for (name, ty, cls, ttl, fn) in answers:
        p.rr(1, name, ty, cls, ttl, fn)
    return p.finish(flags=flags).hex()


def query_packet(questions, authorities=(), answers=(), ident=0):
    p = dnsgen.Packet(True)
    for (name, ty) in questions:
        p.question(name, ty)
    for (name, ty, cls, ttl, fn) in answers:
        p.rr(1, name, ty, cls, ttl, fn)
    for (name, ty, cls, ttl, fn) in authorities:
        p.rr(2, name, ty, cls, ttl, fn)
    return p.finish(flags=0, ident=ident).hex()


def name_labels(presentation):
    """labels of a presentation-format name (escapes '\\.' and '\\\\'), as write_name parses it"""
    s = presentation.encode() if isinstance(presentation, str) else presentation
    if s.endswith(b".") and not s.endswith(b"\\."):
        s = s[:-1]
    labels, cur, i = [], bytearray(), 0
    while i < len(s):
        c = s[i]
        if c == 0x5C and i + 1 < len(s) and s[i + 1] in (0x2E, 0x5C):
            cur.append(s[i + 1])
            i += 2
            continue
        if c == 0x2E:
            if cur:
                labels.append(bytes(cur))
            cur = bytearray()
        else:
            cur.append(c)
        i += 1
    if cur:
        labels.append(bytes(cur))
    return labels


# --------------------------------------------------------------------------- scenario generators

T0 = 1000000

IFCFGS = {
    "v4": [iface("eth0", 2, "192.168.1.10")],
    "v6": [iface("eth0", 2, "fe80::10")],
    "dual": [iface("eth0", 2, "192.168.1.10"), iface("eth0", 2, "fe80::10")],
    "two4": [iface("eth0", 2, "192.168.1.10"), iface("wlan0", 3, "10.0.0.5", "255.255.0.0")],
    "twomix": [iface("eth0", 2, "192.168.1.10"), iface("eth0", 2, "fe80::10"), iface("wlan0", 3, "10.0.0.5", "255.255.0.0")],
}
# addresses a service may publish, per configuration (on-subnet ones first)
ADDRS = {
    "v4": ["192.168.1.10", "192.168.1.77", "172.16.0.1"],
    "v6": ["fe80::10", "fe80::77"],
    "dual": ["192.168.1.10", "fe80::10", "192.168.1.77", "fe80::77"],
    "two4": ["192.168.1.10", "10.0.0.5", "10.0.9.9", "192.168.1.77"],
    "twomix": ["192.168.1.10", "fe80::10", "10.0.0.5", "10.0.9.9"],
}
INSTANCES = ["inst", "Inst", "My Printer", "a.b", "x (2)", "x (9)", "dev-1", "café"]
HOSTS = ["h.local.", "Host.local.", "h-2.local.", "h-9.local.", "box.local."]
TYPES = ["_t._tcp.local.", "_s1._sub._t._tcp.local.", "_u._udp.local."]


def pick_service(rng, cfg, k, share_host=None):
    ty = rng.choice(TYPES)
    name = rng.choice(INSTANCES) + ("" if k == 0 else str(k))
    host = share_host or rng.choice(HOSTS)
    pool = ADDRS[cfg]
    r = rng.random()
    if r < 0.55:
        ips = [pool[0]] + ([pool[1]] if len(pool) > 1 and rng.random() < 0.7 else [])
    elif r < 0.85:
        ips = rng.sample(pool, rng.randrange(1, len(pool) + 1))
    else:
        ips = [pool[-1]]
    props = rng.choice([[], [["61", "62"]], [["6b", None], ["76", "0001"]]])
    probe = False if rng.random() < 0.12 else None
    return svc(ty, name, host, ",".join(ips), rng.choice([80, 8080, 1, 65535]), props, probe)


def fullname_of(s):
    return svc_fields(s)[2]


def q_dgram(cfg_ifaces, ifidx, v4, questions, authorities=(), answers=(), port=5353):
    src = ("192.168.1.99:%d" % port) if v4 else ("[fe80::99]:%d" % port)
    if ifidx == 3 and v4:
        src = "10.0.0.99:%d" % port
    return {"if": ifidx, "v4": v4, "src": src, "hex": query_packet(questions, authorities, answers)}


def r_dgram(ifidx, v4, answers):
    src = "192.168.1.98:5353" if v4 else "[fe80::98]:5353"
    if ifidx == 3 and v4:
        src = "10.0.0.98:5353"
    return {"if": ifidx, "v4": v4, "src": src, "hex": response_packet(answers)}


def some_if(rng, cfg):
    """(ifindex, v4) of an interface/family that exists in the configuration"""
    i = rng.choice(IFCFGS[cfg])
    return i["index"], ipaddress.ip_address(i["addr"]).version == 4


def queries_for(rng, s, cfg):
    ty, sub, full, host, addrs, txt = svc_fields(s)
    fl = name_labels(full)
    qs = [[(ty, 12)], [(fl, 33)], [(fl, 16)], [(fl, 255)], [(host, 1)], [(host, 28)], [(host, 255)],
          [("_services._dns-sd._udp.local.", 12)], [(ty, 12), (fl, 33), (host, 1)]]
    if sub:
        qs.append([(sub, 12)])
    q = rng.choice(qs)
    ifidx, v4 = some_if(rng, cfg)
    port = 5353 if rng.random() < 0.8 else 40000 + rng.randrange(1000)
    return q_dgram(None, ifidx, v4, q, port=port)


def gen_registration_history(rng, hid, late=False):
    """F1: registrations under various interface configurations and schedules."""
    cfg = rng.choice(list(IFCFGS))
    seed = rng.randrange(1, 100000)
    nsvc = rng.choice([1, 1, 1, 2, 2, 3])
    share = rng.choice(HOSTS) if rng.random() < 0.5 else None
    svcs = [pick_service(rng, cfg, k, share) for k in range(nsvc)]
    steps = [{"t": T0, "d": 0, "calls": [{"op": "monitor", "ch": "m"}]}]
    t = T0
    mode = "late" if late else rng.choice(["exact", "exact", "noisy", "steps"])
    for k, s in enumerate(svcs):
        gap = rng.choice([0, 0, 100, 300, 600, 900, 1500])
        if k > 0 and gap > 0:
            steps.append({"run_until": t + gap})
            t += gap
        steps.append({"t": t, "d": 0, "calls": [{"op": "register", "svc": s}]})
    end = t + rng.choice([1200, 2000, 3000])
    if mode == "exact":
        # queries at random moments on top of the timer-exact run
        marks = sorted(rng.randrange(t, end) for _ in range(rng.choice([0, 1, 2, 4])))
        for m in marks:
            steps.append({"run_until": m})
            steps.append({"t": m, "d": 0, "dgrams": [queries_for(rng, rng.choice(svcs), cfg)]})
        steps.append({"run_until": end})
    elif mode == "noisy":
        # extra (early) iterations at random times, never late: run_until catches up on every timer
        marks = sorted(rng.randrange(t, end) for _ in range(rng.choice([3, 8, 15])))
        for m in marks:
            steps.append({"run_until": m})
            st = {"t": m, "d": 0}
            if rng.random() < 0.4:
                st["dgrams"] = [queries_for(rng, rng.choice(svcs), cfg)]
            steps.append(st)
        steps.append({"run_until": end})
    elif mode == "steps":
        # the daemon is woken exactly when it asked (t: "wake"), a fixed number of times
        for _ in range(rng.choice([4, 6, 9])):
            steps.append({"t": "wake", "d": 0})
    else:
        # late: iterations at arbitrary times, possibly far after the requested wake-up
        cur = t
        for _ in range(rng.choice([3, 5, 8])):
            cur += rng.choice([10, 100, 249, 250, 251, 400, 700, 751, 1000, 1300])
            steps.append({"t": cur, "d": 0})
        steps.append({"run_until": cur + 2500})
    return {"id": hid, "t0": T0, "daemons": [{"seed": seed, "ifaces": IFCFGS[cfg]}], "link": "none", "steps": steps,
            "meta": {"family": "reg", "mode": mode, "cfg": cfg}}


# first fastrand draw of the daemon thread per harness seed (fastrand::seed(seed); u64(0..250)),
# measured once with the simulated daemon; only used to aim injections at probe phases - the
# jitter actually drawn is always taken from the trace.
FIRST_JITTER = {1: 164, 2: 50, 3: 145, 4: 30, 5: 43, 6: 178, 7: 193, 8: 74, 9: 153, 10: 222, 11: 226, 12: 102, 13: 187,
                14: 6, 15: 85, 16: 216, 17: 231, 18: 116, 19: 211, 20: 33, 21: 109, 22: 246, 23: 9, 24: 143, 25: 157,
                26: 39, 27: 125, 28: 8, 29: 92, 30: 156, 31: 240, 32: 118, 33: 140, 34: 16, 35: 119, 36: 247, 37: 19,
                38: 145, 39: 167, 40: 49, 41: 63, 42: 197, 43: 193, 44: 74, 45: 153, 46: 222, 47: 57, 48: 184, 49: 205,
                50: 83, 51: 185, 52: 1, 53: 85, 54: 212, 55: 233, 56: 115, 57: 129, 58: 13, 59: 9, 60: 143, 61: 157,
                62: 39, 63: 123, 64: 187}

PHASES = [-1, 0, 1, 100, 249, 250, 251, 400, 499, 500, 501, 700, 749, 750, 751, 900, 1749, 1750, 1751, 2200]


def at_time(steps, t, before, **kw):
    """An explicit iteration at time t; before=True: nothing timed for t has run yet
    (the datagram is seen first), False: the iteration for t has already happened."""
    steps.append({"run_until": t - 1 if before else t})
    st = {"t": t, "d": kw.pop("d", 0)}
    st.update(kw)
    steps.append(st)


def conflict_answers(rng, s, cfg, kind):
    ty, sub, full, host, addrs, txt = svc_fields(s)
    fl = name_labels(full)
    hl = dnsgen.labels_of(host)
    port = s.get("port", 80)
    other_port = port + 1 if port < 65535 else port - 1
    A = lambda ip: (hl, 1, 0x8001, 120, dnsgen.rd_bytes(ipaddress.ip_address(ip).packed))
    AAAA = lambda ip: (hl, 28, 0x8001, 120, dnsgen.rd_bytes(ipaddress.ip_address(ip).packed))
    table = {
        "srv-port": [(fl, 33, 0x8001, 120, dnsgen.rd_srv(0, 0, other_port, hl))],
        "srv-host": [(fl, 33, 0x8001, 120, dnsgen.rd_srv(0, 0, port, [b"other", b"local"]))],
        "srv-prio": [(fl, 33, 0x8001, 120, dnsgen.rd_srv(1, 0, port, hl))],
        "txt": [(fl, 16, 0x8001, 4500, dnsgen.rd_bytes(b"\x03z=1"))],
        "a": [A("192.168.1.200")],
        "aaaa": [AAAA("fe80::200")],
        "a-same": [A(str(addrs[0])) if addrs and addrs[0].version == 4 else A("192.168.1.10")],
        "srv-same": [(fl, 33, 0x8001, 120, dnsgen.rd_srv(0, 0, port, hl))],
        "srv+a": [(fl, 33, 0x8001, 120, dnsgen.rd_srv(0, 0, other_port, hl)), A("192.168.1.200")],
        "a+srv": [A("192.168.1.200"), (fl, 33, 0x8001, 120, dnsgen.rd_srv(0, 0, other_port, hl))],
        "srv-ttl0": [(fl, 33, 0x8001, 0, dnsgen.rd_srv(0, 0, other_port, hl))],
        "other-name": [([b"zzz"] + fl[1:], 33, 0x8001, 120, dnsgen.rd_srv(0, 0, other_port, hl))],
        "case": [([fl[0].swapcase()] + fl[1:], 33, 0x8001, 120, dnsgen.rd_srv(0, 0, other_port, hl))],
        "srv-noflush": [(fl, 33, 1, 120, dnsgen.rd_srv(0, 0, other_port, hl))],
        "ptr": [(dnsgen.labels_of(ty), 12, 1, 4500, dnsgen.rd_ptr(fl))],
        "srv-twice": [(fl, 33, 0x8001, 120, dnsgen.rd_srv(0, 0, other_port, hl)),
                      (fl, 33, 0x8001, 120, dnsgen.rd_srv(0, 0, other_port + 1 if other_port < 65535 else 7, hl))],
    }
    return table[kind]


CONFLICT_KINDS = ["srv-port", "srv-port", "srv-host", "srv-prio", "txt", "a", "a", "aaaa", "a-same", "srv-same", "srv+a",
                  "a+srv", "srv-ttl0", "other-name", "case", "srv-noflush", "ptr", "srv-twice"]


def tiebreak_authorities(rng, s, kind):
    ty, sub, full, host, addrs, txt = svc_fields(s)
    fl = name_labels(full)
    hl = dnsgen.labels_of(host)
    port = s.get("port", 80)
    SRV = lambda p, pr=0: (fl, 33, 0x8001, 120, dnsgen.rd_srv(pr, 0, p, hl))
    TXT = lambda b: (fl, 16, 0x8001, 4500, dnsgen.rd_bytes(b))
    A = lambda ip: (hl, 1, 0x8001, 120, dnsgen.rd_bytes(ipaddress.ip_address(ip).packed))
    lo = max(port - 1, 0)
    hi = min(port + 1, 65535)
    inst = {
        "eq": ([(fl, 255)], [TXT(txt), SRV(port)]),
        "srv-greater": ([(fl, 255)], [TXT(txt), SRV(hi)]),
        "srv-smaller": ([(fl, 255)], [TXT(txt), SRV(lo)]),
        "txt-greater": ([(fl, 255)], [TXT(txt + b"\x01z"), SRV(port)]),
        "txt-smaller": ([(fl, 255)], [TXT(b"\x00"), SRV(port)]),
        "shorter": ([(fl, 255)], [TXT(txt)]),
        "longer": ([(fl, 255)], [TXT(txt), SRV(port), SRV(hi)]),
        "srv-first": ([(fl, 255)], [SRV(port), TXT(txt)]),
        "only-srv": ([(fl, 255)], [SRV(port)]),
        "host-greater": ([(hl, 255)], [A("192.168.1.250")]),
        "host-smaller": ([(hl, 255)], [A("1.1.1.1")]),
        "host-eq": ([(hl, 255)], [A(str(addrs[0])) if addrs and addrs[0].version == 4 else A("192.168.1.10")]),
        "both": ([(fl, 255), (hl, 255)], [TXT(txt), SRV(hi), A("192.168.1.250")]),
        "other-name-auth": ([(fl, 255)], [([b"zz"] + fl[1:], 33, 0x8001, 120, dnsgen.rd_srv(0, 0, hi, hl))]),
        "no-auth": ([(fl, 255)], []),
    }
    return inst[kind]


TIEBREAK_KINDS = ["eq", "srv-greater", "srv-smaller", "txt-greater", "txt-smaller", "shorter", "longer", "srv-first",
                  "only-srv", "host-greater", "host-smaller", "host-eq", "both", "other-name-auth", "no-auth"]


def all_queries(s, ifidx, v4):
    ty, sub, full, host, addrs, txt = svc_fields(s)
    fl = name_labels(full)
    qs = [[(ty, 12)], [(fl, 33)], [(fl, 16)], [(fl, 255)], [(host, 1)], [(host, 28)], [(host, 255)],
          [("_services._dns-sd._udp.local.", 12)]]
    if sub:
        qs.append([(sub, 12)])
    return [q_dgram(None, ifidx, v4, q) for q in qs]


def renamed_queries(s, ifidx, v4):
    """queries for the names the service would carry after one rename"""
    ty, sub, full, host, addrs, txt = svc_fields(s)
    first, _, rest = full.partition(".")
    nf = name_labels(first + " (2)." + rest)
    h1, _, hrest = host.partition(".")
    nh = h1 + "-2." + hrest
    qs = [[(nf, 33)], [(nf, 16)], [(nf, 255)], [(nh, 1)], [(nh, 255)]]
    return [q_dgram(None, ifidx, v4, q) for q in qs]


def gen_conflict_history(rng, hid, kinds=None, long_label=False):
    """F2: one daemon, one registration, a conflicting response or a competing probe at a chosen
    phase of probing; afterwards queries of every type, unregister, quiet."""
    cfg = rng.choice(["v4", "v4", "dual", "two4"])
    seed = rng.choice(list(FIRST_JITTER))
    j = FIRST_JITTER[seed]
    s = pick_service(rng, cfg, 0)
    s.pop("probe", None)
    if long_label:
        s["name"] = rng.choice(["n" * k for k in (58, 59, 60, 61, 62, 63)] + ["é" * 30 + "x" * rng.choice([0, 1, 2, 3])])
    pool = ADDRS[cfg]
    s["ips"] = ",".join([pool[0]] + ([pool[1]] if len(pool) > 1 and rng.random() < 0.6 else []))
    steps = [{"t": T0, "d": 0, "calls": [{"op": "monitor", "ch": "m"}, {"op": "register", "svc": s}]}]
    T = T0 + j
    n_inj = rng.choice([1, 1, 1, 2, 3])
    phases = sorted(rng.sample(PHASES, n_inj))
    ifidx, v4 = IFCFGS[cfg][0]["index"], True
    desc = []
    for ph in phases:
        before = rng.random() < 0.5
        mode = rng.random()
        if mode < 0.6:
            kind = rng.choice(kinds or CONFLICT_KINDS)
            dg = r_dgram(ifidx, v4, conflict_answers(rng, s, cfg, kind))
        else:
            kind = rng.choice(TIEBREAK_KINDS)
            qs, auth = tiebreak_authorities(rng, s, kind)
            dg = q_dgram(None, ifidx, v4, qs, authorities=auth)
        desc.append((ph, before, kind))
        at_time(steps, T + ph, before, dgrams=[dg])
    end = T + phases[-1] + 4200
    steps.append({"run_until": end})
    qs = all_queries(s, ifidx, v4) + renamed_queries(s, ifidx, v4)
    rng.shuffle(qs)
    for k, q in enumerate(qs[:rng.choice([3, 6, 12])]):
        steps.append({"t": end + 10 * (k + 1), "d": 0, "dgrams": [q]})
    end += 200
    ty, sub, full, host, addrs, txt = svc_fields(s)
    steps.append({"t": end, "d": 0, "calls": [{"op": "unregister", "name": full, "ch": "u1"}]})
    steps.append({"run_until": end + 300})
    steps.append({"t": end + 400, "d": 0, "dgrams": qs[:2]})
    return {"id": hid, "t0": T0, "daemons": [{"seed": seed, "ifaces": IFCFGS[cfg]}], "link": "none", "steps": steps,
            "meta": {"family": "conflict", "cfg": cfg, "inj": desc}}


def gen_long_label_history(rng, hid):
    return gen_conflict_history(rng, hid, kinds=["srv-port", "srv-port", "txt", "a"], long_label=True)


def gen_two_daemon_history(rng, hid, offset=None, seeds=None, same_host=None):
    """Two (or three) daemons on one loss-free link register the same instance name with different data."""
    nd = 2 if rng.random() < 0.8 else 3
    seeds = seeds or [rng.choice(list(FIRST_JITTER)) for _ in range(nd)]
    nd = len(seeds)
    if offset is None:
        offset = rng.choice([0, 0, 1, 10, 50, 100, 200, 249, 250, 251, 300, 500, 700, 749, 750, 751, 800, 1000, 1500, 1749,
                             1750, 1751, 2000, 3000])
    same_host = rng.random() < 0.5 if same_host is None else same_host
    name = rng.choice(["inst", "Printer", "x (2)"])
    ty = rng.choice(["_t._tcp.local.", "_s1._sub._t._tcp.local."])
    daemons, steps = [], []
    for d in range(nd):
        ip = "192.168.1.%d" % (10 + d)
        daemons.append({"seed": seeds[d], "ifaces": [iface("eth0", 2, ip)]})
        steps.append({"t": T0, "d": d, "calls": [{"op": "monitor", "ch": "m"}]})
    t = T0
    for d in range(nd):
        host = "h.local." if same_host else "h%d.local." % d
        s = svc(ty, name, host, "192.168.1.%d" % (10 + d), 8000 + d, [["6b", "%02x" % (0x30 + d)]])
        if d > 0:
            steps.append({"run_until": T0 + offset * d})
        steps.append({"t": T0 + offset * d, "d": d, "calls": [{"op": "register", "svc": s}]})
    steps.append({"run_until": T0 + offset * (nd - 1) + 9000, "max_iters": 3000})
    return {"id": hid, "t0": T0, "daemons": daemons, "link": "lossless", "steps": steps,
            "meta": {"family": "two", "offset": offset, "seeds": seeds, "same_host": same_host}}


def gen_unregister_history(rng, hid):
    """F3: register / unregister / re-register / shutdown sequences."""
    cfg = rng.choice(list(IFCFGS))
    seed = rng.choice(list(FIRST_JITTER))
    j = FIRST_JITTER[seed]
    nsvc = rng.choice([1, 1, 2, 3])
    share = rng.choice(HOSTS) if rng.random() < 0.6 else None
    svcs = [pick_service(rng, cfg, k, share) for k in range(nsvc)]
    if rng.random() < 0.2:
        svcs[0] = dict(svcs[0], ips="auto")          # addresses follow the interface table
    first_calls = [{"op": "monitor", "ch": "m"}]
    if rng.random() < 0.35:
        # periodic interface check off: afterwards only the daemon's own timers wake it
        first_calls.append({"op": "set_ip_check_interval", "secs": 0})
    steps = [{"t": T0, "d": 0, "calls": first_calls + [{"op": "register", "svc": s} for s in svcs]}]
    T = T0 + j
    t = T0
    nops = rng.choice([1, 2, 3, 5])
    phases = sorted(rng.sample(PHASES + [2500, 3000, 3119, 3120, 3121], nops))
    uc = 0
    registered = {fullname_of(s).lower(): s for s in svcs}
    ifidx, v4 = some_if(rng, cfg)
    for ph in phases:
        r = rng.random()
        calls = []
        if r < 0.55:
            s = rng.choice(svcs)
            nm = fullname_of(s)
            v = rng.random()
            if v < 0.2 and nm.isascii():
                nm = nm.upper()
            elif v < 0.3:
                nm = "nosuch." + svc_fields(s)[0]
            elif v < 0.35:
                nm = nm.rstrip(".")
            uc += 1
            calls.append({"op": "unregister", "name": nm, "ch": "u%d" % uc})
            if rng.random() < 0.15:
                uc += 1
                calls.append({"op": "unregister", "name": nm, "ch": "u%d" % uc})
        elif r < 0.75:
            s = dict(rng.choice(svcs))
            if rng.random() < 0.4:
                s["port"] = 4242
            calls.append({"op": "register", "svc": s})
        elif r < 0.9:
            calls.append({"op": "shutdown", "ch": "s"})
        else:
            calls.append({"op": "status", "ch": "st"})
        st_kw = {"calls": calls}
        if rng.random() < 0.3:
            st_kw["dgrams"] = [queries_for(rng, rng.choice(svcs), cfg)]
        at_time(steps, T + ph, rng.random() < 0.5, **st_kw)
        if rng.random() < 0.5:
            steps.append({"t": T + ph, "d": 0, "dgrams": [queries_for(rng, rng.choice(svcs), cfg)]})
    end = T + phases[-1] + rng.choice([100, 119, 120, 121, 500, 2500])
    steps.append({"run_until": end})
    for k in range(rng.choice([0, 2, 4])):
        steps.append({"t": end + 5 * (k + 1), "d": 0, "dgrams": [queries_for(rng, rng.choice(svcs), cfg)]})
    if rng.random() < 0.3:
        steps.append({"t": end + 50, "d": 0, "calls": [{"op": "shutdown", "ch": "s2"}]})
    return {"id": hid, "t0": T0, "daemons": [{"seed": seed, "ifaces": IFCFGS[cfg]}], "link": "none", "steps": steps,
            "meta": {"family": "unreg", "cfg": cfg}}


# --------------------------------------------------------------------------- monitor verdicts

def parse_mon(mon):
    """'FAIL fail=31,32 known=44 modelself' -> ([31, 32], [44])"""
    fails, knowns = [], []
    for tok in mon.split(" "):
        if tok.startswith("fail="):
            fails = [int(x) for x in tok[5:].split(",") if x.isdigit()]
        elif tok.startswith("known="):
            knowns = [int(x) for x in tok[6:].split(",") if x.isdigit()]
    return fails, knowns


def known_by_codes(mon, table):
    """finding id if the monitor rejected only for codes of listed classes"""
    fails, knowns = parse_mon(mon)
    if fails or not knowns:
        return None
    ids = []
    for k in knowns:
        if k not in table:
            return None
        ids.append(table[k])
    return ids[0]


def has_sends(obs):
    return " S:" in obs


# --------------------------------------------------------------------------- round 2 generators

def gen_iface_toggle_history(rng, hid):
    """An addr_auto service while an interface (or one of its families) is disabled and enabled
    again at chosen phases of probing / after the announcements."""
    cfg = rng.choice(["v4", "dual", "dual", "v6"])
    seed = rng.choice(list(FIRST_JITTER))
    j = FIRST_JITTER[seed]
    T = T0 + j
    auto = svc(rng.choice(TYPES), rng.choice(["inst", "Auto", "x (2)"]), rng.choice(HOSTS), "auto",
               rng.choice([80, 8080]), rng.choice([[], [["61", "62"]]]), False if rng.random() < 0.15 else None)
    calls = [{"op": "monitor", "ch": "m"}, {"op": "register", "svc": auto}]
    if rng.random() < 0.3:
        calls.append({"op": "register", "svc": pick_service(rng, cfg, 1)})
    steps = [{"t": T0, "d": 0, "calls": calls}]
    kinds = [[{"k": "Name", "v": "eth0"}], [{"k": "All"}], [{"k": "IPv4"}], [{"k": "IPv6"}]]
    kind = rng.choice(kinds if cfg == "dual" else kinds[:2])
    ph_off = rng.choice([-1, 0, 1, 100, 250, 251, 400, 500, 600, 749, 750, 751, 900, 1750, 2000])
    gap = rng.choice([0, 1, 10, 100, 249, 250, 400, 750, 1000, 3000])
    at_time(steps, T + ph_off, rng.random() < 0.5, calls=[{"op": "disable_interface", "kinds": kind}])
    t_en = T + ph_off + gap
    if gap == 0:
        steps.append({"t": t_en, "d": 0, "calls": [{"op": "enable_interface", "kinds": kind}]})
    else:
        at_time(steps, t_en, rng.random() < 0.5, calls=[{"op": "enable_interface", "kinds": kind}])
    if rng.random() < 0.4:
        steps.append({"t": t_en, "d": 0, "dgrams": [queries_for(rng, auto | {"ips": ADDRS[cfg][0]}, cfg)]})
    end = t_en + rng.choice([1200, 2200, 3000])
    marks = sorted(rng.randrange(t_en, end) for _ in range(rng.choice([0, 1, 3])))
    for m in marks:
        steps.append({"run_until": m})
        steps.append({"t": m, "d": 0, "dgrams": [queries_for(rng, auto | {"ips": ADDRS[cfg][0]}, cfg)]})
    steps.append({"run_until": end})
    if rng.random() < 0.3:
        steps.append({"t": end, "d": 0, "calls": [{"op": "unregister", "name": fullname_of(auto), "ch": "u1"}]})
        steps.append({"run_until": end + 300})
    return {"id": hid, "t0": T0, "daemons": [{"seed": seed, "ifaces": IFCFGS[cfg]}], "link": "none", "steps": steps,
            "meta": {"family": "toggle", "cfg": cfg, "ph": ph_off, "gap": gap, "kind": kind}}


def gen_prefix_tiebreak_history(rng, hid, offset=None):
    """Two daemons claim the same host name; one proposes a record list that is a proper prefix
    of the other's ({A} against {A, AAAA} with the same A record): the shorter list loses by the
    length rule. Also the single-daemon form: a competing probe whose authority list extends /
    is a prefix of the daemon's own."""
    if rng.random() < 0.5:
        seeds = [rng.choice(list(FIRST_JITTER)) for _ in range(2)]
        if offset is None:
            offset = rng.choice([0, 1, 50, 100, 200, 249, 250, 251, 300, 400, 500, 600, 700])
        host = "ph.local."
        d0 = {"seed": seeds[0], "ifaces": [iface("eth0", 2, "192.168.1.10")]}
        d1 = {"seed": seeds[1], "ifaces": [iface("eth0", 2, "192.168.1.10"), iface("eth0", 2, "fe80::11")]}
        s0 = svc("_t._tcp.local.", "pa", host, "192.168.1.10", 8000, [])
        s1 = svc("_t._tcp.local.", "pb", host, "192.168.1.10,fe80::11", 8001, [])
        first, second = (0, 1) if rng.random() < 0.5 else (1, 0)
        svcs = {0: s0, 1: s1}
        steps = [{"t": T0, "d": 0, "calls": [{"op": "monitor", "ch": "m"}]}, {"t": T0, "d": 1, "calls": [{"op": "monitor", "ch": "m"}]},
                 {"t": T0, "d": first, "calls": [{"op": "register", "svc": svcs[first]}]}]
        if offset > 0:
            steps.append({"run_until": T0 + offset})
        steps.append({"t": T0 + offset, "d": second, "calls": [{"op": "register", "svc": svcs[second]}]})
        steps.append({"run_until": T0 + offset + 5000, "max_iters": 2000})
        return {"id": hid, "t0": T0, "daemons": [d0, d1], "link": "lossless", "steps": steps,
                "meta": {"family": "prefix2", "offset": offset, "seeds": seeds}}
    seed = rng.choice(list(FIRST_JITTER))
    j = FIRST_JITTER[seed]
    T = T0 + j
    cfg = rng.choice(["v4", "dual"])
    s = svc("_t._tcp.local.", "pinst", "ph.local.", ",".join(ADDRS[cfg][:2] if cfg == "dual" else ADDRS[cfg][:1]), 80, [])
    steps = [{"t": T0, "d": 0, "calls": [{"op": "monitor", "ch": "m"}, {"op": "register", "svc": s}]}]
    ph = rng.choice([1, 100, 249, 251, 400, 501, 700])
    kind = rng.choice(["longer", "shorter", "host-longer", "host-shorter", "eq"])
    ty, sub, full, host, addrs, txt = svc_fields(s)
    fl, hl = name_labels(full), dnsgen.labels_of(host)
    SRV = lambda p: (fl, 33, 0x8001, 120, dnsgen.rd_srv(0, 0, p, hl))
    TXT = (fl, 16, 0x8001, 4500, dnsgen.rd_bytes(txt))
    A = (hl, 1, 0x8001, 120, dnsgen.rd_bytes(addrs[0].packed))
    AAAA = lambda ip: (hl, 28, 0x8001, 120, dnsgen.rd_bytes(ipaddress.ip_address(ip).packed))
    if kind == "longer":
        qs, auth = [(fl, 255)], [TXT, SRV(80), SRV(81)]
    elif kind == "shorter":
        qs, auth = [(fl, 255)], [TXT]
    elif kind == "host-longer":
        own6 = [AAAA(str(a)) for a in addrs if a.version == 6]
        qs, auth = [(hl, 255)], [A] + own6 + [AAAA("fe80::ffff")]
    elif kind == "host-shorter":
        qs, auth = [(hl, 255)], [A]
    else:
        qs, auth = [(fl, 255)], [TXT, SRV(80)]
    at_time(steps, T + ph, False, dgrams=[q_dgram(None, 2, True, qs, authorities=auth)])
    steps.append({"run_until": T + ph + 3500})
    return {"id": hid, "t0": T0, "daemons": [{"seed": seed, "ifaces": IFCFGS[cfg]}], "link": "none", "steps": steps,
            "meta": {"family": "prefix1", "ph": ph, "kind": kind}}


def gen_goodbye_repeat_history(rng, hid, cfg=None, auto=None, ipcheck_off=True):
    """One service on a single-family interface table (v4-only or v6-only), the periodic
    interface check switched off, unregister after the announcements (or while probing), then a
    timer-exact run: the repeat of the goodbye has to come from the daemon's own timer at +120 ms."""
    cfg = cfg or rng.choice(["v4", "v6"])
    auto = rng.random() < 0.5 if auto is None else auto
    seed = rng.choice(list(FIRST_JITTER))
    T = T0 + FIRST_JITTER[seed]
    s = pick_service(rng, cfg, 0)
    if auto:
        s = dict(s, ips="auto")
    calls = [{"op": "monitor", "ch": "m"}]
    if ipcheck_off:
        calls.append({"op": "set_ip_check_interval", "secs": 0})
    calls.append({"op": "register", "svc": s})
    steps = [{"t": T0, "d": 0, "calls": calls}]
    ph = rng.choice([760, 900, 1750, 1751, 2000, 2500, 3000])
    steps.append({"run_until": T + ph})
    steps.append({"t": T + ph, "d": 0, "calls": [{"op": "unregister", "name": fullname_of(s), "ch": "u1"}]})
    steps.append({"run_until": T + ph + rng.choice([119, 120, 121, 300, 1000])})
    if rng.random() < 0.5:
        steps.append({"t": T + ph + 1500, "d": 0, "dgrams": [queries_for(rng, s if not auto else dict(s, ips=ADDRS[cfg][0]), cfg)]})
    return {"id": hid, "t0": T0, "daemons": [{"seed": seed, "ifaces": IFCFGS[cfg]}], "link": "none", "steps": steps,
            "meta": {"family": "gbrepeat", "cfg": cfg, "auto": auto, "ph": ph}}


# --------------------------------------------------------------------------- model-free family: non-ASCII names
# The Coq model folds ASCII letters only (Base/Bytes.v), the daemon keys its service map with the
# Unicode str::to_lowercase().  Names with non-ASCII CASED letters are therefore kept out of the
# modelled histories; this family registers such names (upper-case non-ASCII letters, and lower-case
# ones as control) and judges the trace directly, in exactly the registered spelling, on a
# timer-exact schedule: three probes 250 ms apart, two announcements one second apart carrying the
# SRV and TXT of the registered name, the first within 1 s (+ slack) of the registration; a
# question for the instance is answered; unregister under the registered spelling answers OK, sends
# a goodbye and its repeat 120 ms later, and questions afterwards stay unanswered.  The expectation
# is computed here; the model line is the constant "NA ok".

NA_UPPER = ["ÉCOLE Ñandú", "Çà et LÀ", "ÄÖÜ printer", "Ωmega Σ", "ПРИНТЕР 7", "Übung Ж", "École"]
NA_LOWER = ["école ñandú", "çà et là", "принтер 7", "straße", "日本 プリンタ"]
NA_SLACK = 50


def is_na(case_line):
    return case_line.startswith('{"id":"na-') or case_line.startswith('sim {"id":"na-')


def gen_nonascii_history(rng, hid, unregister=False):
    cfg = rng.choice(["v4", "v4", "dual", "v6"])
    seed = rng.choice(list(FIRST_JITTER))
    names = [rng.choice(NA_UPPER)]
    if rng.random() < 0.6:
        names.append(rng.choice(NA_LOWER + NA_UPPER) + " 2")
    if rng.random() < 0.3:
        names.append("plain ascii 3")
    svcs = []
    for k, n in enumerate(names):
        addrs = ADDRS[cfg][:2] if cfg == "dual" else ADDRS[cfg][:1]
        svcs.append(svc(rng.choice(["_t._tcp.local.", "_u._udp.local."]), n, "nah%d.local." % k,
                        "auto" if rng.random() < 0.3 else ",".join(addrs), 8000 + k, [["6b", "76"]]))
    steps = [{"t": T0, "d": 0, "calls": [{"op": "monitor", "ch": "m"}, {"op": "set_ip_check_interval", "secs": 0}]
              + [{"op": "register", "svc": x} for x in svcs]},
             {"run_until": T0 + 3000}]
    t = T0 + 3000
    ifidx, v4 = some_if(rng, cfg)
    for x in svcs:
        t += 10
        fl = name_labels(fullname_of(x))
        steps.append({"t": t, "d": 0, "dgrams": [q_dgram(None, ifidx, v4, [(fl, rng.choice([33, 255, 16]))])]})
    if unregister:
        t += 100
        steps.append({"t": t, "d": 0, "calls": [{"op": "unregister", "name": fullname_of(svcs[0]), "ch": "u1"}]})
        steps.append({"run_until": t + 500})
        t += 510
        fl = name_labels(fullname_of(svcs[0]))
        steps.append({"t": t, "d": 0, "dgrams": [q_dgram(None, ifidx, v4, [(fl, 33)])]})
        steps.append({"t": t + 10, "d": 0, "calls": [{"op": "unregister", "name": fullname_of(svcs[0]), "ch": "u2"}]})
    return {"id": hid, "t0": T0, "daemons": [{"seed": seed, "ifaces": IFCFGS[cfg]}], "link": "none", "steps": steps}


def _na_packets(t):
    out = []
    for p in t.get("sent", []):
        m = dnsgen.parse_packet(bytes.fromhex(p["hex"]))
        if m is not None:
            out.append((p, m))
    return out


def project_na(case_line, raw):
    """'NA ok' or 'NA bad <reasons>' (liveness of registration / unregistration judged on the trace)."""
    h = history_of(case_line)
    try:
        its, _ = iterations(raw)
    except Exception:
        return "NA harness-error"
    bad = []
    regs = [c["svc"] for c in h["steps"][0]["calls"] if c.get("op") == "register"]
    steps = list(replay_steps(h, its))
    unreg_t = {}
    for rec, calls, dgs in steps:
        for k, c in enumerate(calls or []):
            if c.get("op") == "unregister":
                ch = c.get("ch")
                unreg_t.setdefault(c["name"], []).append((rec["now"], ch))
    for x in regs:
        full = fullname_of(x).encode()
        if not full.endswith(b"."):
            full += b"."
        tag = hx(full)[:24]
        first_unreg = min([t for (t, _) in unreg_t.get(fullname_of(x), [])], default=None)
        probes, anns, gbs, answers_after = [], [], [], []
        for t in its:
            hit_p = hit_a = hit_g = False
            for p, m in _na_packets(t):
                if not (m["flags"] & 0x8000):
                    if any(dnsgen.dotted(q[0]) == full for q in m["q"]) and any(dnsgen.dotted(r["name"]) == full for r in m["ns"]):
                        hit_p = True
                else:
                    recs = [r for r in m["an"] if dnsgen.dotted(r["name"]) == full]
                    tys = set(r["type"] for r in recs)
                    if recs and all(r["ttl"] == 0 for r in recs):
                        hit_g = True
                    elif {33, 16} <= tys and not m["q"] and not t.get("dgrams_in"):
                        hit_a = True
            if hit_p:
                probes.append(t["now"])
            if hit_a:
                anns.append(t["now"])
            if hit_g:
                gbs.append(t["now"])
        # announcements = unsolicited responses: exclude iterations that answered an injected question
        q_iters = set(rec["now"] for rec, calls, dgs in steps if dgs)
        anns = [a for a in anns if a not in q_iters]
        if len(probes) < 3 or probes[1] - probes[0] != 250 or probes[2] - probes[1] != 250 or probes[0] > T0 + 250:
            bad.append("%s:probes=%s" % (tag, ",".join(str(p - T0) for p in probes[:5])))
        elif len(anns) < 2 or anns[0] != probes[2] + 250 or anns[1] != anns[0] + 1000 or anns[0] > T0 + 1000 + NA_SLACK:
            bad.append("%s:announcements=%s" % (tag, ",".join(str(a - T0) for a in anns[:4])))
        # questions for the instance
        for rec, calls, dgs in steps:
            for g in dgs or []:
                q = dnsgen.parse_packet(bytes.fromhex(g["hex"]))
                if not q or (q["flags"] & 0x8000) or not q["q"] or dnsgen.dotted(q["q"][0][0]) != full:
                    continue
                answered = any((m["flags"] & 0x8000) and any(dnsgen.dotted(r["name"]) == full and r["ttl"] > 0
                                                                for r in m["an"]) for p, m in _na_packets(rec))
                if first_unreg is None or rec["now"] < first_unreg:
                    if not answered:
                        bad.append("%s:unanswered@%d" % (tag, rec["now"] - T0))
                elif answered:
                    bad.append("%s:answered-after-unregister@%d" % (tag, rec["now"] - T0))
        if first_unreg is not None:
            if not gbs or gbs[0] != first_unreg:
                bad.append("%s:no-goodbye" % tag)
            elif len(gbs) != 2 or gbs[1] != gbs[0] + 120:
                bad.append("%s:goodbyes=%s" % (tag, ",".join(str(g - T0) for g in gbs[:4])))
    # unregister replies: first OK, second NotFound
    replies = {}
    for t in its:
        ev = t.get("events") or {}
        for ch, evs in (ev.items() if isinstance(ev, dict) else []):
            for e in evs:
                if e.get("e") in ("OK", "NotFound"):
                    replies.setdefault(ch, []).append(e.get("e"))
    for name, lst in unreg_t.items():
        for k, (t, ch) in enumerate(sorted(lst)):
            want = "OK" if k == 0 else "NotFound"
            got = replies.get(ch)
            if got != [want]:
                bad.append("unregister-%s=%s(want %s)" % (ch, got, want))
    return "NA ok" if not bad else "NA bad " + " ".join(bad)


# --------------------------------------------------------------------------- round 8 families

def shared_queries(s, ifidx, v4):
    """type, subtype and service-type enumeration questions for s"""
    ty, sub, full, host, addrs, txt = svc_fields(s)
    qs = [[(ty, 12)], [("_services._dns-sd._udp.local.", 12)]]
    if sub:
        qs.append([(sub, 12)])
    return [q_dgram(None, ifidx, v4, q) for q in qs]


def gen_shared_record_query_history(rng, hid):
    """Questions for the shared records (type PTR, subtype PTR, service-type enumeration) while the
    service is NOT yet announced on the interface: during the probing window of a registration, on an
    interface that appears later (addr_auto), and while the name is probed again after a rename."""
    mode = rng.choice(["window", "window", "later-if", "rename"])
    seed = rng.choice(list(FIRST_JITTER))
    T = T0 + FIRST_JITTER[seed]
    ty = rng.choice(["_t._tcp.local.", "_s1._sub._t._tcp.local.", "_u._udp.local."])
    s = svc(ty, rng.choice(["inst", "Inst", "dev-1"]), rng.choice(HOSTS), "192.168.1.10", 80, [])
    calls = [{"op": "monitor", "ch": "m"}]
    cfg = "v4"
    other = None
    if rng.random() < 0.35:
        # a second service of the SAME type: announced at once (no probing) or probing as well
        other = svc(ty, "other", "oh.local.", "192.168.1.10", 81, [], False if rng.random() < 0.5 else None)
    if mode == "later-if":
        s = dict(s, ips="auto")
    steps = [{"t": T0, "d": 0, "calls": calls + [{"op": "register", "svc": s}] + ([{"op": "register", "svc": other}] if other else [])}]
    if mode == "window":
        for ph in sorted(rng.sample([-100, -1, 0, 1, 100, 249, 250, 300, 499, 500, 600, 749], rng.choice([2, 3, 5]))):
            at_time(steps, T + ph, rng.random() < 0.5, dgrams=[rng.choice(shared_queries(s, 2, True))])
        steps.append({"run_until": T + 2500})
    elif mode == "later-if":
        eth = [{"k": "Name", "v": "eth0"}]
        steps.append({"run_until": T + 2000})
        steps.append({"t": T + 2000, "d": 0, "calls": [{"op": "disable_interface", "kinds": eth}]})
        steps.append({"t": T + 2300, "d": 0, "calls": [{"op": "enable_interface", "kinds": eth}]})
        for off in sorted(rng.sample([1, 50, 200, 260, 400, 600, 740], 3)):
            steps.append({"run_until": T + 2300 + off})
            steps.append({"t": T + 2300 + off, "d": 0, "dgrams": [rng.choice(shared_queries(dict(s, ips="192.168.1.10"), 2, True))]})
        steps.append({"run_until": T + 5500})
    else:
        # a conflicting SRV while probing: the instance is renamed and probed again
        ph = rng.choice([100, 300, 600])
        at_time(steps, T + ph, False, dgrams=[r_dgram(2, True, conflict_answers(rng, s, cfg, "srv-port"))])
        for off in sorted(rng.sample([10, 100, 260, 400, 600, 740, 900], 3)):
            steps.append({"run_until": T + ph + off})
            steps.append({"t": T + ph + off, "d": 0, "dgrams": [rng.choice(shared_queries(s, 2, True))]})
        steps.append({"run_until": T + ph + 3000})
    for q in shared_queries(s if mode != "later-if" else dict(s, ips="192.168.1.10"), 2, True):
        steps.append({"t": steps[-1].get("run_until", steps[-1].get("t")) + 10, "d": 0, "dgrams": [q]})
    return {"id": hid, "t0": T0, "daemons": [{"seed": seed, "ifaces": IFCFGS[cfg]}], "link": "none", "steps": steps,
            "meta": {"family": "sharedq", "mode": mode}}


def gen_shared_host_history(rng, hid):
    """Two or three services share a host name; a conflicting address record renames the host while
    they probe; later one service is unregistered; then questions for the rest (old and new host name),
    an update (re-registration with another port), and the unregistration of the rest."""
    cfg = rng.choice(["v4", "v4", "dual"])
    seed = rng.choice(list(FIRST_JITTER))
    T = T0 + FIRST_JITTER[seed]
    host = rng.choice(["sh.local.", "h.local.", "box.local."])
    n = rng.choice([2, 2, 3])
    addrs = ADDRS[cfg][:2] if cfg == "dual" else ADDRS[cfg][:1]
    svcs = [svc(rng.choice(["_t._tcp.local.", "_u._udp.local."]), "sh%d" % k, host, ",".join(addrs), 8000 + k, []) for k in range(n)]
    steps = [{"t": T0, "d": 0, "calls": [{"op": "monitor", "ch": "m"}] + [{"op": "register", "svc": x} for x in svcs]}]
    ph = rng.choice([50, 200, 300, 500, 700])
    kind = rng.choice(["a", "a", "aaaa"] if cfg == "dual" else ["a"])
    at_time(steps, T + ph, rng.random() < 0.5, dgrams=[r_dgram(2, True, conflict_answers(rng, svcs[0], cfg, kind))])
    t = T + ph + 3000
    steps.append({"run_until": t})
    gone = rng.randrange(n)
    steps.append({"t": t, "d": 0, "calls": [{"op": "unregister", "name": fullname_of(svcs[gone]), "ch": "u0"}]})
    steps.append({"run_until": t + 300})
    t += 300
    rest = [x for k, x in enumerate(svcs) if k != gone]
    qs = []
    for x in rest:
        qs += all_queries(x, 2, True) + renamed_queries(x, 2, True)
    rng.shuffle(qs)
    for q in qs[:rng.choice([4, 8, 12])]:
        t += 10
        steps.append({"t": t, "d": 0, "dgrams": [q]})
    if rng.random() < 0.6:
        t += 50
        steps.append({"t": t, "d": 0, "calls": [{"op": "register", "svc": dict(rest[0], port=4242)}]})
        steps.append({"run_until": t + 2500})
        t += 2500
    for k, x in enumerate(rest):
        t += 20
        steps.append({"t": t, "d": 0, "calls": [{"op": "unregister", "name": fullname_of(x), "ch": "u%d" % (k + 1)}]})
    steps.append({"run_until": t + 400})
    return {"id": hid, "t0": T0, "daemons": [{"seed": seed, "ifaces": IFCFGS[cfg]}], "link": "none", "steps": steps,
            "meta": {"family": "sharedhost", "cfg": cfg, "ph": ph, "kind": kind, "gone": gone}}
