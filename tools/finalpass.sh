#!/bin/sh
# Final validation pass ON /repo ITSELF (as the brief describes): for every seeded change
#   git -C /repo apply <patch>; ./check <property it breaks>; git -C /repo checkout -- .
# Writes seeded/FINALPASS.md. Run only when nothing else uses /repo or /verif; afterwards
# re-run the checks on the unchanged tree so that evidence/*.json describe the unchanged tree.
cd /verif
OUT=seeded/FINALPASS.md
# usage: finalpass.sh            (all changes, rewrites the file)
#        finalpass.sh -a REGEX   (only names matching REGEX, appended as a new section)
if [ "${1:-}" = "-a" ]; then
  SEL="$2"
  echo "" >> $OUT
  echo "## Later additions, /repo HEAD $(git -C /repo log -1 --format=%h)" >> $OUT
  echo "" >> $OUT
else
  SEL="."
  echo "# Final pass on /repo itself (tools/finalpass.sh), /repo HEAD $(git -C /repo log -1 --format=%h)" > $OUT
  echo "" >> $OUT
fi
echo "| change | check | exit | verdict |" >> $OUT
echo "|---|---|---|---|" >> $OUT
for d in seeded/*/; do
  n=$(basename $d)
  echo "$n" | grep -Eq "$SEL" || continue
  [ -f $d/meta.json ] || continue
  id=$(python3 -c "import json;print(json.load(open('$d/meta.json'))['breaks'])")
  if ! git -C /repo apply --check /verif/$d/patch.diff 2>/dev/null; then echo "| $n | $id | - | patch does not apply |" >> $OUT; continue; fi
  git -C /repo apply /verif/$d/patch.diff
  out=$(VERIF_NO_SHRINK=1 ./check $id 2>&1); rc=$?
  git -C /repo checkout -- . ; git -C /repo clean -fdq -e target
  v=$(echo "$out" | grep "^VIOLATION" | head -1 | sed 's/replay=[^ ]*//' | cut -c1-80)
  echo "| $n | $id | $rc | ${v:-no violation reported} |" >> $OUT
done
echo "" >> $OUT
echo "/repo status after the pass: $(git -C /repo status --short | wc -l) modified files" >> $OUT
