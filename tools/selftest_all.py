#!/usr/bin/env python3
"""Runs the checks against every seeded change (scratch copies, /repo and /verif untouched)
and writes seeded/<name>/result.json and seeded/SUMMARY.md.

usage: selftest_all.py [-j N] [name ...]
For a change that breaks CXX the checks run are CXX plus RELATED[CXX] (checks that observe the
same mechanism)."""
import json
import os
import re
import subprocess
import sys
from concurrent.futures import ThreadPoolExecutor

V = os.path.dirname(os.path.dirname(os.path.abspath(__file__)))
S = os.path.join(V, "seeded")
RELATED = {
    "C01": ["C15"], "C02": [], "C03": [], "C04": ["C12"], "C05": ["C17"], "C06": ["C18", "C08"], "C07": ["C18", "C12", "C06"],
    "C08": ["C06", "C07"], "C09": ["C12", "C18"], "C10": ["C06"], "C11": ["C12", "C17"], "C12": ["C11"],
    "C13": ["C19", "C17"], "C14": [], "C15": ["C08"], "C16": [], "C17": ["C13", "C11"], "C18": ["C06"], "C19": ["C13", "C17", "C04"],
    "C20": ["C13", "C17"],
}


def run_one(name):
    d = os.path.join(S, name)
    meta = json.load(open(os.path.join(d, "meta.json")))
    if meta.get("applies_on_current_tree") is False:
        return name, {"skipped": "patch does not apply on the current tree"}
    ids = [meta["breaks"]] + [x for x in RELATED.get(meta["breaks"], []) if x != meta["breaks"]]
    p = subprocess.run([os.path.join(V, "tools", "selftest_mutant.sh"), os.path.join(d, "patch.diff")] + ids,
                       stdout=subprocess.PIPE, stderr=subprocess.STDOUT)
    out = p.stdout.decode("utf-8", "replace")
    res = {}
    cur = None
    for line in out.split("\n"):
        m = re.match(r"== (C\d+) exit=(\d+)", line)
        if m:
            cur = m.group(1)
            res[cur] = {"exit": int(m.group(2)), "violation": None, "summary": None}
        elif cur and line.startswith("check "):
            res[cur]["summary"] = line[:220]
        elif cur and line.startswith("VIOLATION"):
            res[cur]["violation"] = "no-failing-input-found" if "no-failing-input-found" in line else "replay"
        elif cur and line.strip().startswith('"case"') and "case" not in res[cur]:
            res[cur]["case"] = line.strip()[:300]
        elif cur and line.strip().startswith('"monitor"') and "monitor" not in res[cur]:
            res[cur]["monitor"] = line.strip()[:300]
    if not res:
        res = {"error": out[-800:]}
    json.dump({"breaks": meta["breaks"], "checks": res}, open(os.path.join(d, "result.json"), "w"), indent=1)
    return name, res


def main():
    args = sys.argv[1:]
    j = 3
    if args and args[0] == "-j":
        j = int(args[1])
        args = args[2:]
    names = args or sorted(n for n in os.listdir(S) if os.path.exists(os.path.join(S, n, "meta.json")))
    with ThreadPoolExecutor(max_workers=j) as ex:
        for name, res in ex.map(run_one, names):
            caught = [c for c, r in res.items() if isinstance(r, dict) and r.get("violation")]
            print(name, "->", ", ".join("%s:%s" % (c, res[c]["violation"]) for c in caught) or "NOT CAUGHT", flush=True)
    summary()


def summary():
    rows = []
    for n in sorted(os.listdir(S)):
        rp = os.path.join(S, n, "result.json")
        mp = os.path.join(S, n, "meta.json")
        if not (os.path.exists(rp) and os.path.exists(mp)):
            continue
        r = json.load(open(rp))
        m = json.load(open(mp))
        checks = r.get("checks", {})
        cells = []
        for c, v in checks.items():
            if not isinstance(v, dict):
                continue
            if v.get("violation") == "replay":
                cells.append("%s: VIOLATION with replay" % c)
            elif v.get("violation"):
                cells.append("%s: VIOLATION no-failing-input-found" % c)
            else:
                cells.append("%s: exit 0" % c)
        rows.append("| %s | %s | %s | %s |" % (n, m["breaks"], "; ".join(cells) or str(checks)[:80],
                                                 (m.get("first_missed") or "")[:160]))
    open(os.path.join(S, "SUMMARY.md"), "w").write(
        "# Seeded changes and which checks catch them (tools/selftest_all.py)\n\n"
        "| change | breaks | checks run on it (quick tier) | note |\n|---|---|---|---|\n" + "\n".join(rows) + "\n")


if __name__ == "__main__":
    if len(sys.argv) > 1 and sys.argv[1] == "--summary":
        summary()
    else:
        main()
