#!/usr/bin/env python3
"""Writes `caught_by` (and `checked_on`) into seeded/<name>/meta.json from result.json."""
import json, os, subprocess
V = os.path.dirname(os.path.dirname(os.path.abspath(__file__)))
S = os.path.join(V, "seeded")
for n in sorted(os.listdir(S)):
    mp, rp = os.path.join(S, n, "meta.json"), os.path.join(S, n, "result.json")
    if not (os.path.exists(mp) and os.path.exists(rp)):
        continue
    m = json.load(open(mp))
    r = json.load(open(rp)).get("checks", {})
    cb = {}
    for c, v in r.items():
        if isinstance(v, dict):
            cb[c] = {"replay": "VIOLATION with replay", "no-failing-input-found": "VIOLATION no-failing-input-found"}.get(v.get("violation"), "exit 0")
    m["caught_by"] = cb
    m.pop("check_result", None)
    json.dump(m, open(mp, "w"), indent=1)
print("ok")
