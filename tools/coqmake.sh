#!/bin/sh
# Serialised build of Coq targets:  tools/coqmake.sh [target.vo ...]   (default: all)
# - regenerates coq/_CoqProject from the .v files present (Base Gen Model Proofs Props)
# - regenerates the Makefile when the file set changed
# - runs make under an exclusive lock, so concurrent callers do not disturb each other
set -e
VERIF="$(cd "$(dirname "$0")/.." && pwd)"
cd "$VERIF/coq"
exec 9>"$VERIF/coq/.build.lock"
flock 9
{
  echo "-Q . Mdns"
  echo "-arg -w -arg -notation-overridden,-deprecated-hint-without-locality,-deprecated-instance-without-locality"
  ls Base/*.v Gen/*.v Model/*.v Proofs/*.v Props/*.v 2>/dev/null | LC_ALL=C sort
} > _CoqProject.new
if [ ! -f _CoqProject ] || ! cmp -s _CoqProject _CoqProject.new || [ ! -f Makefile ]; then
  mv _CoqProject.new _CoqProject
  coq_makefile -f _CoqProject -o Makefile >/dev/null 2>&1
else
  rm -f _CoqProject.new
fi
if [ $# -eq 0 ]; then
  timeout 3000 make -j16
else
  timeout 3000 make -j16 "$@"
fi
