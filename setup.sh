#!/bin/sh
# MANIFEST.setup_cmd: builds the framework from files on disk only (offline).
set -e
cd "$(dirname "$0")"
export CARGO_NET_OFFLINE=true
# 1. implementation-side harness against /repo with hooks on
(cd harness && cargo build --release --offline -q)
# 2. parameters regenerated from the Rust sources, then the whole Coq development (full .vo)
python3 tools/extract_params.py /repo coq/Gen/Params.v
# (keep going: a check builds its own targets again and reports what does not build)
sh tools/coqmake.sh -k >/dev/null 2>&1 || echo "setup: some Coq targets did not build (the affected checks will report it)"
# 3. extraction + OCaml driver
for g in ocaml/*/Extract.v; do sh ocaml/build.sh "$(basename "$(dirname "$g")")" || echo "setup: model driver $g did not build"; done
echo "setup ok"
