#!/bin/sh
# MANIFEST.setup_cmd: builds the framework from files on disk only (offline).
set -e
cd "$(dirname "$0")"
export CARGO_NET_OFFLINE=true
# 1. implementation-side harness against /repo with hooks on
(cd harness && cargo build --release --offline -q)
# 2. parameters regenerated from the Rust sources, then the whole Coq development (full .vo)
python3 tools/extract_params.py /repo coq/Gen/Params.v
sh tools/coqmake.sh >/dev/null
# 3. extraction + OCaml driver
sh ocaml/build.sh
echo "setup ok"
