(* Record lifetime arithmetic and record relations (src/dns_parser.rs: DnsRecord,
   DnsRecordExt, get_expiration_time), modelled as the code is.

   Numbers are N.  Rust widths are explicit where the code can overflow / truncate:
   times are u64 (an addition that reaches 2^64 is a Panic: the harness is built with
   overflow checks, like a debug build), TTLs are u32 (`as u32` truncates, `-=` panics on
   underflow).  Every one-line body and constant comes from Gen/ParamsLife.v, regenerated from
   the Rust source on every run. *)
From Coq Require Import List NArith Bool.
From Mdns Require Import Res Bytes Rec ParamsLife.
Import ListNotations.
Open Scope N_scope.

Definition U32 : N := 4294967296.
Definition U64 : N := 18446744073709551616.

(* timing part of a DnsRecord *)
Record trec : Type := mkT { t_ttl : N; t_created : N; t_expires : N; t_refresh : N }.

Definition set_refresh (r : trec) (x : N) : trec := mkT (t_ttl r) (t_created r) (t_expires r) x.
Definition set_expires (r : trec) (x : N) : trec := mkT (t_ttl r) (t_created r) x (t_refresh r).
Definition set_ttl (r : trec) (x : N) : trec := mkT x (t_created r) (t_expires r) (t_refresh r).

(* u64 addition chain with overflow check.  All operands are non-negative, so an intermediate
   overflow implies that the final value is >= 2^64 as well: one check at the end is exact. *)
Definition chk64 (v : N) : res N := if v <? U64 then Ok v else Panic.

(* get_expiration_time *)
Definition exp_time (created ttl percent : N) : res N := chk64 (expiration_time created ttl percent).

(* DnsRecord::new at clock value `now` *)
Definition new_rec (now ttl : N) : res trec :=
  let? r := exp_time now ttl new_refresh_percent in
  let? e := exp_time now ttl new_expires_percent in
  Ok (mkT ttl now e r).

(* TTL stored for a record read from the wire (read_rr_records) *)
Definition stored_ttl (is_response : bool) (wire_ttl : N) : N :=
  if ttl_zero_guard wire_ttl && is_response then ttl_zero_becomes else wire_ttl.

Definition is_expired (r : trec) (now : N) : bool := is_expired_g now (t_expires r).

Definition expires_soon (r : trec) (now : N) : res bool :=
  let? _ := chk64 (expires_soon_lhs now) in Ok (expires_soon_g now (t_expires r)).

Definition refresh_due (r : trec) (now : N) : bool := refresh_due_g now (t_refresh r).

Definition halflife_passed (r : trec) (now : N) : res bool :=
  let? h := exp_time (t_created r) (t_ttl r) halflife_percent in Ok (halflife_passed_g now h).

Definition refresh_no_more (r : trec) : res trec :=
  let? e := exp_time (t_created r) (t_ttl r) no_more_percent in Ok (set_refresh r e).

(* refresh_maybe: the marks are compared with `==` against the stored refresh time, one rung
   per call *)
Definition refresh_maybe (r : trec) (now : N) : res (trec * bool) :=
  if is_expired r now || negb (refresh_due r now) then Ok (r, refresh_maybe_guard_returns)
  else
    let c := t_created r in let t := t_ttl r in
    let? m1 := exp_time c t ladder_from1 in
    if t_refresh r =? m1 then let? n := exp_time c t ladder_to1 in Ok (set_refresh r n, true)
    else
    let? m2 := exp_time c t ladder_from2 in
    if t_refresh r =? m2 then let? n := exp_time c t ladder_to2 in Ok (set_refresh r n, true)
    else
    let? m3 := exp_time c t ladder_from3 in
    if t_refresh r =? m3 then let? n := exp_time c t ladder_to3 in Ok (set_refresh r n, true)
    else
    let? r' := refresh_no_more r in Ok (r', true).

(* DnsRecordExt::updated_refresh_time *)
Definition updated_refresh_time (r : trec) (now : N) : res (trec * option N) :=
  let? (r', b) := refresh_maybe r now in
  Ok (r', if b then Some (t_refresh r') else None).

(* the step of DnsCache::refresh_due_hostname_resolutions on one record *)
Definition refresh_once (r : trec) (now : N) : res (trec * bool) :=
  if is_expired r now || negb (refresh_due r now) then Ok (r, false)
  else let? r' := refresh_no_more r in Ok (r', true).

(* get_remaining_ttl: u64 subtraction (Panic on underflow), `/ 1000`, `as u32` *)
Definition remaining_ttl (r : trec) (now : N) : res N :=
  let? e := exp_time (t_created r) (t_ttl r) remaining_percent in
  if e <? now then Panic else Ok (remaining_secs (e - now) mod U32).

(* update_ttl: `self.ttl -= (elapsed / 1000) as u32` *)
Definition update_ttl (r : trec) (now : N) : res trec :=
  if update_ttl_guard now (t_created r) then
    let dec := update_ttl_dec (update_ttl_elapsed now (t_created r)) mod U32 in
    if t_ttl r <? dec then Panic else Ok (set_ttl r (t_ttl r - dec))
  else Ok r.

Definition set_expire_sooner (r : trec) (x : N) : trec :=
  if expire_sooner_guard x (t_expires r) then set_expires r x else r.

(* DnsRecord::reset_ttl(other) with other = (ttl, created) *)
Definition reset_ttl (r : trec) (ottl ocreated : N) : res trec :=
  let? e := exp_time ocreated ottl reset_expires_percent in
  let? f := (if reset_refresh_guard ottl then exp_time ocreated ottl reset_refresh_percent else Ok e) in
  Ok (mkT ottl ocreated e f).

(* ------------------------------------------------------------------ operation sequences
   (the facade entry `life_ops` applies such a sequence to one real record) *)
Inductive lop : Type :=
| OIsExpired (now : N) | OExpiresSoon (now : N) | ORefreshDue (now : N) | OHalflife (now : N)
| ORefreshMaybe (now : N) | OUpdatedRefresh (now : N) | ONoMore | ORemaining (now : N)
| OUpdateTtl (now : N) | OSetExpire (x : N) | OSetExpireSooner (x : N)
| OResetTtl (ttl created : N) | OSnapshot | ORefreshOnce (now : N).

Inductive lout : Type :=
| LBool (b : bool) | LOpt (o : option N) | LUnit | LNum (n : N) | LSnap (r : trec).

Definition apply_op (r : trec) (o : lop) : res (trec * lout) :=
  match o with
  | OIsExpired now => Ok (r, LBool (is_expired r now))
  | OExpiresSoon now => let? b := expires_soon r now in Ok (r, LBool b)
  | ORefreshDue now => Ok (r, LBool (refresh_due r now))
  | OHalflife now => let? b := halflife_passed r now in Ok (r, LBool b)
  | ORefreshMaybe now => let? (r', b) := refresh_maybe r now in Ok (r', LBool b)
  | OUpdatedRefresh now => let? (r', o) := updated_refresh_time r now in Ok (r', LOpt o)
  | ONoMore => let? r' := refresh_no_more r in Ok (r', LUnit)
  | ORemaining now => let? n := remaining_ttl r now in Ok (r, LNum n)
  | OUpdateTtl now => let? r' := update_ttl r now in Ok (r', LUnit)
  | OSetExpire x => Ok (set_expires r x, LUnit)
  | OSetExpireSooner x => Ok (set_expire_sooner r x, LUnit)
  | OResetTtl ttl created =>
      (* the facade builds the other record with DnsRecord::new first *)
      let? _ := new_rec created ttl in
      let? r' := reset_ttl r ttl created in Ok (r', LUnit)
  | OSnapshot => Ok (r, LSnap r)
  | ORefreshOnce now => let? (r', b) := refresh_once r now in Ok (r', LBool b)
  end.

Fixpoint run_ops (r : trec) (ops : list lop) : res (trec * list lout) :=
  match ops with
  | [] => Ok (r, [])
  | o :: rest =>
      let? (r1, x) := apply_op r o in
      let? (r2, xs) := run_ops r1 rest in
      Ok (r2, x :: xs)
  end.

Definition life_case (created ttl : N) (ops : list lop) : res (list lout) :=
  let? r := new_rec created ttl in
  let? (_, outs) := run_ops r ops in Ok outs.

(* ------------------------------------------------------------------ identity and relations *)

(* what `matches` compares besides the RDATA: DnsEntry (name, type, class without the flush
   bit, flush bit), and for addresses the interface the record belongs to *)
Record ident : Type := mkId {
  i_name : bytes; i_type : N; i_class : N; i_flush : bool; i_data : rdata; i_if : N }.

Definition entry_eq (a b : ident) : bool :=
  beq (i_name a) (i_name b) && (i_type a =? i_type b) && (i_class a =? i_class b)
  && Bool.eqb (i_flush a) (i_flush b).

Definition is_addr_data (d : rdata) : bool := match d with RAddr _ => true | _ => false end.

(* DnsRecordExt::rrdata_match: same Rust record kind and same RDATA fields *)
Definition rrdata_match (a b : ident) : bool := beq_rdata (i_data a) (i_data b).

(* DnsRecordExt::matches *)
Definition matches (a b : ident) : bool :=
  rrdata_match a b && entry_eq a b
  && (if is_addr_data (i_data a) then i_if a =? i_if b else true).

(* DnsRecordExt::suppressed_by_answer: the cache-flush bit is not part of the identity here -
   the other record is compared with OUR cache-flush bit in place of its own *)
Definition with_flush (a : ident) (f : bool) : ident :=
  mkId (i_name a) (i_type a) (i_class a) f (i_data a) (i_if a).

Definition suppressed_by_answer (mine : ident) (mine_ttl : N) (theirs : ident) (theirs_ttl : N) : bool :=
  (if Bool.eqb (i_flush theirs) (i_flush mine) then matches mine theirs
   else matches mine (with_flush theirs (suppress_flush_override (i_flush mine))))
  && suppress_ttl_cond mine_ttl theirs_ttl.

(* DnsRecordExt::suppressed_by: some answer of the incoming message suppresses *)
Definition suppressed_by (mine : ident) (mine_ttl : N) (kas : list (ident * N)) : bool :=
  existsb (fun k => suppressed_by_answer mine mine_ttl (fst k) (snd k)) kas.

(* DnsEntry::new as called by the record constructors: the constructors of SRV, TXT and NSEC
   fix the type; the class word is split into class and cache-flush bit *)
Definition ctor_type (ty : N) (d : rdata) : N :=
  match d with RSrv _ _ _ _ => TY_SRV | RTxt _ => TY_TXT | RNsec _ _ => TY_NSEC | _ => ty end.

Definition mk_ident (name : bytes) (ty class16 : N) (d : rdata) (ifx : N) : ident :=
  mkId name (ctor_type ty d) (N.land class16 32767) (negb (N.land class16 32768 =? 0)) d ifx.

(* ------------------------------------------------------------------ responder side (C10)
   DnsOutgoing::add_answer / add_answer_with_additionals, reduced to what known answers do *)

Record orec : Type := mkO { o_id : ident; o_ttl : N }.

Record outmsg : Type := mkOut { out_answers : list orec; out_additionals : list orec; out_suppressed : N }.

Definition add_answer (kas : list (ident * N)) (out : outmsg) (a : orec) : outmsg * bool :=
  if suppressed_by (o_id a) (o_ttl a) kas
  then (mkOut (out_answers out) (out_additionals out) (out_suppressed out + 1), false)
  else (mkOut (out_answers out ++ [a]) (out_additionals out) (out_suppressed out), true).

(* has_addrs: the service has an address on the interface the query came in on *)
Definition add_answer_with_additionals (kas : list (ident * N)) (out : outmsg) (has_addrs : bool)
    (ptr : orec) (additionals : list orec) : outmsg :=
  if negb has_addrs then out
  else
    let (out1, added) := add_answer kas out ptr in
    if added then mkOut (out_answers out1) (out_additionals out1 ++ additionals) (out_suppressed out1)
    else out1.
