(* The statement of C02 as an executable checker over (message added, packets emitted).
   It is the conclusion of the round-trip theorem (Props/C02.v) and, extracted, the monitor
   applied to the packets the implementation emits. *)
From Coq Require Import List NArith Bool.
From Mdns Require Import Res Bytes Utf8 Rec Wire WireOut Rfc1035.
Import ListNotations.
Open Scope N_scope.

(* ---- what was added, in the reference parser's vocabulary ---- *)
Definition view_q (q : bytes * N) : ref_q := mkRefQ (name_labels (fst q)) (snd q) 1.

Definition view_rdata (rd : rdata) : ref_rdata :=
  match rd with
  | RAddr o => FRaw o
  | RPtr a => FName (name_labels a)
  | RSrv p w po h => FSrv p w po (name_labels h)
  | RTxt t => FRaw t
  | RHinfo c o => FRaw (c ++ o)
  | RNsec n b => FRaw (n ++ b)
  end.

Definition view_rr (r : orec) (ttl : N) : ref_rr :=
  mkRefRR (name_labels (or_name r)) (r_type (or_rr r)) (class_bits (or_rr r)) ttl
          (view_rdata (r_data (or_rr r))).

Definition written_ttl (r : orec) (now : N) : N :=
  if now =? 0 then r_ttl (or_rr r)
  else ((or_created r + r_ttl (or_rr r) * 1000 - now) / 1000) mod 4294967296.

Definition view_answer (a : orec * N) : ref_rr := view_rr (fst a) (written_ttl (fst a) (snd a)).
Definition view_other (r : orec) : ref_rr := view_rr r (r_ttl (or_rr r)).

(* ---- decidable equality on the reference vocabulary ---- *)
Definition ref_rdata_beq (a b : ref_rdata) : bool :=
  match a, b with
  | FRaw x, FRaw y => beq x y
  | FName x, FName y => labels_beq x y
  | FSrv p w o x, FSrv p' w' o' y => (p =? p') && (w =? w') && (o =? o') && labels_beq x y
  | _, _ => false
  end.

Definition ref_rr_beq (a b : ref_rr) : bool :=
  labels_beq (fr_name a) (fr_name b) && (fr_type a =? fr_type b) && (fr_class a =? fr_class b)
  && (fr_ttl a =? fr_ttl b) && ref_rdata_beq (fr_data a) (fr_data b).

Definition ref_q_beq (a b : ref_q) : bool :=
  labels_beq (fq_name a) (fq_name b) && (fq_type a =? fq_type b) && (fq_class a =? fq_class b).

Fixpoint list_beq {A} (eqb : A -> A -> bool) (a b : list A) : bool :=
  match a, b with
  | [], [] => true
  | x :: a', y :: b' => eqb x y && list_beq eqb a' b'
  | _, _ => false
  end.

(* a is a sub-sequence of b (order kept, elements present whole or absent) *)
Fixpoint is_subseq {A} (eqb : A -> A -> bool) (a b : list A) : bool :=
  match a, b with
  | [], _ => true
  | _ :: _, [] => false
  | x :: a', y :: b' => if eqb x y then is_subseq eqb a' b' else is_subseq eqb a b'
  end.

(* ---- well-formed input (the quantifier of C02) ---- *)
Definition label_ok (l : bytes) : bool := (1 <=? blen l) && (blen l <=? 63) && wf_bytesb l.
Definition wire_len (ls : labels) : N := fold_right (fun l acc => 1 + blen l + acc) 1 ls.
Definition wf_name (name : bytes) : bool :=
  let ls := name_labels name in forallb label_ok ls && (wire_len ls <=? 255).

Definition wf_rdata (ty : N) (rd : rdata) : bool :=
  match rd with
  | RAddr o => wf_bytesb o && (((ty =? 1) && (blen o =? 4)) || ((ty =? 28) && (blen o =? 16)))
  | RPtr a => ((ty =? 12) || (ty =? 5)) && wf_name a
  | RSrv p w po h => (ty =? 33) && (p <? 65536) && (w <? 65536) && (po <? 65536) && wf_name h
  | RTxt t => (ty =? 16) && wf_bytesb t
  | RHinfo _ _ => false
  | RNsec _ _ => false
  end.

Definition wf_orec (r : orec) : bool :=
  wf_name (or_name r) && (r_type (or_rr r) <? 65536) && (r_class (or_rr r) <? 32768)
  && (r_ttl (or_rr r) <? 4294967296) && wf_rdata (r_type (or_rr r)) (r_data (or_rr r)).

Definition wf_answer (a : orec * N) : bool :=
  wf_orec (fst a) &&
  ((snd a =? 0) || (snd a <=? or_created (fst a) + r_ttl (or_rr (fst a)) * 1000)).

Definition wf_out (m : outgoing) : bool :=
  (og_flags m <? 65536) && (og_id m <? 65536)
  && forallb (fun q => wf_name (fst q) && (snd q <? 65536)) (og_questions m)
  && forallb wf_answer (og_answers m)
  && forallb wf_orec (og_authorities m) && forallb wf_orec (og_additionals m).

(* the question section alone stays within one packet *)
Definition fits (m : outgoing) : bool :=
  match write_questions empty_pkt (og_questions m) with
  | Ok p => p_size p <=? MAX_MSG
  | _ => false
  end.

(* ---- the checker ---- *)
Definition parse_all (pkts : list bytes) : option (list ref_msg) :=
  fold_right (fun p acc =>
    match ref_parse p, acc with Some x, Some l => Some (x :: l) | _, _ => None end)
    (Some []) pkts.

Fixpoint flags_ok (flags : N) (ms : list ref_msg) : bool :=
  match ms with
  | [] => false                                   (* at least one packet *)
  | [m] => fm_flags m =? flags
  | m :: t => (fm_flags m =? N.lor flags 512) && flags_ok flags t
  end.

Definition chk_C02 (m : outgoing) (pkts : list bytes) : bool :=
  forallb (fun p => blen p <=? MAX_MSG) pkts &&
  match parse_all pkts with
  | None => false
  | Some ms =>
    let id := if og_multicast m then 0 else og_id m in
    forallb (fun x => fm_id x =? id) ms
    && flags_ok (og_flags m) ms
    && list_beq ref_q_beq (concat (map fm_questions ms)) (map view_q (og_questions m))
    && match ms with x :: _ => list_beq ref_q_beq (fm_questions x) (map view_q (og_questions m)) | [] => false end
    && is_subseq ref_rr_beq (concat (map fm_answers ms)) (map view_answer (og_answers m))
    && is_subseq ref_rr_beq (concat (map fm_authorities ms)) (map view_other (og_authorities m))
    && is_subseq ref_rr_beq (concat (map fm_additionals ms)) (map view_other (og_additionals m))
  end.

(* ---- what the crate's own decoder must read from a packet the reference parser accepts:
        the same content in the crate's presentation (dotted names, class split from the
        cache-flush bit, TTL 0 of a response read as 1) ---- *)
Definition dotted (ls : rlabels) : bytes := flat_map (fun l => l ++ [46]) ls.

Definition present_rdata (ty : N) (rd : ref_rdata) : option rdata :=
  match rd with
  | FName ls => Some (RPtr (dotted ls))
  | FSrv p w po ls => Some (RSrv p w po (dotted ls))
  | FRaw b => if ty =? 16 then Some (RTxt b)
              else if (ty =? 1) || (ty =? 28) then Some (RAddr b) else None
  end.

Definition present_rr (is_response : bool) (r : ref_rr) : option rr :=
  match present_rdata (fr_type r) (fr_data r) with
  | Some rd => Some (mkRR (dotted (fr_name r)) (fr_type r) (class_of (fr_class r)) (flush_of (fr_class r))
                         (if (fr_ttl r =? 0) && is_response then 1 else fr_ttl r) rd)
  | None => None
  end.

Definition present_q (q : ref_q) : question :=
  mkQ (dotted (fq_name q)) (fq_type q) (class_of (fq_class q)) (flush_of (fq_class q)).

Definition rr_beq (a b : rr) : bool :=
  beq (r_name a) (r_name b) && (r_type a =? r_type b) && (r_class a =? r_class b)
  && Bool.eqb (r_flush a) (r_flush b) && (r_ttl a =? r_ttl b) && beq_rdata (r_data a) (r_data b).

Definition q_beq (a b : question) : bool :=
  beq (q_name a) (q_name b) && (q_type a =? q_type b) && (q_class a =? q_class b)
  && Bool.eqb (q_flush a) (q_flush b).

Definition opt_rrs (is_response : bool) (l : list ref_rr) : option (list rr) :=
  fold_right (fun r acc => match present_rr is_response r, acc with
                           | Some x, Some t => Some (x :: t) | _, _ => None end) (Some []) l.

(* decoder output `dm` agrees with reference parse `rm` *)
Definition decoder_agrees (rm : ref_msg) (dm : msg) : bool :=
  let resp := N.land (fm_flags rm) 32768 =? 32768 in
  (m_id dm =? fm_id rm) && (m_flags dm =? fm_flags rm)
  && list_beq q_beq (m_questions dm) (map present_q (fm_questions rm))
  && match opt_rrs resp (fm_answers rm), opt_rrs resp (fm_authorities rm), opt_rrs resp (fm_additionals rm) with
     | Some a, Some n, Some r =>
       list_beq rr_beq (m_answers dm) a && list_beq rr_beq (m_authorities dm) n
       && list_beq rr_beq (m_additionals dm) r
     | _, _, _ => false
     end.
