(* C14: the command channel between the client handles and the daemon thread, and shutdown.

   Modelled (src/service_daemon.rs):
   - ServiceDaemon::new_with_port: `bounded(100)` command channel;
   - the public calls: argument validation (Model/SafetyNames.v), then `send_cmd`
     (`try_send`: Ok | Error::Again when the queue is full | Error::DaemonShutdown when the
     receiver is gone); `status()` short-circuits to a ready `Shutdown` reply when the channel
     is disconnected;
   - Zeroconf::run, command draining of one loop iteration: `while let Ok(command) =
     receiver.try_recv()`; Exit -> cleanup(), status := Shutdown, the commands still queued
     behind Exit are dropped (their reply senders with them), `return Some(command)`; the
     receiver is dropped with run's frame, the Zeroconf value (every event sender it holds)
     is dropped by daemon_thread, and only then `Shutdown` is sent on Exit's reply channel;
   - exec_command for the commands of the public API, reduced to what C14 observes: who holds
     which event channel (service_queriers, hostname_resolvers, monitors), which services are
     registered (my_services, keyed by the lower-cased full name), the replies;
   - Zeroconf::cleanup: a goodbye for every registered service whose status is Announced
     (bd59ecc; the status is an environment input, see `mark`), SearchStopped on every browse
     and hostname-resolution channel, retransmissions cleared (so no sender survives).

   Granularity: whole loop iterations.  A step of a history = the calls issued (from any
   clone of the handle: clones share one sender, so they are indistinguishable) while the
   daemon is between two iterations, followed by one iteration.  Real-thread races inside an
   iteration (a try_send between the drain loop and the drop of the receiver) are outside this
   model.  Hostname-resolution timeouts and retransmissions do not influence what is observed
   here (repeated SearchStarted events are not part of the observation) and are not modelled.

   Listener channels: browse() and resolve_hostname() hand the daemon a `bounded(10)` sender
   and the daemon uses the blocking `send` on it (call_service_listener, exec_command_browse,
   query_cache_for_service, cleanup, ...).  At this granularity a client reads its channels
   between iterations only, so a listener that is sent more than 10 events within ONE
   iteration blocks the daemon thread for good (`stuck`): the rest of the iteration, and every
   later iteration, never happens.  To be able to fill a listener the model has one kind of
   network input: "n new instances of type ty were announced" (n PTR answers -> n ServiceFound
   events on the listener of ty, remembered in the cache and replayed to a later browse of
   the same type; stop_browse forgets them).

   Channels are identified by the global index of the call that created them.
   Definitions only. *)
From Coq Require Import List NArith Bool Arith.
From Mdns Require Import Res Bytes Utf8 WireOut ParamsSafety SafetyNames.
Import ListNotations.
Open Scope N_scope.

(* ---- client side --------------------------------------------------------------------------- *)

Inductive call : Type :=
| CBrowse (ty : bytes) (cache_only : bool)
| CStopBrowse (ty : bytes)
| CResolve (host : bytes)
| CStopResolve (host : bytes)
| CRegister (ty name host : bytes)      (* ServiceInfo::new(ty, name, host, ..) then register *)
| CUnregister (fullname : bytes)
| CMonitor
| CStatus
| CMetrics
| CShutdown
| CSetLenMax (n : N)
| COther.     (* set_ip_check_interval, verify, accept_unsolicited, ...: a command without reply *)

Inductive cmd : Type :=
| QBrowse (ty : bytes) (cache_only : bool) (ch : N)
| QStopBrowse (ty : bytes)
| QResolve (host : bytes) (ch : N)
| QStopResolve (host : bytes)
| QRegister (ty_domain fullname : bytes)
| QUnregister (fullname : bytes) (ch : N)
| QMonitor (ch : N)
| QStatus (ch : N)
| QMetrics (ch : N)
| QExit (ch : N)
| QSetLenMax (n : N)
| QOther.

Inductive cres : Type := ROk | RMsg | RAgain | RShutdown | RPanic.

Definition cres_eqb (a b : cres) : bool :=
  match a, b with
  | ROk, ROk | RMsg, RMsg | RAgain, RAgain | RShutdown, RShutdown | RPanic, RPanic => true
  | _, _ => false
  end.

(* (The histories of this model use ASCII names: the lower-cased form that
   check_label_lengths also tests is `Bytes.lower`; Unicode case mapping is C15's matter.)
   argument validation + construction of the command: what the public function does before
   send_cmd.  Ok c = the command to send; Err = Error::Msg returned; Panic = caller panics *)
Definition prepare (c : call) (ch : N) : res cmd :=
  match c with
  | CBrowse ty co => let? _ := api_browse lower ty in Ok (QBrowse ty co ch)
  | CStopBrowse ty => Ok (QStopBrowse ty)
  | CResolve h => let? _ := api_resolve_hostname lower h in Ok (QResolve h ch)
  | CStopResolve h => Ok (QStopResolve h)
  | CRegister ty name host =>
    let? (tyd, sub, full, server) := si_names ty name host in
    let? _ := api_register_names lower full server sub in
    Ok (QRegister tyd full)
  | CUnregister n => Ok (QUnregister (lower n) ch)
  | CMonitor => Ok (QMonitor ch)
  | CStatus => Ok (QStatus ch)
  | CMetrics => Ok (QMetrics ch)
  | CShutdown => Ok (QExit ch)
  | CSetLenMax n => if len_max_refused n then Err else Ok (QSetLenMax n)
  | COther => Ok QOther
  end.

(* events a client can read from a channel (the C14-relevant ones) *)
Inductive ev : Type :=
| EStarted | EStopped | EFound | ERunning | EShutdown | EUnregOK | EUnregNotFound | EMetrics | EClosed.

Definition ev_eqb (a b : ev) : bool :=
  match a, b with
  | EStarted, EStarted | EStopped, EStopped | EFound, EFound | ERunning, ERunning | EShutdown, EShutdown
  | EUnregOK, EUnregOK | EUnregNotFound, EUnregNotFound | EMetrics, EMetrics
  | EClosed, EClosed => true
  | _, _ => false
  end.

Definition out := (N * ev)%type.          (* (channel, event) *)

(* the channel state shared by all handles: the FIFO queue and whether the receiver is gone *)
Record chan : Type := mkChan { q_items : list cmd; q_gone : bool }.

(* Sender::try_send *)
Definition try_send (q : chan) (c : cmd) : chan * cres :=
  if q_gone q then (q, RShutdown)
  else if cmd_queue_bound <=? N.of_nat (length (q_items q)) then (q, RAgain)
  else (mkChan (q_items q ++ [c]) false, ROk).

(* one public call: new channel state, result, and what the call itself puts on a channel
   (only status() on a disconnected channel does) *)
Definition do_call (q : chan) (c : call) (ch : N) : chan * cres * list out :=
  match prepare c ch with
  | Err => (q, RMsg, [])
  | Panic | OutOfFuel => (q, RPanic, [])
  | Ok k =>
    match c with
    | CStatus =>
      if q_gone q then (q, ROk, [(ch, EShutdown); (ch, EClosed)])     (* is_disconnected() *)
      else let (q', r) := try_send q k in (q', r, [])
    | _ => let (q', r) := try_send q k in (q', r, [])
    end
  end.

(* the calls of one step, numbered from `base` *)
Fixpoint do_calls (q : chan) (cs : list call) (base : N) : chan * list cres * list out :=
  match cs with
  | [] => (q, [], [])
  | c :: t =>
    let '(q1, r, o) := do_call q c base in
    let '(q2, rs, os) := do_calls q1 t (base + 1) in
    (q2, r :: rs, o ++ os)
  end.

(* ---- daemon side ---------------------------------------------------------------------------- *)

Record dstate : Type := mkD {
  d_queriers : list (bytes * N);       (* service_queriers: type -> listener *)
  d_resolvers : list (bytes * N);      (* hostname_resolvers: lower-cased host -> listener *)
  d_services : list bytes;             (* my_services keys: lower-cased full names *)
  d_monitors : list N;
  d_len_max : N;
  d_found : list (bytes * N);          (* cache: type -> number of instances known *)
  d_announced : list bytes;            (* services whose status is Announced (lower-cased names) *)
  d_oracle : list bytes }.             (* environment input of the current iteration, see `mark` *)

Definition d_init : dstate := mkD [] [] [] [] service_name_len_max_default [] [] [].

Fixpoint alookup (k : bytes) (l : list (bytes * N)) : option N :=
  match l with
  | [] => None
  | (k', v) :: t => if beq k k' then Some v else alookup k t
  end.
Definition aremove (k : bytes) (l : list (bytes * N)) : list (bytes * N) :=
  filter (fun e => negb (beq k (fst e))) l.
Definition ainsert (k : bytes) (v : N) (l : list (bytes * N)) : list (bytes * N) :=
  aremove k l ++ [(k, v)].
Definition sremove (k : bytes) (l : list bytes) : list bytes := filter (fun e => negb (beq k e)) l.
Definition sinsert (k : bytes) (l : list bytes) : list bytes := sremove k l ++ [k].
Definition found_count (ty : bytes) (d : dstate) : N :=
  match alookup ty (d_found d) with Some n => n | None => 0 end.

Definition closed_old (old : option N) : list out :=
  match old with Some o => [(o, EClosed)] | None => [] end.

Definition set_queriers (d : dstate) (v : list (bytes * N)) : dstate :=
  mkD v (d_resolvers d) (d_services d) (d_monitors d) (d_len_max d) (d_found d) (d_announced d) (d_oracle d).
Definition set_resolvers (d : dstate) (v : list (bytes * N)) : dstate :=
  mkD (d_queriers d) v (d_services d) (d_monitors d) (d_len_max d) (d_found d) (d_announced d) (d_oracle d).
Definition set_services (d : dstate) (v : list bytes) : dstate :=
  mkD (d_queriers d) (d_resolvers d) v (d_monitors d) (d_len_max d) (d_found d) (d_announced d) (d_oracle d).
Definition set_monitors (d : dstate) (v : list N) : dstate :=
  mkD (d_queriers d) (d_resolvers d) (d_services d) v (d_len_max d) (d_found d) (d_announced d) (d_oracle d).
Definition set_len_max (d : dstate) (v : N) : dstate :=
  mkD (d_queriers d) (d_resolvers d) (d_services d) (d_monitors d) v (d_found d) (d_announced d) (d_oracle d).
Definition set_found (d : dstate) (v : list (bytes * N)) : dstate :=
  mkD (d_queriers d) (d_resolvers d) (d_services d) (d_monitors d) (d_len_max d) v (d_announced d) (d_oracle d).
Definition set_announced (d : dstate) (v : list bytes) : dstate :=
  mkD (d_queriers d) (d_resolvers d) (d_services d) (d_monitors d) (d_len_max d) (d_found d) v (d_oracle d).

(* Whether a registered service has reached the status Announced (probing finished, or its
   names were already held) is decided by the registry and the timers, which this model does
   not contain.  It is an environment input: `ann` = the services announced during the
   iteration that is about to run (observed on the wire).  A service registered earlier is
   marked now; a service registered by a command of this iteration is marked when that
   command executes (exec, QRegister). *)
Definition mark (d : dstate) (ann : list bytes) : dstate :=
  mkD (d_queriers d) (d_resolvers d) (d_services d) (d_monitors d) (d_len_max d) (d_found d)
      (filter (fun n => mem n (d_services d)) ann ++ d_announced d) ann.

(* exec_command (Exit is handled by the drain loop) *)
Definition exec (d : dstate) (c : cmd) : dstate * list out :=
  match c with
  | QBrowse ty co ch =>
    (* SearchStarted; the listener replaces an earlier one for the same type (whose channel
       loses its last sender); ServiceFound for every cached instance; cache-only:
       SearchStopped at once, the listener stays *)
    (set_queriers d (ainsert ty ch (d_queriers d)),
     [(ch, EStarted)] ++ closed_old (alookup ty (d_queriers d))
       ++ repeat (ch, EFound) (N.to_nat (found_count ty d))
       ++ (if co then [(ch, EStopped)] else []))
  | QStopBrowse ty =>
    match alookup ty (d_queriers d) with
    | Some ch =>
      (set_found (set_queriers d (aremove ty (d_queriers d))) (aremove ty (d_found d)),
       [(ch, EStopped); (ch, EClosed)])
    | None => (d, [])
    end
  | QResolve h ch =>
    (set_resolvers d (ainsert (lower h) ch (d_resolvers d)),
     [(ch, EStarted)] ++ closed_old (alookup (lower h) (d_resolvers d)))
  | QStopResolve h =>
    match alookup (lower h) (d_resolvers d) with
    | Some ch => (set_resolvers d (aremove (lower h) (d_resolvers d)), [(ch, EStopped); (ch, EClosed)])
    | None => (d, [])
    end
  | QRegister tyd full =>
    match check_service_name_length tyd (d_len_max d) with
    | Ok _ =>
      (* a fresh ServiceInfo: status not yet Announced unless announced at once *)
      (set_announced (set_services d (sinsert (lower full) (d_services d)))
         (if mem (lower full) (d_oracle d) then lower full :: sremove (lower full) (d_announced d)
          else sremove (lower full) (d_announced d)), [])
    | _ => (d, [])                                  (* DaemonEvent::Error to the monitors *)
    end
  | QUnregister n ch =>
    if mem n (d_services d)
    then (set_announced (set_services d (sremove n (d_services d))) (sremove n (d_announced d)),
          [(ch, EUnregOK); (ch, EClosed)])
    else (d, [(ch, EUnregNotFound); (ch, EClosed)])
  | QMonitor ch => (set_monitors d (d_monitors d ++ [ch]), [])
  | QStatus ch => (d, [(ch, ERunning); (ch, EClosed)])
  | QMetrics ch => (d, [(ch, EMetrics); (ch, EClosed)])
  | QSetLenMax n => (set_len_max d n, [])
  | QExit _ | QOther => (d, [])
  end.

(* the goodbye packet a command sends: unregistering a registered service that was announced
   (bd59ecc: nothing to withdraw where the service was never announced) *)
Definition exec_gb (d : dstate) (c : cmd) : list bytes :=
  match c with
  | QUnregister n _ => if mem n (d_services d) && mem n (d_announced d) then [n] else []
  | _ => []
  end.

(* handle_read / handle_response for the one kind of network input of this model: `n` new
   instances of type `ty` (ignored unless somebody browses `ty`) *)
Fixpoint arrive (d : dstate) (a : list (bytes * N)) : dstate * list out :=
  match a with
  | [] => (d, [])
  | (ty, n) :: t =>
    match alookup ty (d_queriers d) with
    | Some ch =>
      let (d2, o) := arrive (set_found d (ainsert ty (found_count ty d + n) (d_found d))) t in
      (d2, repeat (ch, EFound) (N.to_nat n) ++ o)
    | None => arrive d t
    end
  end.

(* the reply / event channel a command carries *)
Definition cmd_chan (c : cmd) : option N :=
  match c with
  | QBrowse _ _ ch | QResolve _ ch | QUnregister _ ch | QMonitor ch | QStatus ch | QMetrics ch
  | QExit ch => Some ch
  | _ => None
  end.

(* cleanup(): SearchStopped on every browse and hostname channel ... *)
Definition cleanup_events (d : dstate) : list out :=
  map (fun e => (snd e, EStopped)) (d_queriers d) ++ map (fun e => (snd e, EStopped)) (d_resolvers d).
(* ... a goodbye for every registered service that was announced *)
Definition cleanup_goodbyes (d : dstate) : list bytes :=
  filter (fun n => mem n (d_announced d)) (d_services d).
(* the daemon thread ends: every sender the daemon held is dropped *)
Definition held_channels (d : dstate) : list N :=
  map snd (d_queriers d) ++ map snd (d_resolvers d) ++ d_monitors d.
Definition drop_all (d : dstate) : list out := map (fun ch => (ch, EClosed)) (held_channels d).
(* the commands behind Exit are dropped unexecuted: their reply channels close *)
Definition dropped (rest : list cmd) : list out :=
  flat_map (fun c => match cmd_chan c with Some ch => [(ch, EClosed)] | None => [] end) rest.

Definition shutdown_outputs (d : dstate) (x : N) (rest : list cmd) : list out :=
  cleanup_events d ++ dropped rest ++ drop_all d ++ [(x, EShutdown); (x, EClosed)].

(* the command loop of one iteration with listeners of unlimited capacity:
   (state, channel outputs, goodbyes, daemon ended?) *)
Fixpoint drain0 (d : dstate) (q : list cmd) : dstate * list out * list bytes * bool :=
  match q with
  | [] => (d, [], [], false)
  | QExit x :: rest => (d, shutdown_outputs d x rest, cleanup_goodbyes d, true)
  | c :: rest =>
    let (d1, o1) := exec d c in
    let '(d2, o2, g, x) := drain0 d1 rest in
    (d2, o1 ++ o2, exec_gb d c ++ g, x)
  end.

(* ---- listener capacity -------------------------------------------------------------------- *)

Definition is_listener_msg (e : ev) : bool :=
  match e with EStarted | EStopped | EFound => true | _ => false end.

Definition counts := list (N * N).          (* channel -> events sent in this iteration *)
Fixpoint cget (ch : N) (c : counts) : N :=
  match c with [] => 0 | (k, v) :: t => if k =? ch then v else cget ch t end.
Definition cincr (ch : N) (c : counts) : counts := (ch, cget ch c + 1) :: c.

(* the blocking `send`s of one piece of work: the outputs that get through, the new counts,
   and whether a send found its listener full (the thread blocks there) *)
Fixpoint deliver (c : counts) (outs : list out) : list out * counts * bool :=
  match outs with
  | [] => ([], c, false)
  | (ch, e) :: t =>
    if is_listener_msg e then
      if browse_listener_bound <=? cget ch c then ([], c, true)
      else let '(o, c', b) := deliver (cincr ch c) t in ((ch, e) :: o, c', b)
    else let '(o, c', b) := deliver c t in ((ch, e) :: o, c', b)
  end.

Record iter_result : Type := mkIter {
  it_d : dstate; it_out : list out; it_goodbyes : list bytes;
  it_exited : bool; it_stuck : bool; it_rest : list cmd (* still queued when the thread blocked *) }.

(* the command loop with bounded listeners *)
Fixpoint drain (d : dstate) (c : counts) (q : list cmd) : iter_result :=
  match q with
  | [] => mkIter d [] [] false false []
  | QExit x :: rest =>
    let '(o, _, b) := deliver c (shutdown_outputs d x rest) in
    if b then mkIter d o [] false true rest          (* blocked inside cleanup(): nothing is dropped *)
    else mkIter d o (cleanup_goodbyes d) true false []
  | k :: rest =>
    let (d1, o1) := exec d k in
    let '(o, c1, b) := deliver c o1 in
    if b then mkIter d1 o [] false true rest
    else
      let r := drain d1 c1 rest in
      mkIter (it_d r) (o ++ it_out r) (exec_gb d k ++ it_goodbyes r) (it_exited r) (it_stuck r) (it_rest r)
  end.

(* one loop iteration: incoming packets first, then the commands *)
Definition iterate (d : dstate) (found : list (bytes * N)) (q : list cmd) : iter_result :=
  let (d0, oa) := arrive d found in
  let '(o, c, b) := deliver [] oa in
  if b then mkIter d0 o [] false true q
  else
    let r := drain d0 c q in
    mkIter (it_d r) (o ++ it_out r) (it_goodbyes r) (it_exited r) (it_stuck r) (it_rest r).

(* ---- histories ------------------------------------------------------------------------------ *)

Record stepin : Type := mkIn {
  in_found : list (bytes * N);     (* (type, number of new instances announced) before the iteration *)
  in_calls : list call;
  in_announced : list bytes }.     (* own services announced during the iteration (see `mark`) *)

Record sys : Type := mkSys {
  s_chan : chan; s_d : dstate; s_next : N (* next channel id *); s_stuck : bool }.
Definition sys_init : sys := mkSys (mkChan [] false) d_init 0 false.

(* what is observed of one step *)
Record sobs : Type := mkObs {
  so_results : list cres;
  so_events : list out;        (* order across different channels is not significant *)
  so_goodbyes : list bytes;    (* goodbyes sent in the iteration in which the daemon ended; order not significant *)
  so_exited : bool;
  so_stuck : bool }.           (* the daemon thread did not come back from this iteration *)

Definition step (s : sys) (i : stepin) : sys * sobs :=
  let '(q1, rs, o0) := do_calls (s_chan s) (in_calls i) (s_next s) in
  let nxt := s_next s + N.of_nat (length (in_calls i)) in
  if q_gone q1 || s_stuck s then (mkSys q1 (s_d s) nxt (s_stuck s), mkObs rs o0 [] false false)
  else
    let r := iterate (mark (s_d s) (in_announced i)) (in_found i) (q_items q1) in
    (mkSys (mkChan (it_rest r) (it_exited r)) (it_d r) nxt (it_stuck r),
     (* the clients read their channels when the iteration is over; if it never is, they
        never read what a blocked iteration had already sent *)
     mkObs rs (if it_stuck r then o0 else o0 ++ it_out r)
           (if it_exited r then it_goodbyes r else []) (it_exited r) (it_stuck r)).

Fixpoint run_from (s : sys) (h : list stepin) : list sobs :=
  match h with
  | [] => []
  | i :: t => let (s1, o) := step s i in o :: run_from s1 t
  end.

Definition run (h : list stepin) : list sobs := run_from sys_init h.

Definition never_stuck (tr : list sobs) : bool := forallb (fun o => negb (so_stuck o)) tr.

(* ---- the property as a checker over (history, observed trace) ------------------------------- *)

Definition evs_of (ch : N) (l : list out) : list ev :=
  map snd (filter (fun p => fst p =? ch) l).

Fixpoint evs_eqb (a b : list ev) : bool :=
  match a, b with
  | [], [] => true
  | x :: a', y :: b' => ev_eqb x y && evs_eqb a' b'
  | _, _ => false
  end.

Definition has_ev (e : ev) (l : list ev) : bool := existsb (ev_eqb e) l.

Definition is_status (c : call) : bool := match c with CStatus => true | _ => false end.

Definition count_bytes (x : bytes) (l : list bytes) : nat := length (filter (beq x) l).
Definition same_multiset (a b : list bytes) : bool :=
  forallb (fun x => Nat.eqb (count_bytes x a) (count_bytes x b)) (a ++ b).

(* (1) results: Msg exactly when the arguments are refused; otherwise, while nobody has seen
   Shutdown: Ok until the queue holds `bound` commands, then Again; after Shutdown was seen:
   DaemonShutdown - except status(), which returns Ok and a channel holding Shutdown. *)
Fixpoint chk_results (seen : bool) (cs : list call) (base : N) (rs : list cres) (queued : N)
    (evs : list out) : bool :=
  match cs, rs with
  | [], [] => true
  | c :: ct, r :: rt =>
    match prepare c base with
    | Err => cres_eqb r RMsg && chk_results seen ct (base + 1) rt queued evs
    | Panic | OutOfFuel => false
    | Ok _ =>
      if seen then
        (if is_status c
         then cres_eqb r ROk && evs_eqb (evs_of base evs) [EShutdown; EClosed]
         else cres_eqb r RShutdown)
        && chk_results seen ct (base + 1) rt queued evs
      else if cmd_queue_bound <=? queued
      then cres_eqb r RAgain && chk_results seen ct (base + 1) rt queued evs
      else cres_eqb r ROk && chk_results seen ct (base + 1) rt (queued + 1) evs
    end
  | _, _ => false
  end.

(* the commands that were accepted in this step, in order, as the daemon will see them *)
Fixpoint accepted (cs : list call) (base : N) (rs : list cres) : list cmd :=
  match cs, rs with
  | c :: ct, r :: rt =>
    match r, prepare c base with
    | ROk, Ok k => k :: accepted ct (base + 1) rt
    | _, _ => accepted ct (base + 1) rt
    end
  | _, _ => []
  end.

Fixpoint before_exit (q : list cmd) : list cmd :=
  match q with
  | [] => []
  | QExit _ :: _ => []
  | c :: t => c :: before_exit t
  end.
Fixpoint from_exit (q : list cmd) : option (N * list cmd) :=
  match q with
  | [] => None
  | QExit x :: t => Some (x, t)
  | _ :: t => from_exit t
  end.

(* sequential execution of commands none of which is Exit *)
Fixpoint exec_seq (d : dstate) (q : list cmd) : dstate * list out :=
  match q with
  | [] => (d, [])
  | c :: t => let (d1, o1) := exec d c in let (d2, o2) := exec_seq d1 t in (d2, o1 ++ o2)
  end.
(* the goodbyes they send (unregister) *)
Fixpoint exec_seq_gb (d : dstate) (q : list cmd) : list bytes :=
  match q with
  | [] => []
  | c :: t => exec_gb d c ++ exec_seq_gb (fst (exec d c)) t
  end.

(* (2) every accepted command that carries a channel is answered or closed within the step.
   A monitor subscription has nothing to say until something happens; it must only never be
   left behind by a shutdown. *)
Definition chk_resolves (q : list cmd) (exited : bool) (evs : list out) : bool :=
  forallb (fun c =>
    match c with
    | QMonitor ch => negb exited || has_ev EClosed (evs_of ch evs)
    | _ => match cmd_chan c with
           | Some ch => negb (match evs_of ch evs with [] => true | _ => false end)
           | None => true
           end
    end) q.

Definition chans_of (q : list cmd) : list N :=
  flat_map (fun c => match cmd_chan c with Some ch => [ch] | None => [] end) q.

(* (3) the step in which a shutdown was accepted: the daemon ends in this step; the goodbyes
   of this iteration are those of the unregister commands in front of Exit plus one for
   exactly the services still registered when Exit is reached; on every channel the
   daemon held at that point, on Exit's channel and on the channels of the commands behind
   Exit, the client reads exactly what the packets received, the sequential execution of the
   commands in front of Exit and then the clean-up prescribe (in particular: one
   SearchStopped from the clean-up, `closed` afterwards; Shutdown then `closed` on Exit's
   channel; only `closed` on the channels of the commands behind Exit).
   A step without an accepted shutdown: the daemon does not end, sends no goodbye for a
   shutdown, and nobody reads Shutdown from a command reply. *)
Definition chk_shutdown (d : dstate) (found : list (bytes * N)) (q : list cmd) (o : sobs) : bool :=
  match from_exit q with
  | None =>
    negb (so_exited o) && match so_goodbyes o with [] => true | _ => false end
    && forallb (fun ch => negb (has_ev EShutdown (evs_of ch (so_events o)))) (chans_of q)
  | Some (x, rest) =>
    let (d0, oa) := arrive d found in
    let (d1, o1) := exec_seq d0 (before_exit q) in
    let expected := oa ++ o1 ++ shutdown_outputs d1 x rest in
    so_exited o
    && same_multiset (so_goodbyes o) (exec_seq_gb d0 (before_exit q) ++ cleanup_goodbyes d1)
    && forallb (fun ch => evs_eqb (evs_of ch (so_events o)) (evs_of ch expected))
               (held_channels d1 ++ x :: chans_of rest)
  end.

(* (4) once Shutdown has been read, the daemon does nothing any more *)
Definition chk_quiet (o : sobs) : bool :=
  negb (so_exited o) && match so_goodbyes o with [] => true | _ => false end
  && forallb (fun p => ev_eqb (snd p) EShutdown || ev_eqb (snd p) EClosed) (so_events o).

Definition shutdown_seen (o : sobs) : bool := existsb (fun p => ev_eqb (snd p) EShutdown) (so_events o).

(* the checker: walks the steps with the tracked daemon state `d` (what the packets and the
   accepted commands so far amount to), the next channel id, and whether a client has read
   Shutdown.  A daemon thread that does not come back from an iteration fails the check. *)
Fixpoint chk_from (d : dstate) (base : N) (seen : bool) (h : list stepin) (tr : list sobs) : bool :=
  match h, tr with
  | [], [] => true
  | i :: ht, o :: tr1 =>
    let cs := in_calls i in
    let nxt := base + N.of_nat (length cs) in
    negb (so_stuck o)
    && chk_results seen cs base (so_results o) 0 (so_events o)
    && (if seen then
          chk_quiet o && chk_from d nxt true ht tr1
        else
          let q := accepted cs base (so_results o) in
          chk_resolves q (so_exited o) (so_events o)
          && chk_shutdown (mark d (in_announced i)) (in_found i) q o
          && chk_from (fst (exec_seq (fst (arrive (mark d (in_announced i)) (in_found i))) (before_exit q)))
                      nxt (shutdown_seen o) ht tr1)
  | _, _ => false
  end.

Definition chk_C14 (h : list stepin) (tr : list sobs) : bool := chk_from d_init 0 false h tr.
