(* Responder side of C10 at daemon level (src/service_daemon.rs: handle_query,
   add_answer_of_service; src/dns_parser.rs: add_answer, add_answer_with_additionals), reduced
   to what known answers do to a response.

   The responder's own records are an INPUT (they are read off the daemon's answer to the same
   type enumeration question without known answers, so their content is C06's business): a
   service is its PTR, SRV, TXT record and its addresses on the interface the query arrives on.
   Scope: one interface, IPv4 querier on port 5353, services announced, no renaming. *)
From Coq Require Import List NArith Bool.
From Mdns Require Import Res Bytes Rec ParamsLife Life LifeSpec.
Import ListNotations.
Open Scope N_scope.

(* sv_sub: the `_x._sub._type PTR instance` additional of a service registered with a subtype *)
Record svc : Type := mkSvc {
  sv_ptr : orec; sv_sub : option orec; sv_srv : orec; sv_txt : orec; sv_addrs : list orec }.

Definition sub_list (s : svc) : list orec := match sv_sub s with Some x => [x] | None => [] end.

Definition rename (a : orec) (name : bytes) : orec :=
  let i := o_id a in
  mkO (mkId name (i_type i) (i_class i) (i_flush i) (i_data i) (i_if i)) (o_ttl a).

Definition no_addrs (s : svc) : bool := match sv_addrs s with [] => true | _ => false end.

(* A candidate answer of one question: the record, the additionals it would bring, whether it
   goes through add_answer_with_additionals (PTR) or add_answer, and has_addrs. *)
Record cand : Type := mkCand { cd_answer : orec; cd_adds : list orec; cd_is_ptr : bool; cd_has_addrs : bool }.

(* matches_type_or_subtype: the question names the type or the subtype; the answer is the type PTR
   either way, with the subtype PTR, SRV, TXT and the addresses as additionals *)
Definition names_type_or_sub (qname : bytes) (s : svc) : bool :=
  beq qname (i_name (o_id (sv_ptr s)))
  || match sv_sub s with Some x => beq qname (i_name (o_id x)) | None => false end.

Definition ptr_cands (qname : bytes) (svcs : list svc) : list cand :=
  flat_map (fun s =>
    if names_type_or_sub qname s
    then [mkCand (sv_ptr s) (sub_list s ++ sv_srv s :: sv_txt s :: sv_addrs s) true (negb (no_addrs s))] else []) svcs.

Definition host_name (s : svc) : bytes := match i_data (o_id (sv_srv s)) with RSrv _ _ _ h => h | _ => [] end.

Definition addr_cands (qname : bytes) (qtype : N) (svcs : list svc) : list cand :=
  if (qtype =? TY_A) || (qtype =? TY_ANY) then
    flat_map (fun s =>
      if beq (lower qname) (lower (host_name s))
      then map (fun a => mkCand a [] false true) (sv_addrs s) else []) svcs
  else [].

Fixpoint find_svc (qname : bytes) (svcs : list svc) : option svc :=
  match svcs with
  | [] => None
  | s :: rest => if beq (lower qname) (lower (i_name (o_id (sv_srv s)))) then Some s else find_svc qname rest
  end.

Definition inst_cands (qname : bytes) (qtype : N) (svcs : list svc) : list cand :=
  match find_svc qname svcs with
  | None => []
  | Some s =>
      if no_addrs s then []
      else
        (if (qtype =? TY_SRV) || (qtype =? TY_ANY)
         then [mkCand (rename (sv_srv s) qname) (if qtype =? TY_SRV then sv_addrs s else []) false true] else [])
        ++ (if (qtype =? TY_TXT) || (qtype =? TY_ANY)
            then [mkCand (rename (sv_txt s) qname) [] false true] else [])
  end.

Definition question_cands (svcs : list svc) (q : bytes * N) : list cand :=
  let (qname, qtype) := q in
  if qtype =? TY_PTR then ptr_cands qname svcs
  else addr_cands qname qtype svcs ++ inst_cands qname qtype svcs.

(* the code as it is, written with the functions of Model/Life.v: a PTR goes through
   add_answer_with_additionals; a direct answer through add_answer, and brings its additionals
   (the addresses of an SRV question) only if it was added *)
Definition step_code (kas : list (ident * N)) (out : outmsg) (c : cand) : outmsg :=
  if cd_is_ptr c then add_answer_with_additionals kas out (cd_has_addrs c) (cd_answer c) (cd_adds c)
  else
    let (o1, added) := add_answer kas out (cd_answer c) in
    if added then mkOut (out_answers o1) (out_additionals o1 ++ cd_adds c) (out_suppressed o1) else o1.

Definition finish (out : outmsg) : option (list orec * list orec) :=
  match out_answers out with [] => None | _ => Some (out_answers out, out_additionals out) end.

Definition resp_predict (svcs : list svc) (questions : list (bytes * N)) (kas : list (ident * N))
  : option (list orec * list orec) :=
  finish (fold_left (step_code kas) (flat_map (question_cands svcs) questions) (mkOut [] [] 0)).

(* the property text: an answer whose record is listed with a TTL above half is left out
   together with ALL the additionals it would have brought; everything else is answered *)
Definition suppressed_spec (a : orec) (kas : list (ident * N)) : bool :=
  existsb (fun k => suppress_spec (o_id a) (o_ttl a) (fst k) (snd k)) kas.

Definition step_spec (kas : list (ident * N)) (out : outmsg) (c : cand) : outmsg :=
  if negb (cd_has_addrs c) then out
  else if suppressed_spec (cd_answer c) kas
  then mkOut (out_answers out) (out_additionals out) (out_suppressed out + 1)
  else mkOut (out_answers out ++ [cd_answer c]) (out_additionals out ++ cd_adds c) (out_suppressed out).

Definition resp_spec (svcs : list svc) (questions : list (bytes * N)) (kas : list (ident * N))
  : option (list orec * list orec) :=
  finish (fold_left (step_spec kas) (flat_map (question_cands svcs) questions) (mkOut [] [] 0)).

(* ---- comparison of an observed response with the expected one, as multisets ---- *)
Definition orec_eqb (a b : orec) : bool :=
  entry_eq (o_id a) (o_id b) && beq_rdata (i_data (o_id a)) (i_data (o_id b)) && (o_ttl a =? o_ttl b).

Definition count_o (x : orec) (l : list orec) : nat := length (filter (orec_eqb x) l).

Definition perm_eqb (l1 l2 : list orec) : bool :=
  Nat.eqb (length l1) (length l2) && forallb (fun x => Nat.eqb (count_o x l1) (count_o x l2)) l1.

Definition resp_eqb (a b : option (list orec * list orec)) : bool :=
  match a, b with
  | None, None => true
  | Some (x1, y1), Some (x2, y2) => perm_eqb x1 x2 && perm_eqb y1 y2
  | _, _ => false
  end.

(* C10 monitor of one injected query: the observed response is what the property prescribes *)
Definition chk_C10_resp (svcs : list svc) (questions : list (bytes * N)) (kas : list (ident * N))
    (observed : option (list orec * list orec)) : bool :=
  resp_eqb observed (resp_spec svcs questions kas).

