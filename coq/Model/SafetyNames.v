(* C15: the argument validators and the renaming functions as total functions on UTF-8 byte
   strings, with an explicit `Panic` wherever the Rust slices a `str` by byte index
   (`&s[a..b]` panics unless a <= b <= len and both are char boundaries), truncates a String,
   or subtracts usize values.

   Modelled (src/service_daemon.rs): check_domain_suffix, check_service_name,
   check_service_name_length, check_hostname, check_label_lengths (= dns_parser::
   name_labels_fit), valid_instance_name, name_change, hostname_change, and the argument
   checks of ServiceDaemon::{browse, resolve_hostname, register};
   (src/service_info.rs): split_sub_domain, escape_instance_name, normalize_hostname and the
   name part of ServiceInfo::new.
   The encoder's label split is NOT copied: WireOut.name_labels / WireOut.write_labels are
   imported from Model/WireOut.v.

   Strings are `bytes` holding UTF-8; '.', '\', '_', '-', ' ', '(', ')' and digits are ASCII,
   so searching for them byte-wise is exact.  Definitions only. *)
From Coq Require Import List NArith Bool Arith.
From Mdns Require Import Res Bytes Utf8 WireOut ParamsSafety.
Import ListNotations.
Open Scope N_scope.

Definition USC : N := 95.     (* '_' *)
Definition HYP : N := 45.     (* '-' *)
Definition SPC : N := 32.     (* ' ' *)
Definition LPAR : N := 40.    (* '(' *)
Definition RPAR : N := 41.    (* ')' *)
Definition PLUS : N := 43.    (* '+' *)

Definition tcp_suffix : bytes := [46;95;116;99;112;46;108;111;99;97;108;46].     (* ._tcp.local. *)
Definition udp_suffix : bytes := [46;95;117;100;112;46;108;111;99;97;108;46].    (* ._udp.local. *)
Definition local_suffix : bytes := [46;108;111;99;97;108;46].                     (* .local. *)
Definition local_local_suffix : bytes := [46;108;111;99;97;108;46;108;111;99;97;108;46]. (* .local.local. *)
Definition sub_marker : bytes := [46;95;115;117;98;46].                           (* ._sub. *)
Definition DOMAIN_LEN : N := blen tcp_suffix.                 (* "._tcp.local.".len() *)

(* ---- str primitives --------------------------------------------------------------------- *)

Fixpoint prefixb (p s : bytes) : bool :=
  match p, s with
  | [], _ => true
  | x :: p', y :: s' => (x =? y) && prefixb p' s'
  | _ :: _, [] => false
  end.

Definition ends_with (s suf : bytes) : bool := prefixb (rev suf) (rev s).

(* str::is_char_boundary *)
Definition is_char_boundary (s : bytes) (i : nat) : bool :=
  match i with
  | O => true
  | _ => match nth_error s i with
         | Some b => negb (cont b)
         | None => Nat.eqb i (length s)
         end
  end.

(* &s[a..b] *)
Definition slice (s : bytes) (a b : nat) : res bytes :=
  if (a <=? b)%nat && (b <=? length s)%nat && is_char_boundary s a && is_char_boundary s b
  then Ok (firstn (b - a) (skipn a s))
  else Panic.

(* str::split(c) for an ASCII char: never empty *)
Fixpoint split_on (c : N) (s : bytes) : list bytes :=
  match s with
  | [] => [[]]
  | x :: t =>
    if x =? c then [] :: split_on c t
    else match split_on c t with
         | h :: r => (x :: h) :: r
         | [] => [[x]]
         end
  end.

(* str::find(pattern) / str::rfind(pattern): byte position of the first / last match *)
Fixpoint find_sub (p s : bytes) : option nat :=
  if prefixb p s then Some O
  else match s with
       | [] => None
       | _ :: t => option_map S (find_sub p t)
       end.

Fixpoint rfind_sub (p s : bytes) : option nat :=
  match s with
  | [] => if prefixb p [] then Some O else None
  | _ :: t =>
    match rfind_sub p t with
    | Some i => Some (S i)
    | None => if prefixb p s then Some O else None
    end
  end.

Definition contains_sub (p s : bytes) : bool :=
  match find_sub p s with Some _ => true | None => false end.

Definition first_is (c : N) (s : bytes) : bool :=
  match s with x :: _ => x =? c | [] => false end.
Definition last_is (c : N) (s : bytes) : bool := first_is c (rev s).

Definition is_ascii_alpha (b : N) : bool :=
  ((65 <=? b) && (b <=? 90)) || ((97 <=? b) && (b <=? 122)).
Definition is_digit (b : N) : bool := (48 <=? b) && (b <=? 57).

(* ---- validators ------------------------------------------------------------------------- *)

Definition check_domain_suffix (name : bytes) : res unit :=
  if ends_with name tcp_suffix || ends_with name udp_suffix then Ok tt else Err.

Definition check_service_name (fullname : bytes) : res unit :=
  let? _ := check_domain_suffix fullname in
  (* fullname[..fullname.len() - DOMAIN_LEN] *)
  if blen fullname <? DOMAIN_LEN then Panic else
  let? pre := slice fullname 0 (length fullname - N.to_nat DOMAIN_LEN) in
  match last (map Some (split_on DOT pre)) None with
  | None => Err                                            (* remaining.last() is None *)
  | Some name =>
    if negb (first_is USC name) then Err else
    let? nm := slice name 1 (length name) in              (* &name[1..] *)
    if contains_sub [HYP; HYP] nm then Err else
    if first_is HYP nm || last_is HYP nm then Err else
    if existsb is_ascii_alpha nm then Ok tt else Err
  end.

Definition check_service_name_length (ty_domain : bytes) (limit : N) : res unit :=
  if svc_type_too_short (blen ty_domain) DOMAIN_LEN then Err else
  (* ty_domain.len() - DOMAIN_LEN - 1: usize subtraction *)
  if blen ty_domain <? DOMAIN_LEN + 1 then Panic else
  if svc_name_too_long (svc_name_len (blen ty_domain) DOMAIN_LEN) limit then Err else Ok tt.

Definition check_hostname (hostname : bytes) : res unit :=
  if negb (ends_with hostname local_suffix) then Err else
  if beq hostname local_suffix then Err else
  if hostname_too_long (blen hostname) then Err else Ok tt.

(* dns_parser::name_labels_fit, with the encoder's own label split *)
Definition labels_fit (name : bytes) : bool :=
  forallb (fun l => label_fits (blen l)) (name_labels name).

(* check_label_lengths since 4c6b25c: the name as given AND its lower-cased form (the daemon's
   map keys, under which some queries are sent) must fit.  Unicode case mapping is not
   modelled: `lc` stands for str::to_lowercase and is an explicit argument everywhere (the
   theorems hold for every function `lc`; the drivers instantiate it with the lower-cased
   spellings computed by the Rust std library for the names of the case at hand). *)
Definition check_label_lengths (lc : bytes -> bytes) (name : bytes) : res unit :=
  if labels_fit name && labels_fit (lc name) then Ok tt else Err.

Definition valid_instance_name (name : bytes) : bool :=
  instance_min_parts <=? N.of_nat (length (split_on DOT name)).

(* ---- service_info.rs -------------------------------------------------------------------- *)

Definition split_sub_domain (domain : bytes) : bytes * option bytes :=
  match rfind_sub sub_marker domain with
  | Some i => (skipn (i + length sub_marker) domain, Some domain)
  | None => (domain, None)
  end.

Definition escape_instance_name (name : bytes) : bytes := escape_label name.

(* String::truncate(new_len) asserts is_char_boundary(new_len) *)
Definition normalize_hostname (hostname : bytes) : res bytes :=
  if ends_with hostname local_local_suffix then
    if (length hostname <? 6)%nat then Panic
    else slice hostname 0 (length hostname - 6)
  else Ok hostname.

(* the names computed by ServiceInfo::new: (ty_domain, sub_domain, fullname, server) *)
Definition si_names (ty_domain my_name host_name : bytes)
    : res (bytes * option bytes * bytes * bytes) :=
  let '(ty, sub) := split_sub_domain ty_domain in
  let fullname := escape_instance_name my_name ++ DOT :: ty in
  let? server := normalize_hostname host_name in
  Ok (ty, sub, fullname, server).

(* ---- the argument checks of the public API ------------------------------------------------ *)

Definition api_browse (lc : bytes -> bytes) (service_type : bytes) : res unit :=
  let? _ := check_domain_suffix service_type in
  check_label_lengths lc service_type.

Definition api_resolve_hostname (lc : bytes -> bytes) (hostname : bytes) : res unit :=
  let? _ := check_hostname hostname in
  check_label_lengths lc hostname.

Definition api_register_names (lc : bytes -> bytes) (fullname server : bytes) (sub : option bytes) : res unit :=
  let? _ := check_service_name fullname in
  let? _ := check_hostname server in
  let? _ := check_label_lengths lc fullname in
  let? _ := check_label_lengths lc server in
  match sub with Some s => check_label_lengths lc s | None => Ok tt end.

(* ServiceInfo::new followed by ServiceDaemon::register *)
Definition api_register (lc : bytes -> bytes) (ty_domain my_name host_name : bytes) : res unit :=
  let? (ty, sub, fullname, server) := si_names ty_domain my_name host_name in
  api_register_names lc fullname server sub.

(* ---- renaming after a conflict ------------------------------------------------------------ *)

(* u32::from_str: optional '+', then decimal digits; None on empty, lone sign, other byte,
   or a value above u32::MAX *)
Fixpoint digits_val (s : bytes) (acc : N) : option N :=
  match s with
  | [] => Some acc
  | c :: t =>
    if is_digit c then
      let v := acc * 10 + (c - 48) in
      if 4294967295 <? v then None else digits_val t v
    else None
  end.

Definition parse_u32 (s : bytes) : option N :=
  match s with
  | [] => None
  | [c] => if (c =? PLUS) || (c =? HYP) then None else digits_val s 0
  | c :: t => if c =? PLUS then digits_val t 0 else digits_val s 0
  end.

(* Display of an unsigned integer *)
Fixpoint dec_fuel (fuel : nat) (n : N) (acc : bytes) : bytes :=
  match fuel with
  | O => acc
  | S f =>
    let acc' := (48 + n mod 10) :: acc in
    if n / 10 =? 0 then acc' else dec_fuel f (n / 10) acc'
  end.
Definition dec (n : N) : bytes := dec_fuel 20 n [].

(* split_first_label: byte position of the first unescaped dot (a backslash skips the byte
   after it, whatever it is) *)
Fixpoint first_dot_pos (s : bytes) : option nat :=
  match s with
  | [] => None
  | c :: t =>
    if c =? BSL then
      match t with
      | [] => None
      | _ :: t' => option_map (fun n => S (S n)) (first_dot_pos t')
      end
    else if c =? DOT then Some O
    else option_map S (first_dot_pos t)
  end.

(* (&name[..i], &name[i..]) at the first unescaped dot, or (name, "") *)
Definition split_first_label (name : bytes) : res (bytes * bytes) :=
  match first_dot_pos name with
  | Some i =>
    let? a := slice name 0 i in
    let? b := slice name i (length name) in
    Ok (a, b)
  | None => Ok (name, [])
  end.

Definition MAX_LABEL_LEN : nat := 63.

(* `while !base.is_char_boundary(end) { end -= 1 }` *)
Fixpoint back_to_boundary (s : bytes) (e : nat) : nat :=
  if is_char_boundary s e then e
  else match e with
       | O => O
       | S e' => back_to_boundary s e'
       end.

(* kept.bytes().rev().take_while(|b| *b == b'\\').count() *)
Fixpoint leading_bsl (s : bytes) : nat :=
  match s with
  | c :: t => if c =? BSL then S (leading_bsl t) else O
  | [] => O
  end.
Definition trailing_bsl (s : bytes) : nat := leading_bsl (rev s).

(* label_with_suffix: base shortened (on a char boundary, not inside an escape sequence) so
   that base + suffix fits into 63 bytes *)
Definition label_with_suffix (base suffix : bytes) : res bytes :=
  let e := back_to_boundary base (Nat.min (length base) (MAX_LABEL_LEN - length suffix)) in
  let? kept := slice base 0 e in
  let? kept' :=
    (if (e <? length base)%nat && Nat.odd (trailing_bsl kept)
     then (if (length kept =? 0)%nat then Panic                       (* kept.len() - 1 *)
           else slice kept 0 (length kept - 1))
     else Ok kept) in
  Ok (kept' ++ suffix).

Definition name_change (original : bytes) : res bytes :=
  let? (first, rest) := split_first_label original in
  let? default := label_with_suffix first [SPC; LPAR; 50; RPAR] in
  let? new_name :=
    match rfind_sub [SPC; LPAR] first with
    | None => Ok default
    | Some paren_pos =>
      let? tail := slice first paren_pos (length first) in     (* first_part[paren_pos..] *)
      match find_sub [RPAR] tail with
      | None => Ok default
      | Some end_paren =>
        let absolute_end_pos := (paren_pos + end_paren)%nat in
        if (length first =? 0)%nat then Panic else             (* first_part.len() - 1 *)
        if (absolute_end_pos =? length first - 1)%nat then
          let num_start := (paren_pos + 2)%nat in
          let? numstr := slice first num_start absolute_end_pos in
          match parse_u32 numstr with
          | Some number =>
            if number =? 4294967295 then Ok default             (* checked_add(1) is None *)
            else
              let? base := slice first 0 paren_pos in
              label_with_suffix base ([SPC; LPAR] ++ dec (number + 1) ++ [RPAR])
          | None => Ok default
          end
        else Ok default
      end
    end in
  Ok (new_name ++ rest).

Definition hostname_change (original : bytes) : res bytes :=
  let? (first, rest) := split_first_label original in
  let? default := label_with_suffix first [HYP; 50] in
  let? new_name :=
    match rfind_sub [HYP] first with
    | None => Ok default
    | Some hyphen_pos =>
      let? numstr := slice first (hyphen_pos + 1) (length first) in   (* first_part[hyphen_pos + 1..] *)
      match parse_u32 numstr with
      | Some number =>
        if number =? 4294967295 then Ok default
        else
          let? base := slice first 0 hyphen_pos in
          label_with_suffix base ([HYP] ++ dec (number + 1))
      | None => Ok default
      end
    end in
  Ok (new_name ++ rest).

(* n successive renames (a name can lose several conflicts in a row) *)
Fixpoint iter_rename (f : bytes -> res bytes) (n : nat) (s : bytes) : res bytes :=
  match n with
  | O => Ok s
  | S k => let? r := f s in iter_rename f k r
  end.

(* ---- names taken from the wire ----------------------------------------------------------- *)

(* DnsIncoming::read_name presents the labels it read as dotted text WITHOUT escaping:
   label ++ "." for every label.  (The decoder itself is Model/Wire.v; this is its output
   format, used to state what the daemon re-encodes later.) *)
Definition present (wire_labels : list bytes) : bytes :=
  flat_map (fun l => l ++ [DOT]) wire_labels.

Definition wire_label_ok (l : bytes) : bool :=
  (1 <=? blen l) && (blen l <=? 63) && utf8_valid l && wf_bytesb l.

(* read_name since 35da75b: the dotted text is returned only if it can be encoded again
   (`!name_labels_fit(&name)` -> Err).  The reader itself is Model/Wire.v; this is its last
   step applied to the labels it read. *)
Definition read_name_fit (wire_labels : list bytes) : res bytes :=
  if labels_fit (present wire_labels) then Ok (present wire_labels) else Err.

(* every label of `name`, as the encoder splits it, passes write_utf8's assertion *)
Definition encodable (name : bytes) : bool :=
  forallb (fun l => write_utf8_assert (blen l)) (name_labels name).

(* ---- C15 monitor --------------------------------------------------------------------------
   Observation of one case: did any call / any component function panic, did the daemon
   thread end or get stuck, does the daemon still serve afterwards (status = Running and a
   fresh browse gets SearchStarted). *)
Record obs15 : Type := mkObs15 {
  o_call_panics : N;          (* number of PANIC results *)
  o_daemon_died : bool;       (* "exited"/"panicked"/"stuck" seen although no shutdown was asked *)
  o_serves_after : bool }.    (* status Running and fresh browse answered after the input *)

Definition chk_C15 (o : obs15) : bool :=
  (o_call_panics o =? 0) && negb (o_daemon_died o) && o_serves_after o.
