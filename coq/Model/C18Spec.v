(* The checker of property C18 over what a user can observe of one daemon: which interface
   every packet leaves on and which address records it carries, and the IpAdd / IpDel events,
   judged against the interface tables the OS reported and the enable / disable calls made so far.
   It states necessary conditions ("only on enabled interfaces that have the address in one of
   their subnets", "only addresses of that link", "IpAdd only for selected addresses"); the exact
   behaviour is the model's (Model/IntfDaemon.v), compared with the implementation on every run.
   Because the daemon learns about a change of the OS table only at its next IP check, the
   conditions refer to every table reported so far (`seen`), and an entry that has left the
   current table is not held against a packet. Definitions only. *)
From Coq Require Import List NArith Bool.
From Mdns Require Import Bytes Rec Intf Responder IntfDaemon.
Import ListNotations.
Open Scope N_scope.

Definition iface_mem (e : iface) (l : list iface) : bool := existsb (iface_eqb e) l.

Definition ip_of_octets (o : bytes) : ip :=
  if Nat.eqb (length o) 4 then V4 (n_of_octets o) else V6 (n_of_octets o).

(* an address record is at home on interface idx: some address the interface has had puts it in
   its subnet *)
Definition addr_ok (seen : list iface) (idx : N) (o : bytes) : bool :=
  existsb (fun e => (i_index e =? idx) && valid_ip_on_intf (ip_of_octets o) (i_addr e)) seen.

Definition addrs_ok (seen : list iface) (p : packet) : bool :=
  forallb (fun r => match r_data r with RAddr o => addr_ok seen (p_if p) o | _ => true end)
          (p_answers p ++ p_additionals p).

(* the interface / family the packet left on was enabled: an entry of that interface and family
   that is selected by the selections in force at some point of this iteration (before, between
   or after its enable / disable calls), or that the OS no longer reports (the daemon has not
   noticed yet) *)
Definition selected_some (states : list (list selection)) (e : iface) : bool :=
  existsb (fun sl => last_match sl e) states.
Definition unselected_some (states : list (list selection)) (e : iface) : bool :=
  existsb (fun sl => negb (last_match sl e)) states.

Definition enabled_ok (seen cur : list iface) (states : list (list selection)) (p : packet) : bool :=
  existsb (fun e => (i_index e =? p_if p) && Bool.eqb (is_v4 (i_ip e)) (dest_is_v4 p)
                    && (negb (iface_mem e cur) || selected_some states e)) seen.

Definition packet_ok (seen cur : list iface) (states : list (list selection)) (p : packet) : bool :=
  (p_if p =? 0)      (* no interface owns the source address any more: the packet cannot leave *)
  || (addrs_ok seen p && enabled_ok seen cur states p).

(* an interface whose learned addresses may still be reported: some entry of it is enabled by the
   selections in force at some point of this iteration, or has left the OS table (the daemon has
   not noticed yet).  An interface all of whose entries are reported by the OS and disabled has
   been dropped by the daemon with everything learned on it, whatever the family of the record. *)
Definition intf_live (seen cur : list iface) (states : list (list selection)) (idx : N) : bool :=
  existsb (fun e => (i_index e =? idx) && (negb (iface_mem e cur) || selected_some states e)) seen.

Definition obs_ok (seen cur : list iface) (states : list (list selection)) (o : obs) : bool :=
  match o with
  | OSent p => packet_ok seen cur states p
  | OResolved _ _ _ _ addrs => forallb (fun ai => intf_live seen cur states (snd ai)) addrs
  | OIpAdd a => existsb (fun e => ip_eqb (i_ip e) a && selected_some states e) seen
  | OIpDel a => existsb (fun e => ip_eqb (i_ip e) a && (negb (iface_mem e cur) || unselected_some states e)) seen
  | _ => true
  end.

(* the selection lists in force during an iteration: before its calls and after each enable / disable *)
Fixpoint sel_states (sels : list selection) (cur : list iface) (calls : list call) : list (list selection) :=
  match calls with
  | [] => [sels]
  | CEnable ks :: t => sels :: sel_states (push_selections sels ks true cur) cur t
  | CDisable ks :: t => sels :: sel_states (push_selections sels ks false cur) cur t
  | _ :: t => sel_states sels cur t
  end.

Definition add_seen (seen tbl : list iface) : list iface :=
  fold_left (fun acc e => if iface_mem e acc then acc else acc ++ [e]) tbl seen.

(* Automatic addressing follows the addresses: within one IP check the addresses that vanished are
   withdrawn BEFORE the addresses found are added, so an address that moved to another interface
   or changed its prefix is withdrawn and then added again, never the other way round (the
   services would lose an address the host has).  Judged in iterations without enable / disable
   calls (there every IpAdd / IpDel comes from the one IP check of the iteration) and for
   addresses the OS table of the moment has on at most one entry. *)
Definition no_sel_calls (calls : list call) : bool :=
  forallb (fun c => match c with CEnable _ | CDisable _ => false | _ => true end) calls.
Definition single_in (cur : list iface) (a : ip) : bool :=
  Nat.leb (length (filter (fun e => ip_eqb (i_ip e) a) cur)) 1.
Fixpoint no_del_after_add (cur : list iface) (os : list obs) : bool :=
  match os with
  | [] => true
  | OIpAdd a :: t =>
    negb (single_in cur a && existsb (fun o => match o with OIpDel b => ip_eqb a b | _ => false end) t)
    && no_del_after_add cur t
  | _ :: t => no_del_after_add cur t
  end.
Definition order_ok (cur : list iface) (calls : list call) (os : list obs) : bool :=
  negb (no_sel_calls calls) || no_del_after_add cur os.

(* The last word about an address.  Every operation that reports IpDel (an IP check, an enable /
   disable call) ends by taking up every enabled entry of the OS table of the moment.  So when
   the last IpAdd / IpDel event of an iteration about an address is IpDel, the OS table of this
   iteration has no entry with this address that every selection list of the iteration enables:
   otherwise the daemon holds the address and its services with automatic addressing must keep it. *)
Fixpoint last_is_del (a : ip) (os : list obs) (acc : bool) : bool :=
  match os with
  | [] => acc
  | OIpAdd x :: t => last_is_del a t (if ip_eqb x a then false else acc)
  | OIpDel x :: t => last_is_del a t (if ip_eqb x a then true else acc)
  | _ :: t => last_is_del a t acc
  end.
Definition enabled_in_table (cur : list iface) (states : list (list selection)) (a : ip) : bool :=
  existsb (fun e => ip_eqb (i_ip e) a && forallb (fun sl => last_match sl e) states) cur.
Definition del_of_held (cur : list iface) (states : list (list selection)) (os : list obs) (a : ip) : bool :=
  last_is_del a os false && enabled_in_table cur states a.
Definition last_word_ok (cur : list iface) (states : list (list selection)) (os : list obs) : bool :=
  forallb (fun o => match o with OIpDel a => negb (del_of_held cur states os a) | _ => true end) os.

(* all iterations of a history: steps with what was observed in them *)
Fixpoint chk_from (seen cur : list iface) (sels : list selection) (h : list (step * list obs)) : bool :=
  match h with
  | [] => true
  | (s, os) :: rest =>
    let cur' := match st_os s with Some t => t | None => cur end in
    let seen' := add_seen seen cur' in
    let states := sel_states sels cur' (st_calls s) in
    forallb (obs_ok seen' cur' states) os && order_ok cur' (st_calls s) os && last_word_ok cur' states os
    && chk_from seen' cur' (last states sels) rest
  end.

Definition chk_C18 (os0 : list iface) (h : list (step * list obs)) : bool := chk_from os0 os0 [] h.

(* the model's own trace *)
Definition model_history (t0 : N) (os0 : list iface) (steps : list step) : list (step * list obs) :=
  combine steps (run (initial_state t0 os0) steps).
