(* Model of the responder: Zeroconf::handle_query (src/service_daemon.rs), add_answer_of_service,
   DnsOutgoing::add_answer / add_answer_with_additionals / add_additional_answer / add_question /
   clear_cache_flush_bits / to_packets (header id), send_dns_outgoing (src/dns_parser.rs,
   src/service_daemon.rs), following the Rust statement by statement.
   Definitions only; proofs are in Proofs/ResponderProofs.v.

   What is modelled as an input: the decoded query (Wire.decode gives it from the datagram),
   the services of `my_services` in their (unspecified) iteration order with the status each
   has on the receiving interface, the `name_changes` map of that interface's registry, the
   receiving interface (MyIntf) and the source address/port of the datagram.
   Not modelled here: the tie-breaking side effect of an ANY question with authorities (it
   changes probes, not the response), counters and the Respond monitor event, and the size limit
   of to_packets (a response whose records do not fit in 8972 bytes loses the records that do
   not fit; the generators stay far below it). *)
From Coq Require Import List NArith Bool.
From Mdns Require Import Res Bytes Rec Wire Intf ParamsResponder.
Import ListNotations.
Open Scope N_scope.

(* ---- addresses on the wire --------------------------------------------------------------- *)

Fixpoint be_bytes (k : nat) (n : N) : bytes :=
  match k with
  | O => []
  | S k' => N.modulo (N.shiftr n (8 * N.of_nat k')) 256 :: be_bytes k' n
  end.

Definition ip_octets (a : ip) : bytes :=
  match a with V4 n => be_bytes 4 n | V6 n => be_bytes 16 n end.

Definition n_of_octets (l : bytes) : N := fold_left (fun acc b => acc * 256 + b) l 0.

(* ip_address_rr_type *)
Definition addr_rr_type (a : ip) : N := if is_v4 a then TY_A else TY_AAAA.

(* ---- services ---------------------------------------------------------------------------- *)

Inductive status : Type := Probing | Announced | Unknown.

Definition is_announced (s : status) : bool := match s with Announced => true | _ => false end.

(* The fields of ServiceInfo the responder reads.  s_txt = generate_txt() (Txt.encode_txt of
   the registered properties). host_ttl / other_ttl are DNS_HOST_TTL / DNS_OTHER_TTL for every
   service created through the public API (no public setter), priority = weight = 0. *)
Record service : Type := mkService {
  s_ty : bytes;               (* ty_domain, e.g. "_http._tcp.local." *)
  s_sub : option bytes;       (* sub_domain, e.g. "_printer._sub._http._tcp.local." *)
  s_fullname : bytes;         (* as registered (case preserved) *)
  s_host : bytes;             (* server *)
  s_addrs : list ip;
  s_port : N;
  s_host_ttl : N;
  s_other_ttl : N;
  s_priority : N;
  s_weight : N;
  s_txt : bytes }.

(* one entry of my_services as handle_query sees it: key (lower-cased fullname), the info,
   get_status(if_index) *)
Record entry : Type := mkEntry { e_key : bytes; e_svc : service; e_status : status }.

(* DnsRegistry::resolve_name over name_changes *)
Fixpoint assoc (k : bytes) (m : list (bytes * bytes)) : option bytes :=
  match m with
  | [] => None
  | (k', v) :: t => if beq k k' then Some v else assoc k t
  end.

Definition resolve_name (nc : list (bytes * bytes)) (name : bytes) : bytes :=
  match assoc name nc with Some n => n | None => name end.

(* ---- records ----------------------------------------------------------------------------- *)

(* DnsEntry::new: class & CLASS_MASK, cache_flush = class & CLASS_CACHE_FLUSH != 0 *)
Definition mk_record (name : bytes) (ty class ttl : N) (d : rdata) : rr :=
  mkRR name ty (N.land class class_mask) (negb (N.land class class_cache_flush =? 0)) ttl d.

Definition CLASS_IN_FLUSH : N := N.lor class_in class_cache_flush.

Definition ptr_record (name : bytes) (ttl : N) (alias : bytes) : rr :=
  mk_record name TY_PTR class_in ttl (RPtr alias).
Definition srv_record (name : bytes) (s : service) (host : bytes) : rr :=
  mk_record name TY_SRV CLASS_IN_FLUSH (s_host_ttl s) (RSrv (s_priority s) (s_weight s) (s_port s) host).
Definition txt_record (name : bytes) (s : service) : rr :=
  mk_record name TY_TXT CLASS_IN_FLUSH (s_other_ttl s) (RTxt (s_txt s)).
Definition addr_record (name : bytes) (s : service) (a : ip) : rr :=
  mk_record name (addr_rr_type a) CLASS_IN_FLUSH (s_host_ttl s) (RAddr (ip_octets a)).

(* DnsRecordExt::matches: same record struct, equal rdata, equal DnsEntry (name compared as
   a string, type, class, cache-flush bit).  For address records the interface ids are equal
   in handle_query (both are the receiving interface), so they do not appear here. *)
Definition rr_matches (a b : rr) : bool :=
  beq (r_name a) (r_name b) && (r_type a =? r_type b) && (r_class a =? r_class b)
  && Bool.eqb (r_flush a) (r_flush b) && beq_rdata (r_data a) (r_data b).

(* suppressed_by_answer / suppressed_by: the cache-flush bit is not part of the identity of a
   record here (known answers are listed without it): if the bits differ the other record is
   compared with the bit set as in mine *)
Definition with_flush (r : rr) (f : bool) : rr :=
  mkRR (r_name r) (r_type r) (r_class r) f (r_ttl r) (r_data r).
Definition suppressed_by_answer (mine other : rr) : bool :=
  (if Bool.eqb (r_flush other) (r_flush mine) then rr_matches mine other
   else rr_matches mine (with_flush other (r_flush mine)))
  && suppress_ttl_test (r_ttl other) (r_ttl mine).
Definition suppressed_by (mine : rr) (m : msg) : bool :=
  existsb (suppressed_by_answer mine) (m_answers m).

(* ---- DnsOutgoing ------------------------------------------------------------------------- *)

Record outgoing : Type := mkOut {
  og_flags : N; og_id : N; og_multicast : bool;
  og_questions : list (bytes * N);
  og_answers : list rr;
  og_additionals : list rr;
  og_known : N }.

Definition og_new (flags : N) : outgoing := mkOut flags 0 outgoing_multicast_default [] [] [] 0.

Definition og_push_answer (og : outgoing) (r : rr) : outgoing :=
  mkOut (og_flags og) (og_id og) (og_multicast og) (og_questions og) (og_answers og ++ [r])
        (og_additionals og) (og_known og).
Definition add_additional (og : outgoing) (r : rr) : outgoing :=
  mkOut (og_flags og) (og_id og) (og_multicast og) (og_questions og) (og_answers og)
        (og_additionals og ++ [r]) (og_known og).
Definition og_count_known (og : outgoing) : outgoing :=
  mkOut (og_flags og) (og_id og) (og_multicast og) (og_questions og) (og_answers og)
        (og_additionals og) (og_known og + 1).
Definition add_question (og : outgoing) (name : bytes) (ty : N) : outgoing :=
  mkOut (og_flags og) (og_id og) (og_multicast og) (og_questions og ++ [(name, ty)]) (og_answers og)
        (og_additionals og) (og_known og).
Definition set_multicast (og : outgoing) (mc : bool) : outgoing :=
  mkOut (og_flags og) (og_id og) mc (og_questions og) (og_answers og) (og_additionals og) (og_known og).
Definition set_id (og : outgoing) (id : N) : outgoing :=
  mkOut (og_flags og) id (og_multicast og) (og_questions og) (og_answers og)
        (og_additionals og) (og_known og).

(* add_answer: (outgoing, was it added) *)
Definition add_answer (og : outgoing) (m : msg) (r : rr) : outgoing * bool :=
  if suppressed_by r m then (og_count_known og, false) else (og_push_answer og r, true).

Definition clear_flush (r : rr) : rr :=
  mkRR (r_name r) (r_type r) (r_class r) false (r_ttl r) (r_data r).
Definition clear_cache_flush_bits (og : outgoing) : outgoing :=
  mkOut (og_flags og) (og_id og) (og_multicast og) (og_questions og) (map clear_flush (og_answers og))
        (map clear_flush (og_additionals og)) (og_known og).

(* ---- add_answer_with_additionals --------------------------------------------------------- *)

Definition intf_addrs_of (is_ipv4 : bool) (s : service) (intf : myintf) : list ip :=
  if is_ipv4 then addrs_on_intf_v4 (s_addrs s) intf else addrs_on_intf_v6 (s_addrs s) intf.

Definition is_nil {A} (l : list A) : bool := match l with [] => true | _ => false end.

Definition add_answer_with_additionals (og : outgoing) (m : msg) (s : service) (intf : myintf)
    (nc : list (bytes * bytes)) (is_ipv4 : bool) : outgoing :=
  let intf_addrs := intf_addrs_of is_ipv4 s intf in
  if is_nil intf_addrs then og
  else
    let service_fullname := resolve_name nc (s_fullname s) in
    let hostname := resolve_name nc (s_host s) in
    let (og1, ptr_added) := add_answer og m (ptr_record (s_ty s) (s_other_ttl s) service_fullname) in
    if negb ptr_added then og1
    else
      let og2 := match s_sub s with
                 | Some sub => add_additional og1 (ptr_record sub (s_other_ttl s) service_fullname)
                 | None => og1
                 end in
      let og3 := add_additional og2 (srv_record service_fullname s hostname) in
      let og4 := add_additional og3 (txt_record service_fullname s) in
      fold_left (fun o a => add_additional o (addr_record hostname s a)) intf_addrs og4.

(* ---- add_answer_of_service --------------------------------------------------------------- *)

(* add_answer_of_service_as: `hostname` is the host name the service currently holds; the address
   additionals are added only if the SRV answer was added *)
Definition add_answer_of_service_as (og : outgoing) (m : msg) (entry_name : bytes) (s : service)
    (hostname : bytes) (qtype : N) (intf_addrs : list ip) : outgoing :=
  let '(og1, srv_added) :=
    if (qtype =? TY_SRV) || (qtype =? TY_ANY)
    then add_answer og m (srv_record entry_name s hostname) else (og, false) in
  let og2 := if (qtype =? TY_TXT) || (qtype =? TY_ANY)
             then fst (add_answer og1 m (txt_record entry_name s)) else og1 in
  if (qtype =? TY_SRV) && srv_added
  then fold_left (fun o a => add_additional o (addr_record hostname s a)) intf_addrs og2
  else og2.

(* ---- handle_query ------------------------------------------------------------------------ *)

Definition META_QUERY : bytes :=   (* "_services._dns-sd._udp.local." *)
  [95;115;101;114;118;105;99;101;115;46;95;100;110;115;45;115;100;46;95;117;100;112;46;108;111;99;97;108;46].

(* ServiceInfo::matches_type_or_subtype *)
Definition matches_type_or_subtype (s : service) (name : bytes) : bool :=
  beq name (s_ty s) || match s_sub s with Some v => beq v name | None => false end.

Record hq_input : Type := mkHq {
  h_services : list entry;
  h_name_changes : list (bytes * bytes);
  h_intf : myintf;
  h_msg : msg;
  h_src_ip : ip;
  h_src_port : N }.

(* the body of `for service in self.my_services.values()` of the PTR arm; `seen` is the set
   meta_types of the service types already listed for this question *)
Definition ptr_step (inp : hq_input) (q : question) (is_ipv4 : bool) (st : outgoing * list bytes) (e : entry)
    : outgoing * list bytes :=
  let '(og, seen) := st in
  if negb (is_announced (e_status e)) then st
  else
    let s := e_svc e in
    if matches_type_or_subtype s (q_name q)
    then (add_answer_with_additionals og (h_msg inp) s (h_intf inp) (h_name_changes inp) is_ipv4, seen)
    else if beq (q_name q) META_QUERY
    then if mem (s_ty s) seen then st
         else (fst (add_answer og (h_msg inp) (ptr_record (q_name q) (s_other_ttl s) (s_ty s))), s_ty s :: seen)
    else st.

(* the body of the loop of the A / AAAA / ANY arm *)
Definition addr_step (inp : hq_input) (q : question) (og : outgoing) (e : entry) : outgoing :=
  if negb (is_announced (e_status e)) then og
  else
    let s := e_svc e in
    let qtype := q_type q in
    let service_hostname := resolve_name (h_name_changes inp) (s_host s) in
    if beq (lower service_hostname) (lower (q_name q)) then
      let v4s := if (qtype =? TY_A) || (qtype =? TY_ANY) then addrs_on_intf_v4 (s_addrs s) (h_intf inp) else [] in
      let v6s := if (qtype =? TY_AAAA) || (qtype =? TY_ANY) then addrs_on_intf_v6 (s_addrs s) (h_intf inp) else [] in
      let intf_addrs := v4s ++ v6s in
      (* `continue` when empty for A / AAAA; for ANY the loop below does nothing *)
      fold_left (fun o a => fst (add_answer o (h_msg inp) (addr_record service_hostname s a))) intf_addrs og
    else og.

Definition question_step (inp : hq_input) (is_ipv4 : bool) (og : outgoing) (q : question) : outgoing :=
  let qtype := q_type q in
  if qtype =? TY_PTR then
    fst (fold_left (ptr_step inp q is_ipv4) (h_services inp) (og, []))
  else
    let og1 := if (qtype =? TY_A) || (qtype =? TY_AAAA) || (qtype =? TY_ANY)
               then fold_left (addr_step inp q) (h_services inp) og else og in
    let query_name := lower (q_name q) in
    match find (fun e => beq (lower (resolve_name (h_name_changes inp) (s_fullname (e_svc e)))) query_name)
               (h_services inp) with
    | None => og1
    | Some e =>
      if negb (is_announced (e_status e)) then og1
      else
        let intf_addrs := intf_addrs_of is_ipv4 (e_svc e) (h_intf inp) in
        if is_nil intf_addrs then og1
        else add_answer_of_service_as og1 (h_msg inp) (q_name q) (e_svc e)
               (resolve_name (h_name_changes inp) (s_host (e_svc e))) qtype intf_addrs
    end.

(* what leaves the daemon *)
Inductive dest : Type :=
| DMulticast (v4 : bool)              (* 224.0.0.251 / [ff02::fb], the daemon's port *)
| DUnicast (a : ip) (port : N).

Record packet : Type := mkPacket {
  p_dest : dest;
  p_if : N;                           (* interface the packet leaves on *)
  p_id : N; p_flags : N;
  p_questions : list (bytes * N);
  p_answers : list rr;
  p_additionals : list rr }.

(* to_packets: the id in the header *)
Definition wire_id (og : outgoing) : N := if og_multicast og then wire_id_when_multicast else og_id og.

(* send_dns_outgoing + send_dns_outgoing_impl for a response *)
Definition send_response (og : outgoing) (intf : myintf) (is_ipv4 : bool) (source : option ifaddr)
    (unicast_dest : option (ip * N)) : option packet :=
  let if_addr := match source with
                 | Some a => Some a
                 | None => find (fun x => Bool.eqb (is_v4 (ia_ip x)) is_ipv4) (mi_addrs intf)
                 end in
  match if_addr with
  | None => None
  | Some a =>
    if is_nil (og_answers og) && is_nil (og_additionals og) then None
    else Some (mkPacket
                 (match unicast_dest with
                  | Some (d, p) => DUnicast d p
                  | None => DMulticast (is_v4 (ia_ip a))
                  end)
                 (mi_index intf) (wire_id og) (og_flags og) (og_questions og) (og_answers og)
                 (og_additionals og))
  end.

Definition handle_query (inp : hq_input) : option packet :=
  let is_ipv4 := is_v4 (h_src_ip inp) in
  let out0 := og_new (N.lor flags_qr_response flags_aa) in
  let out := fold_left (question_step inp is_ipv4) (m_questions (h_msg inp)) out0 in
  if respond_guard (N.of_nat (length (og_answers out))) then
    let out1 := set_id out (m_id (h_msg inp)) in
    let matched_source := find (valid_ip_on_intf (h_src_ip inp)) (mi_addrs (h_intf inp)) in
    let unicast_dest := if legacy_unicast_test (h_src_port inp)
                        then Some (h_src_ip inp, h_src_port inp) else None in
    let out2 := match unicast_dest with
                | Some _ =>
                  set_multicast
                    (clear_cache_flush_bits
                       (fold_left (fun o q => add_question o (q_name q) (q_type q)) (m_questions (h_msg inp)) out1))
                    legacy_multicast_flag
                | None => out1
                end in
    send_response out2 (h_intf inp) is_ipv4 matched_source unicast_dest
  else None.

(* handle_read: lookup of the receiving interface, drop of a family without address on it,
   decoding, dispatch of queries.  `lookup` gives my_intfs.get(if_index). *)
Definition family_enabled (intf : myintf) (is_ipv4 : bool) : bool :=
  if is_ipv4 then has_v4 intf else has_v6 intf.

(* handle_read after the interface lookup: a datagram of a family that has no address on the
   interface is dropped; a datagram that does not decode is dropped; only queries get here *)
Definition handle_datagram (services : list entry) (nc : list (bytes * bytes)) (intf : myintf)
    (src_ip : ip) (src_port : N) (d : bytes) : option packet :=
  if negb (family_enabled intf (is_v4 src_ip)) then None
  else match decode d with
       | Ok m => if N.land (m_flags m) 32768 =? 0
                 then handle_query (mkHq services nc intf m src_ip src_port)
                 else None
       | _ => None
       end.
