(* Wire-level data: questions, resource records, messages (src/dns_parser.rs).
   Names are the crate's presentation: UTF-8 bytes of the dotted string ("a.b.local."). *)
From Coq Require Import List NArith Bool.
From Mdns Require Import Bytes.
Import ListNotations.
Open Scope N_scope.

Definition TY_A := 1.
Definition TY_CNAME := 5.
Definition TY_PTR := 12.
Definition TY_HINFO := 13.
Definition TY_TXT := 16.
Definition TY_AAAA := 28.
Definition TY_SRV := 33.
Definition TY_NSEC := 47.
Definition TY_ANY := 255.

(* RRType::from_u16 *)
Definition known_type (t : N) : bool :=
  (t =? 1) || (t =? 5) || (t =? 12) || (t =? 13) || (t =? 16) || (t =? 28) || (t =? 33)
  || (t =? 47) || (t =? 255).

Inductive rdata : Type :=
| RAddr (octets : bytes)                       (* 4 octets = A, 16 octets = AAAA *)
| RPtr (alias : bytes)                         (* PTR and CNAME *)
| RSrv (priority weight port : N) (host : bytes)
| RTxt (text : bytes)
| RHinfo (cpu os : bytes)
| RNsec (next : bytes) (bitmap : bytes).

Record rr : Type := mkRR {
  r_name : bytes;      (* owner name as decoded / as given to the constructor *)
  r_type : N;
  r_class : N;         (* class & 0x7FFF *)
  r_flush : bool;      (* class & 0x8000 *)
  r_ttl : N;
  r_data : rdata }.

Record question : Type := mkQ { q_name : bytes; q_type : N; q_class : N; q_flush : bool }.

Record msg : Type := mkMsg {
  m_id : N; m_flags : N;
  m_nq : N; m_nan : N; m_nns : N; m_nar : N;
  m_questions : list question;
  m_answers : list rr; m_authorities : list rr; m_additionals : list rr }.

Definition beq_rdata (a b : rdata) : bool :=
  match a, b with
  | RAddr x, RAddr y => beq x y
  | RPtr x, RPtr y => beq x y
  | RSrv p w o h, RSrv p' w' o' h' => (p =? p') && (w =? w') && (o =? o') && beq h h'
  | RTxt x, RTxt y => beq x y
  | RHinfo c o, RHinfo c' o' => beq c c' && beq o o'
  | RNsec n b, RNsec n' b' => beq n n' && beq b b'
  | _, _ => false
  end.
