(* C20: model of everything in the daemon whose size `get_metrics` reports for a querier -
   the record cache (PTR / SRV / TXT / address / NSEC buckets, subtype map), the timer heap,
   the retransmission list, the pending/resolved sets - as the code is
   (src/dns_cache.rs, src/service_daemon.rs: handle_response, resolve_updated_instances,
   exec_command_browse / _stop_browse / _resolve / _resolve_hostname / _stop_resolve_hostname,
   refresh_active_services, the run loop).  Events and packet contents are not modelled here
   (C03-C05, C17 do that); only what decides the sizes.

   Domain: histories of browse / stop_browse / resolve_hostname / stop_resolve_hostname /
   get_metrics / set_ip_check_interval calls and delivered responses; no registration, no
   verify, static interface table, event channels never full.

   The acceptance rule of the cache is a parameter `policy`:
     PCode  = the code's rule: a record is cached when the message is "for us" or its bucket
              is not empty;
     PNeed  = the code's rule AND the record is needed by an active search at arrival
              (the rule the property text asks for).  Running the same machine under PNeed
              gives the sizes the property allows ("what active searches need").
   Definitions only. *)
From Coq Require Import List NArith Bool.
From Mdns Require Import Bytes ParamsHostres HostresBase.
Import ListNotations.
Open Scope N_scope.

(* ---- cached record --------------------------------------------------------------------------- *)
Record crec := mkC {
  c_ty : N;
  c_name : name;        (* owner as spelled *)
  c_class : N;
  c_flush : bool;
  c_data : bytes;       (* RDATA identity: PTR alias; SRV priority/weight/port + host; TXT text;
                           NSEC next name + bitmap; address bytes *)
  c_target : name;      (* PTR: alias; SRV: host; otherwise [] *)
  c_if : N;             (* interface the record arrived on *)
  c_life : life }.

Definition c_set_life (l : life) (r : crec) : crec :=
  mkC (c_ty r) (c_name r) (c_class r) (c_flush r) (c_data r) (c_target r) (c_if r) l.

(* DnsRecordExt::matches of the five cacheable kinds: DnsEntry (name, type, class, cache-flush)
   and RDATA equal; address records also compare the interface *)
Definition crec_matches (r x : crec) : bool :=
  (c_ty r =? c_ty x) && beq (c_name r) (c_name x) && (c_class r =? c_class x)
  && Bool.eqb (c_flush r) (c_flush x) && beq (c_data r) (c_data x)
  && (negb (is_addr_ty (c_ty x)) || (c_if r =? c_if x)).

Definition amap := list (name * list crec).   (* HashMap<String, Vec<DnsRecordIntf>>; buckets may be empty *)

Record bcache := mkBC {
  bc_ptr : amap; bc_srv : amap; bc_txt : amap; bc_addr : amap; bc_nsec : amap;
  bc_sub : list (name * name) }.               (* subtype: instance -> subtype domain *)
Definition bc0 : bcache := mkBC [] [] [] [] [] [].

Definition bucket (m : amap) (k : name) : list crec := match aget k m with Some b => b | None => [] end.
Definition count (m : amap) : N := N.of_nat (length (flat_map snd m)).

(* ---- inputs ---------------------------------------------------------------------------------- *)
Record brec := mkBR {
  br_ans : bool; br_ty : N; br_name : name; br_class : N; br_flush : bool; br_ttl : N;
  br_data : bytes; br_target : name }.
Record bmsg := mkBM { bm_if : N; bm_recs : list brec }.

Inductive bcall :=
| BBrowse (ty : name)
| BStopBrowse (ty : name)
| BResolveHost (host : name) (timeout : option N)
| BStopHost (host : name)
| BMetrics
| BSetIpInterval (ms : N).

Record biter := mkBI { bi_now : N; bi_calls : list bcall; bi_msgs : list bmsg }.

(* one get_metrics answer: cached-ptr, -srv, -txt, -addr, -nsec, -subtype, timer; and two
   quantities of the state at that moment that get_metrics does not report but the checker
   needs: the number of instances that a cached PTR record with a subtype owner points to, and
   the number of timers that state justifies (`timer_allow` below) *)
Record sample := mkSample {
  m_ptr : N; m_srv : N; m_txt : N; m_addr : N; m_nsec : N; m_sub : N; m_timer : N;
  m_sub_live : N; m_timer_allow : N }.

(* ---- state ------------------------------------------------------------------------------------ *)
Inductive rcmd :=
| RBrowse (ty : name) (delay : N)
| RResolve (inst : name) (try_count : N)
| RHost (host : name) (delay : N).

Record bst := mkB {
  b_cache : bcache;
  b_queriers : list name;                       (* service_queriers keys *)
  b_resolvers : list (name * option N);         (* hostname_resolvers: lower name -> deadline *)
  b_retr : list (N * rcmd);
  b_timers : list N;                            (* BinaryHeap as a multiset *)
  b_pending : list name;                        (* pending_resolves *)
  b_resolved : list name;                       (* resolved *)
  b_next_ip : N;
  b_ip_interval : N;
  (* bookkeeping no behaviour depends on: records the code's rule stored although no active
     search needed them on arrival (always 0 under PNeed) *)
  b_excess : N }.

(* Zeroconf::new + the start of run(): the first IP check is armed at t0 + 5 s *)
Definition b_init (t0 : N) : bst :=
  mkB bc0 [] [] [] [t0 + hp_ip_check_ms_default] [] [] (t0 + hp_ip_check_ms_default) hp_ip_check_ms_default 0.

Inductive policy := PCode | PNeed.

(* ---- name helpers ----------------------------------------------------------------------------- *)
Fixpoint is_prefix (p l : bytes) : bool :=
  match p, l with
  | [], _ => true
  | _ :: _, [] => false
  | x :: p', y :: l' => (x =? y) && is_prefix p' l'
  end.
Fixpoint contains_seq (p l : bytes) : bool :=
  is_prefix p l || match l with [] => false | _ :: t => contains_seq p t end.
Definition sub_marker : bytes := [46; 95; 115; 117; 98; 46].        (* "._sub." *)
(* split_sub_domain(name).1.is_some() *)
Definition has_subtype (n : name) : bool := contains_seq sub_marker n.
(* valid_instance_name: name.split('.').count() >= 5 *)
Definition valid_instance_name (n : name) : bool :=
  4 <=? N.of_nat (length (filter (N.eqb 46) n)).

Definition mem_name (n : name) (l : list name) : bool := mem n l.
Definition add_name (n : name) (l : list name) : list name := if mem n l then l else l ++ [n].
Definition del_name (n : name) (l : list name) : list name := filter (fun x => negb (beq n x)) l.

(* ---- lookups used by the resolution logic ------------------------------------------------------- *)
Definition r_expired (now : N) (r : crec) : bool := life_expired now (c_life r).
Definition r_soon (now : N) (r : crec) : bool := life_expires_soon now (c_life r).

(* resolve_service_from_cache(..).is_valid(): a host from the first SRV that does not expire
   soon, and at least one address of that host that does not expire soon *)
Definition srv_host (now : N) (c : bcache) (inst : name) : name :=
  match find (fun r => negb (r_soon now r)) (bucket (bc_srv c) inst) with
  | Some r => c_target r
  | None => []
  end.
Definition inst_valid (now : N) (c : bcache) (inst : name) : bool :=
  match srv_host now c inst with
  | [] => false
  | h => existsb (fun r => negb (r_soon now r)) (bucket (bc_addr c) (lower h))
  end.

(* get_instances_on_host: SRV buckets whose first record names `host` (compared in lower case) *)
Definition instances_on_host (c : bcache) (host : name) : list name :=
  flat_map (fun kb => match snd kb with
                      | r :: _ => if beq (lower (c_target r)) (lower host) then [fst kb] else []
                      | [] => []
                      end) (bc_srv c).

(* ---- the need of a record at arrival (policy PNeed) ------------------------------------------ *)
(* instances a live PTR of a browsed type points to *)
Definition needed_instances (now : N) (q : list name) (c : bcache) : list name :=
  flat_map (fun ty => map c_target (filter (fun r => negb (r_expired now r)) (bucket (bc_ptr c) ty))) q.
(* hosts (lower case) named by the SRV records of those instances *)
Definition needed_hosts (now : N) (q : list name) (c : bcache) : list name :=
  flat_map (fun inst => map (fun r => lower (c_target r)) (bucket (bc_srv c) inst)) (needed_instances now q c).

Definition needed (now : N) (q : list name) (res : list (name * option N)) (c : bcache) (r : brec) : bool :=
  if br_ty r =? ty_PTR then mem (br_name r) q
  else if (br_ty r =? ty_SRV) || (br_ty r =? ty_TXT) then mem (br_name r) (needed_instances now q c)
  else if is_addr_ty (br_ty r) then ahas (lower (br_name r)) res || mem (lower (br_name r)) (needed_hosts now q c)
  else if br_ty r =? ty_NSEC then
    mem (br_name r) (needed_instances now q c) || ahas (lower (br_name r)) res
    || mem (lower (br_name r)) (needed_hosts now q c)
  else false.

(* ---- add_or_update -------------------------------------------------------------------------------- *)
Definition crec_of (now ifx : N) (r : brec) : crec :=
  mkC (br_ty r) (br_name r) (br_class r) (br_flush r) (br_data r) (br_target r) ifx
      (life_new now (wire_ttl (br_ttl r))).

Definition should_flush (now : N) (x r : crec) : bool :=
  (c_class x =? c_class r) && (c_ty x =? c_ty r)
  && hp_flush_old_enough now (l_created (c_life r))
  && hp_flush_far_enough now (l_expires (c_life r))
  && (negb (is_addr_ty (c_ty x)) || (c_if r =? c_if x)).

Definition flush_rec (now : N) (x r : crec) : crec :=
  if should_flush now x r then c_set_life (life_set_expire (hp_flush_new_expire now) (c_life r)) r else r.

(* first matching record: reset_ttl; the flag says "returned as new": a record on its way out
   (TTL <= 1) that is announced again with TTL > 1 *)
Fixpoint update_rec (now : N) (x : crec) (b : list crec) : option (list crec * crec * bool) :=
  match b with
  | [] => None
  | r :: t =>
    if crec_matches r x then
      let r' := c_set_life (life_reset now (l_ttl (c_life x))) r in
      Some (r' :: t, r', hp_revived (l_ttl (c_life r)) (l_ttl (c_life x)))
    else match update_rec now x t with
         | Some (t', u, rv) => Some (r :: t', u, rv)
         | None => None
         end
  end.

(* which map a record type lives in *)
Inductive kind := KPtr | KSrv | KTxt | KAddr | KNsec | KNone.
Definition kind_of (ty : N) : kind :=
  if ty =? ty_PTR then KPtr else if ty =? ty_SRV then KSrv else if ty =? ty_TXT then KTxt
  else if is_addr_ty ty then KAddr else if ty =? ty_NSEC then KNsec else KNone.

Definition get_map (k : kind) (c : bcache) : amap :=
  match k with KPtr => bc_ptr c | KSrv => bc_srv c | KTxt => bc_txt c | KAddr => bc_addr c
             | KNsec => bc_nsec c | KNone => [] end.
Definition set_map (k : kind) (m : amap) (c : bcache) : bcache :=
  match k with
  | KPtr => mkBC m (bc_srv c) (bc_txt c) (bc_addr c) (bc_nsec c) (bc_sub c)
  | KSrv => mkBC (bc_ptr c) m (bc_txt c) (bc_addr c) (bc_nsec c) (bc_sub c)
  | KTxt => mkBC (bc_ptr c) (bc_srv c) m (bc_addr c) (bc_nsec c) (bc_sub c)
  | KAddr => mkBC (bc_ptr c) (bc_srv c) (bc_txt c) m (bc_nsec c) (bc_sub c)
  | KNsec => mkBC (bc_ptr c) (bc_srv c) (bc_txt c) (bc_addr c) m (bc_sub c)
  | KNone => c
  end.
Definition set_sub (s : list (name * name)) (c : bcache) : bcache :=
  mkBC (bc_ptr c) (bc_srv c) (bc_txt c) (bc_addr c) (bc_nsec c) s.

(* result of add_or_update: the cache, the timers pushed for flushed records, and
   Some (record, is_new) when the record was stored or refreshed *)
Definition aou_kind (k : kind) (now : N) (fu ok : bool) (x : crec) (c : bcache)
  : bcache * list N * option (crec * bool) :=
  (* the reverse subtype map: only for PTR of a message that is for us *)
  let c1 := if (c_ty x =? ty_PTR) && fu && ok && has_subtype (c_name x) && negb (ahas (c_target x) (bc_sub c))
            then set_sub (bc_sub c ++ [(c_target x, c_name x)]) c else c in
  let key := match k with KAddr => lower (c_name x) | _ => c_name x end in
  let m := get_map k c1 in
  let b := bucket m key in
  let refused := match b with [] => negb fu | _ => false end || negb ok in
  if refused then (set_map k (if ahas key m then m else m ++ [(key, [])]) c1, [], None)
  else
    let b1 := if c_flush x then map (flush_rec now x) b else b in
    let ft := if c_flush x then map (fun _ => hp_flush_new_expire now) (filter (should_flush now x) b) else [] in
    match update_rec now x b1 with
    | Some (b2, u, rv) => (set_map k (aset key b2 m) c1, ft, Some (u, rv))
    | None => (set_map k (aset key (x :: b1) m) c1, ft, Some (x, true))
    end.

Definition add_or_update (now : N) (fu ok : bool) (x : crec) (c : bcache)
  : bcache * list N * option (crec * bool) :=
  match kind_of (c_ty x) with
  | KNone => (c, [], None)
  | k => aou_kind k now fu ok x c
  end.

(* ---- resolve_updated_instances / add_pending_resolve ------------------------------------------- *)
Definition add_timer (t : N) (s : bst) : bst :=
  mkB (b_cache s) (b_queriers s) (b_resolvers s) (b_retr s) (b_timers s ++ [t]) (b_pending s) (b_resolved s)
      (b_next_ip s) (b_ip_interval s) (b_excess s).
Definition add_retr (t : N) (c : rcmd) (s : bst) : bst :=
  mkB (b_cache s) (b_queriers s) (b_resolvers s) (b_retr s ++ [(t, c)]) (b_timers s ++ [t]) (b_pending s)
      (b_resolved s) (b_next_ip s) (b_ip_interval s) (b_excess s).
Definition set_cache (c : bcache) (s : bst) : bst :=
  mkB c (b_queriers s) (b_resolvers s) (b_retr s) (b_timers s) (b_pending s) (b_resolved s)
      (b_next_ip s) (b_ip_interval s) (b_excess s).
Definition set_sets (p r : list name) (s : bst) : bst :=
  mkB (b_cache s) (b_queriers s) (b_resolvers s) (b_retr s) (b_timers s) p r (b_next_ip s) (b_ip_interval s) (b_excess s).

Definition add_pending (now : N) (s : bst) (inst : name) : bst :=
  if mem inst (b_pending s) then s
  else set_sets (b_pending s ++ [inst]) (b_resolved s)
                (add_retr (now + hp_resolve_wait_ms) (RResolve inst 1) s).

(* the browsed PTR records that do not expire soon and point to an updated instance *)
Definition touched (now : N) (s : bst) (updated : list name) : list name :=
  flat_map (fun kb => if mem (fst kb) (b_queriers s)
                      then map c_target (filter (fun r => negb (r_soon now r) && mem (c_target r) updated) (snd kb))
                      else []) (bc_ptr (b_cache s)).

(* `unresolve`: resolve_updated_instances also takes invalid instances out of `resolved`
   (query_cache_for_service does not) *)
Definition settle (unresolve : bool) (now : N) (s : bst) (insts : list name) : bst :=
  let c := b_cache s in
  let good := filter (inst_valid now c) insts in
  let bad := filter (fun i => negb (inst_valid now c i)) insts in
  (* invalid: leaves `resolved` at once; valid: leaves `pending`, joins `resolved` *)
  let resolved1 := if unresolve then fold_left (fun acc i => del_name i acc) bad (b_resolved s)
                   else b_resolved s in
  let pending1 := fold_left (fun acc i => del_name i acc) good (b_pending s) in
  let resolved2 := fold_left (fun acc i => add_name i acc) good resolved1 in
  fold_left (add_pending now) bad (set_sets pending1 resolved2 s).

Definition resolve_updated (now : N) (s : bst) (updated : list name) : bst :=
  match updated with
  | [] => s
  | _ => settle true now s (touched now s updated)
  end.

(* ---- handle_response ---------------------------------------------------------------------------- *)
Fixpoint for_us_scan (q : list name) (res : list (name * option N)) (answers : list brec) (acc : bool) : bool :=
  match answers with
  | [] => acc
  | r :: t =>
    if br_ty r =? ty_PTR then (if mem (br_name r) q then true else for_us_scan q res t false)
    else if is_addr_ty (br_ty r) then (if ahas (lower (br_name r)) res then true else for_us_scan q res t acc)
    else for_us_scan q res t acc
  end.
Definition is_for_us (s : bst) (m : bmsg) : bool :=
  for_us_scan (b_queriers s) (b_resolvers s) (filter br_ans (bm_recs m)) true.

(* one record of a response: cache, timers, the change it causes (type, name), and the count of
   records stored although not needed *)
Definition absorb (pol : policy) (now : N) (fu : bool) (ifx : N) (q : list name) (res : list (name * option N))
           (acc : bcache * list N * list (N * name) * N) (r : brec) : bcache * list N * list (N * name) * N :=
  let '(c, tm, ch, ex) := acc in
  let nd := needed now q res c r in
  let ok := match pol with PCode => true | PNeed => nd end in
  let '(c', ft, result) := add_or_update now fu ok (crec_of now ifx r) c in
  match result with
  | None => (c', tm ++ ft, ch, ex)
  | Some (u, false) => (c', tm ++ ft ++ [l_expires (c_life u); l_refresh (c_life u)], ch, if nd then ex else ex + 1)
  | Some (u, true) =>
    let ex' := if nd then ex else ex + 1 in
    let base := [l_expires (c_life u); l_refresh (c_life u)] in
    if (c_ty u =? ty_PTR) && hp_ptr_ttl_ok (l_ttl (c_life u)) then
      (c', tm ++ ft ++ base ++ (if mem (c_name u) q then [l_refresh (c_life u)] else []),
       ch ++ [(c_ty u, c_target u)], ex')
    else (c', tm ++ ft ++ base, ch ++ [(c_ty u, c_name u)], ex')
  end.

Definition updated_of (c : bcache) (ch : list (N * name)) : list name :=
  flat_map (fun x => if (fst x =? ty_PTR) || (fst x =? ty_SRV) || (fst x =? ty_TXT) then [snd x]
                     else if is_addr_ty (fst x) then instances_on_host c (snd x) else []) ch.

Definition handle_response (pol : policy) (now : N) (s : bst) (m : bmsg) : bst :=
  let fu := is_for_us s m in
  let '(c, tm, ch, ex) := fold_left (absorb pol now fu (bm_if m) (b_queriers s) (b_resolvers s)) (bm_recs m)
                                    (b_cache s, [], [], b_excess s) in
  let s1 := mkB c (b_queriers s) (b_resolvers s) (b_retr s) (b_timers s ++ tm) (b_pending s) (b_resolved s)
                (b_next_ip s) (b_ip_interval s) ex in
  resolve_updated now s1 (updated_of c ch).

(* ---- commands ------------------------------------------------------------------------------------- *)
Fixpoint dedup_names (l : list name) : list name :=
  match l with [] => [] | x :: t => if mem x t then dedup_names t else x :: dedup_names t end.

(* instances that cached PTR records owned by a subtype domain point to *)
Definition sub_live (c : bcache) : N :=
  N.of_nat (length (dedup_names (map c_target (filter (fun r => has_subtype (c_name r)) (flat_map snd (bc_ptr c)))))).

Definition entries_total (c : bcache) : N :=
  count (bc_ptr c) + count (bc_srv c) + count (bc_txt c) + count (bc_addr c) + count (bc_nsec c).

(* nothing is searched, queued or cached *)
Definition quiet (s : bst) : bool :=
  match b_queriers s, b_resolvers s, b_retr s with
  | [], [], [] => entries_total (b_cache s) =? 0
  | _, _, _ => false
  end.

(* timers a state justifies: in a quiet state only the pending interface check; otherwise a
   constant plus three per unit of need (cached record, active search, queued retransmission) *)
Definition timer_allow (s : bst) : N :=
  if quiet s then (if b_next_ip s =? 0 then 0 else 1)
  else 2 + 3 * (entries_total (b_cache s) + N.of_nat (length (b_queriers s))
                + N.of_nat (length (b_resolvers s)) + N.of_nat (length (b_retr s))).

Definition metrics (s : bst) : sample :=
  let c := b_cache s in
  mkSample (count (bc_ptr c)) (count (bc_srv c)) (count (bc_txt c)) (count (bc_addr c)) (count (bc_nsec c))
           (N.of_nat (length (bc_sub c))) (N.of_nat (length (b_timers s)))
           (sub_live c) (timer_allow s).

Definition is_browse_of (ty : name) (x : N * rcmd) : bool :=
  match snd x with RBrowse t _ => beq t ty | _ => false end.
Definition is_host_of (k : name) (x : N * rcmd) : bool :=
  match snd x with RHost h _ => beq (lower h) k | _ => false end.

(* the query + next retransmission part of exec_command_browse *)
Definition browse_send (now : N) (ty : name) (delay : N) (s : bst) : bst :=
  add_retr (now + delay * hp_browse_delay_unit_ms)
           (RBrowse ty (N.min (hp_browse_next_delay delay hp_browse_max_delay) hp_browse_max_delay)) s.

Definition host_send (now : N) (host : name) (delay : N) (s : bst) : bst :=
  let t := now + delay * hp_host_delay_unit_ms in
  let ok := match aget (lower host) (b_resolvers s) with
            | Some (Some d) => hp_host_rearm t d
            | _ => true
            end in
  if ok then add_retr t (RHost host (N.min (hp_host_next_delay delay hp_host_max_delay) hp_host_max_delay)) s
  else s.

(* DnsCache::remove_service_type *)
Definition remove_service_type (ty : name) (c : bcache) : bcache :=
  match aget ty (bc_ptr c) with
  | None => c
  | Some ptrs =>
    let insts := map c_target ptrs in
    let hosts := flat_map (fun i => map (fun r => lower (c_target r)) (bucket (bc_srv c) i)) insts in
    let srv' := fold_left (fun m i => adel i m) insts (bc_srv c) in
    let txt' := fold_left (fun m i => adel i m) insts (bc_txt c) in
    let still (h : name) := existsb (fun r => beq (lower (c_target r)) h) (flat_map snd srv') in
    let addr' := fold_left (fun m h => if still h then m else adel h m) hosts (bc_addr c) in
    mkBC (adel ty (bc_ptr c)) srv' txt' addr' (bc_nsec c) (bc_sub c)
  end.

Definition exec_call (now : N) (acc : bst * list sample) (c : bcall) : bst * list sample :=
  let '(s, out) := acc in
  match c with
  | BBrowse ty =>
    let s1 := mkB (b_cache s) (add_name ty (b_queriers s)) (b_resolvers s)
                  (filter (fun x => negb (is_browse_of ty x)) (b_retr s)) (b_timers s) (b_pending s)
                  (b_resolved s) (b_next_ip s) (b_ip_interval s) (b_excess s) in
    (* query_cache_for_service *)
    let insts := map c_target (filter (fun r => negb (r_soon now r)) (bucket (bc_ptr (b_cache s1)) ty)) in
    (browse_send now ty hp_browse_first_delay (settle false now s1 insts), out)
  | BStopBrowse ty =>
    if mem ty (b_queriers s) then
      (mkB (remove_service_type ty (b_cache s)) (del_name ty (b_queriers s)) (b_resolvers s)
           (filter (fun x => negb (is_browse_of ty x)) (b_retr s)) (b_timers s) (b_pending s) (b_resolved s)
           (b_next_ip s) (b_ip_interval s) (b_excess s), out)
    else (s, out)
  | BResolveHost host timeout =>
    let k := lower host in
    let dl := option_map (sat_add now) timeout in
    let s1 := mkB (b_cache s) (b_queriers s) (aset k dl (b_resolvers s))
                  (filter (fun x => negb (is_host_of k x)) (b_retr s))
                  (b_timers s ++ match dl with Some d => [d] | None => [] end)
                  (b_pending s) (b_resolved s) (b_next_ip s) (b_ip_interval s) (b_excess s) in
    (host_send now host hp_host_first_delay s1, out)
  | BStopHost host =>
    let k := lower host in
    if ahas k (b_resolvers s) then
      (mkB (b_cache s) (b_queriers s) (adel k (b_resolvers s))
           (filter (fun x => negb (is_host_of k x)) (b_retr s)) (b_timers s) (b_pending s) (b_resolved s)
           (b_next_ip s) (b_ip_interval s) (b_excess s), out)
    else (s, out)
  | BMetrics => (s, out ++ [metrics s])
  | BSetIpInterval ms =>
    (mkB (b_cache s) (b_queriers s) (b_resolvers s) (b_retr s) (b_timers s) (b_pending s) (b_resolved s)
         (b_next_ip s) ms (b_excess s), out)
  end.

(* ---- due retransmissions ------------------------------------------------------------------------- *)
(* query_unresolved: is a query sent for the instance? *)
Definition query_unresolved (c : bcache) (inst : name) : bool :=
  if valid_instance_name inst then
    match aget inst (bc_srv c) with
    | Some recs => existsb (fun r => negb (ahas (lower (c_target r)) (bc_addr c))) recs
    | None => true
    end
  else false.

(* DnsCache::has_ptr_to: any cached PTR record, under any key, whose alias is the instance *)
Definition has_ptr_to (c : bcache) (inst : name) : bool :=
  existsb (fun r => beq (c_target r) inst) (flat_map snd (bc_ptr c)).

Definition exec_rerun (now : N) (s : bst) (x : N * rcmd) : bst :=
  match snd x with
  | RBrowse ty delay => browse_send now ty delay s
  | RHost host delay =>
    (* a retransmission whose search was stopped or timed out meanwhile does not run *)
    if ahas (lower host) (b_resolvers s) then host_send now host delay s else s
  | RResolve inst n =>
    (* follow-up queries only while some cached PTR record still points to the instance *)
    if has_ptr_to (b_cache s) inst && query_unresolved (b_cache s) inst && hp_resolve_retry n hp_resolve_max_try
    then add_retr (now + hp_resolve_wait_ms) (RResolve inst (n + 1)) s
    else (* the follow-up queries are over: the instance leaves pending_resolves *)
      set_sets (del_name inst (b_pending s)) (b_resolved s) s
  end.

Definition do_reruns (now : N) (s : bst) : bst :=
  let due := filter (fun x => hp_rerun_due now (fst x)) (b_retr s) in
  let keep := filter (fun x => negb (hp_rerun_due now (fst x))) (b_retr s) in
  fold_left (exec_rerun now)
            due (mkB (b_cache s) (b_queriers s) (b_resolvers s) keep (b_timers s) (b_pending s) (b_resolved s)
                     (b_next_ip s) (b_ip_interval s) (b_excess s)).

(* ---- refresh ------------------------------------------------------------------------------------- *)
(* updated_refresh_time over a bucket: records advanced, the new refresh times *)
Definition refresh_bucket (now : N) (b : list crec) : list crec * list N :=
  (map (fun r => match life_refresh_maybe now (c_life r) with Some l => c_set_life l r | None => r end) b,
   flat_map (fun r => match life_refresh_maybe now (c_life r) with Some l => [l_refresh l] | None => [] end) b).

Definition refresh_key (now : N) (acc : amap * list N) (k : name) : amap * list N :=
  match aget k (fst acc) with
  | None => acc
  | Some b => let '(b', t) := refresh_bucket now b in (aset k b' (fst acc), snd acc ++ t)
  end.

Fixpoint dedup_N (l : list N) : list N :=
  match l with [] => [] | x :: t => if existsb (N.eqb x) t then dedup_N t else x :: dedup_N t end.

(* refresh_active_services for one browsed type *)
Definition refresh_type (now : N) (acc : bcache * list N) (ty : name) : bcache * list N :=
  let '(c, tm) := acc in
  (* refresh_due_ptr *)
  let '(ptr1, t1) := refresh_key now (bc_ptr c, []) ty in
  let c1 := set_map KPtr ptr1 c in
  let insts := map c_target (filter (fun r => negb (r_expired now r)) (bucket ptr1 ty)) in
  (* refresh_due_srv_txt: per instance (with repetition), SRV then TXT *)
  let '(srv2, txt2, t2) :=
      fold_left (fun a i => let '(sm, tmx, t) := a in
                            let '(sm', tsrv) := refresh_key now (sm, []) i in
                            let '(tm', ttxt) := refresh_key now (tmx, []) i in
                            (sm', tm', t ++ tsrv ++ ttxt))
                insts (bc_srv c1, bc_txt c1, []) in
  (* refresh_due_hosts: the set of host spellings of all SRV records of the instances *)
  let hosts := dedup_names (flat_map (fun i => map c_target (bucket srv2 i)) insts) in
  let '(addr3, t3) := fold_left (fun a h => refresh_key now a (lower h)) hosts (bc_addr c1, []) in
  (mkBC ptr1 srv2 txt2 addr3 (bc_nsec c1) (bc_sub c1), tm ++ t1 ++ t2 ++ t3).

(* hostname resolvers: one refresh at 80 %, no timer *)
Definition refresh_host_bucket (now : N) (b : list crec) : list crec :=
  map (fun r => if negb (life_expired now (c_life r)) && life_refresh_due now (c_life r)
                then c_set_life (life_no_more (c_life r)) r else r) b.

Definition do_refresh (now : N) (s : bst) : bst :=
  let '(c1, tm) := fold_left (refresh_type now) (b_queriers s) (b_cache s, []) in
  let addr2 := fold_left (fun m kr => match aget (fst kr) m with
                                      | Some b => aset (fst kr) (refresh_host_bucket now b) m
                                      | None => m
                                      end) (b_resolvers s) (bc_addr c1) in
  mkB (set_map KAddr addr2 c1) (b_queriers s) (b_resolvers s) (b_retr s) (b_timers s ++ dedup_N tm)
      (b_pending s) (b_resolved s) (b_next_ip s) (b_ip_interval s) (b_excess s).

(* ---- eviction -------------------------------------------------------------------------------------- *)
Definition live_only (now : N) (m : amap) : amap :=
  map (fun kb => (fst kb, filter (fun r => negb (r_expired now r)) (snd kb))) m.
Definition drop_empty (m : amap) : amap :=
  filter (fun kb => match snd kb with [] => false | _ => true end) m.

Definition do_evict (now : N) (s : bst) : bst :=
  let c := b_cache s in
  (* spellings of the address records that expire now *)
  let gone := dedup_names (map c_name (filter (r_expired now) (flat_map snd (bc_addr c)))) in
  let c' := mkBC (live_only now (bc_ptr c)) (drop_empty (live_only now (bc_srv c)))
                 (drop_empty (live_only now (bc_txt c))) (drop_empty (live_only now (bc_addr c)))
                 (drop_empty (live_only now (bc_nsec c))) (bc_sub c) in
  fold_left (fun s0 h => resolve_updated now s0 (instances_on_host (b_cache s0) h)) gone (set_cache c' s).

(* ---- the rest of the loop ---------------------------------------------------------------------- *)
Definition pop_timers (now : N) (s : bst) : bst :=
  mkB (b_cache s) (b_queriers s) (b_resolvers s) (b_retr s) (filter (fun v => hp_timer_kept v now) (b_timers s))
      (b_pending s) (b_resolved s) (b_next_ip s) (b_ip_interval s) (b_excess s).

Definition do_timeouts (now : N) (s : bst) : bst :=
  mkB (b_cache s) (b_queriers s)
      (filter (fun kr => match snd kr with Some d => negb (hp_deadline_reached now d) | None => true end) (b_resolvers s))
      (b_retr s) (b_timers s) (b_pending s) (b_resolved s) (b_next_ip s) (b_ip_interval s) (b_excess s).

Definition ip_check (now : N) (s : bst) : bst :=
  let set_next (n : N) (tm : list N) :=
      mkB (b_cache s) (b_queriers s) (b_resolvers s) (b_retr s) (b_timers s ++ tm) (b_pending s) (b_resolved s)
          n (b_ip_interval s) (b_excess s) in
  if b_ip_interval s =? 0 then set_next 0 []
  else if b_next_ip s =? 0 then set_next (now + b_ip_interval s) [now + b_ip_interval s]
  else if hp_ip_check_due now (b_next_ip s) then set_next (now + b_ip_interval s) [now + b_ip_interval s]
  else s.

Definition step (pol : policy) (s : bst) (i : biter) : bst * list sample :=
  let now := bi_now i in
  let s1 := fold_left (handle_response pol now) (bi_msgs i) s in
  let s2 := do_timeouts now (pop_timers now s1) in
  let '(s3, out) := fold_left (exec_call now) (bi_calls i) (s2, []) in
  let s4 := do_reruns now s3 in
  let s5 := do_refresh now s4 in
  let s6 := do_evict now s5 in
  (ip_check now s6, out).

Fixpoint run_from (pol : policy) (s : bst) (h : list biter) : list (list sample) :=
  match h with
  | [] => []
  | i :: t => let '(s', o) := step pol s i in o :: run_from pol s' t
  end.
Definition run (pol : policy) (t0 : N) (h : list biter) : list (list sample) := run_from pol (b_init t0) h.

Fixpoint state_after (pol : policy) (s : bst) (h : list biter) : bst :=
  match h with
  | [] => s
  | i :: t => state_after pol (fst (step pol s i)) t
  end.
