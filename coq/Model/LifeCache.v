(* The cache rules of C11 / C10 (src/dns_cache.rs: add_or_update, refresh_due_*, evict_expired_*,
   get_known_answers; src/service_daemon.rs: send_query_vec, refresh_active_services, the refresh
   and eviction part of `run`), restricted to what one browse and one hostname resolver see.

   The code is written ONCE, parametric in the record-level operations (`ops T`), and
   instantiated twice:
     - `trec_ops`  : the model of the code as it is (Model/Life.v, regenerated parameters);
     - `astate_ops`: the property text with literal numbers (Model/LifeSpec.v).
   Proofs/LifeCacheProofs.v shows that the two instances produce the same observations; the
   extracted `astate_ops` instance is the daemon-level monitor. *)
From Coq Require Import List NArith Bool.
From Mdns Require Import Res Bytes Rec ParamsLife Life LifeSpec.
Import ListNotations.
Open Scope N_scope.

Record ops (T : Type) : Type := mkOps {
  op_new : N -> N -> res T;                        (* DnsRecord::new at `now` with `ttl` *)
  op_expired : T -> N -> bool;                     (* is_expired *)
  op_refresh : T -> N -> res (T * bool);           (* refresh_maybe *)
  op_refresh_once : T -> N -> res (T * bool);      (* the hostname-resolver variant *)
  op_reset : T -> N -> N -> res T;                 (* reset_ttl(other.ttl, other.created) *)
  (* the cache-flush test of add_or_update: incoming identity, entry identity, entry, now *)
  op_should_flush : ident -> ident -> T -> N -> res bool;
  op_shorten : T -> N -> T * N;                    (* set_expire(now + 1000); the timer pushed *)
  op_ka_ttl : T -> N -> res (option N);            (* None: past half life; Some ttl: TTL written *)
  op_ttl : T -> N }.                               (* get_ttl *)
Arguments op_new {T}. Arguments op_expired {T}. Arguments op_refresh {T}.
Arguments op_refresh_once {T}. Arguments op_reset {T}. Arguments op_should_flush {T}.
Arguments op_shorten {T}. Arguments op_ka_ttl {T}. Arguments op_ttl {T}.

Definition ident_eqb (a b : ident) : bool :=
  entry_eq a b && beq_rdata (i_data a) (i_data b) && (i_if a =? i_if b).

Section Cache.
Variable T : Type.
Variable OP : ops T.

Record centry : Type := mkC { c_id : ident; c_t : T }.
Definition bucket := list centry.

(* ---- add_or_update on the Vec of one (name, type family) key ---- *)

Fixpoint flush_pass (inc : ident) (now : N) (b : bucket) : res (bucket * list N) :=
  match b with
  | [] => Ok ([], [])
  | e :: rest =>
      let? f := op_should_flush OP inc (c_id e) (c_t e) now in
      let? (rest', ts) := flush_pass inc now rest in
      if f then let (t', timer) := op_shorten OP (c_t e) now in Ok (mkC (c_id e) t' :: rest', timer :: ts)
      else Ok (e :: rest', ts)
  end.

(* `find(|r| r.record.matches(incoming))` + reset_ttl on the first match; the flag says whether
   the record was on its way out (TTL <= 1) and is revived with a TTL > 1 *)
Fixpoint reset_first (inc : ident) (ttl now : N) (b : bucket) : res (option (bucket * bool)) :=
  match b with
  | [] => Ok None
  | e :: rest =>
      if matches (c_id e) inc then
        let revived := revived_cond (op_ttl OP (c_t e)) ttl in
        let? t' := op_reset OP (c_t e) ttl now in Ok (Some (mkC (c_id e) t' :: rest, revived))
      else
        let? r := reset_first inc ttl now rest in
        Ok (match r with Some (rest', rv) => Some (e :: rest', rv) | None => None end)
  end.

Definition is_nil {A} (l : list A) : bool := match l with [] => true | _ => false end.

(* result: None = "not for us" (nothing stored); Some (bucket', flush timers, is_new) *)
Definition add_or_update (b : bucket) (inc : ident) (ttl now : N) (is_for_us : bool)
  : res (option (bucket * list N * bool)) :=
  let? tnew := op_new OP now ttl in       (* the incoming record was constructed when decoded *)
  if is_nil b && negb is_for_us then Ok None
  else
    let? (b1, ts) := (if i_flush inc then flush_pass inc now b else Ok (b, [])) in
    let? r := reset_first inc ttl now b1 in
    match r with
    | Some (b2, revived) => Ok (Some (b2, ts, revived))
    | None => Ok (Some (mkC inc tnew :: b1, ts, true))
    end.

(* ---- eviction, refresh, known answers on one Vec ---- *)

Definition evict (b : bucket) (now : N) : bucket * bucket :=      (* kept, removed *)
  (filter (fun e => negb (op_expired OP (c_t e) now)) b, filter (fun e => op_expired OP (c_t e) now) b).

(* updated_refresh_time on every record; true if some record was due *)
Fixpoint refresh_bucket (b : bucket) (now : N) : res (bucket * bool) :=
  match b with
  | [] => Ok ([], false)
  | e :: rest =>
      let? (t', d) := op_refresh OP (c_t e) now in
      let? (rest', any) := refresh_bucket rest now in
      Ok (mkC (c_id e) t' :: rest', d || any)
  end.

(* refresh_due_hostname_resolutions: the records that were due *)
Fixpoint refresh_once_bucket (b : bucket) (now : N) : res (bucket * list ident) :=
  match b with
  | [] => Ok ([], [])
  | e :: rest =>
      let? (t', d) := op_refresh_once OP (c_t e) now in
      let? (rest', due) := refresh_once_bucket rest now in
      Ok (mkC (c_id e) t' :: rest', if d then c_id e :: due else due)
  end.

(* get_known_answers + update_ttl of send_query_vec: (record, TTL written) in Vec order *)
Fixpoint known_answers (b : bucket) (now : N) : res (list (ident * N)) :=
  match b with
  | [] => Ok []
  | e :: rest =>
      let? k := (if ka_shared_filter (i_flush (c_id e)) then op_ka_ttl OP (c_t e) now else Ok None) in
      let? ks := known_answers rest now in
      Ok (match k with Some ttl => (c_id e, ttl) :: ks | None => ks end)
  end.

(* ---- the cache: Vecs keyed by (kind, name); kind 0 PTR, 1 SRV, 2 TXT, 3 A/AAAA ---- *)

Definition ckey := (N * bytes)%type.
Definition cache := list (ckey * bucket).

Definition key_eqb (a b : ckey) : bool := (fst a =? fst b) && beq (snd a) (snd b).

Definition kind_of_type (ty : N) : option N :=
  if ty =? TY_PTR then Some 0 else if ty =? TY_SRV then Some 1 else if ty =? TY_TXT then Some 2
  else if (ty =? TY_A) || (ty =? TY_AAAA) then Some 3 else None.

Definition key_of (id : ident) : option ckey :=
  match kind_of_type (i_type id) with
  | Some k => Some (k, if k =? 3 then lower (i_name id) else i_name id)
  | None => None
  end.

Fixpoint get_bucket (c : cache) (k : ckey) : bucket :=
  match c with
  | [] => []
  | (k', b) :: rest => if key_eqb k k' then b else get_bucket rest k
  end.

(* an emptied Vec is dropped (absent and empty are not distinguished here) *)
Fixpoint set_bucket (c : cache) (k : ckey) (b : bucket) : cache :=
  match c with
  | [] => if is_nil b then [] else [(k, b)]
  | (k', b') :: rest =>
      if key_eqb k k' then (if is_nil b then rest else (k', b) :: rest)
      else (k', b') :: set_bucket rest k b
  end.

Definition ingest_one (c : cache) (now : N) (rec : ident * N) : res cache :=
  let (id, wire_ttl) := rec in
  match key_of id with
  | None => Ok c
  | Some k =>
      let? r := add_or_update (get_bucket c k) id (stored_ttl true wire_ttl) now true in
      match r with
      | Some (b', _, _) => Ok (set_bucket c k b')
      | None => Ok c
      end
  end.

Fixpoint ingest (c : cache) (now : N) (recs : list (ident * N)) : res cache :=
  match recs with
  | [] => Ok c
  | r :: rest => let? c' := ingest_one c now r in ingest c' now rest
  end.

(* ---- observations ---- *)

(* a query: questions (name, type) and the answer section (known answers) *)
Record qdesc : Type := mkQD { qd_questions : list (bytes * N); qd_answers : list (ident * N) }.

Record iterobs : Type := mkIO {
  io_queries : list qdesc;
  io_removed_services : list bytes;       (* ServiceRemoved: instance names *)
  io_removed_addrs : list ident }.        (* AddressesRemoved of the resolved hostname *)

Definition alias_of (id : ident) : option bytes := match i_data id with RPtr a => Some a | _ => None end.
Definition host_of (id : ident) : option bytes := match i_data id with RSrv _ _ _ h => Some h | _ => None end.

Fixpoint dedup_bytes (l : list bytes) : list bytes :=
  match l with
  | [] => []
  | x :: rest => x :: filter (fun y => negb (beq x y)) (dedup_bytes rest)
  end.

(* ScopedIp equality of the refreshed addresses: address bytes and interface *)
Definition same_scoped (a b : ident) : bool := beq_rdata (i_data a) (i_data b) && (i_if a =? i_if b).
Fixpoint dedup_scoped (l : list ident) : list ident :=
  match l with
  | [] => []
  | x :: rest => x :: filter (fun y => negb (same_scoped x y)) (dedup_scoped rest)
  end.

Definition addr_qtype (id : ident) : N :=
  match i_data id with RAddr o => if (N.of_nat (length o)) =? 4 then TY_A else TY_AAAA | _ => TY_A end.

(* known answers of one question *)
Definition ka_of (c : cache) (name : bytes) (qtype : N) (now : N) : res (list (ident * N)) :=
  match kind_of_type qtype with
  | Some k => known_answers (get_bucket c (k, if k =? 3 then lower name else name)) now
  | None => Ok []
  end.

Fixpoint ka_of_questions (c : cache) (qs : list (bytes * N)) (now : N) : res (list (ident * N)) :=
  match qs with
  | [] => Ok []
  | (n, t) :: rest =>
      let? a := ka_of c n t now in
      let? b := ka_of_questions c rest now in Ok (a ++ b)
  end.

(* send_query_vec *)
Definition mk_query (c : cache) (qs : list (bytes * N)) (now : N) : res qdesc :=
  let? a := ka_of_questions c qs now in Ok (mkQD qs a).

Fixpoint repeat_q (n : nat) (q : qdesc) : list qdesc :=
  match n with O => [] | S n' => q :: repeat_q n' q end.

(* refresh_due_srv_txt: SRV and TXT Vecs of every instance; the due types are collected per
   instance name (a HashMap entry: a repeated instance name extends the same entry) *)
Fixpoint merge_q (inst : bytes) (q : list (bytes * N)) (acc : list (bytes * list (bytes * N)))
  : list (bytes * list (bytes * N)) :=
  match acc with
  | [] => [(inst, q)]
  | (i, q0) :: rest => if beq i inst then (i, q0 ++ q) :: rest else (i, q0) :: merge_q inst q rest
  end.

Fixpoint refresh_srv_txt (c : cache) (now : N) (insts : list bytes)
    (acc : list (bytes * list (bytes * N))) : res (cache * list (bytes * list (bytes * N))) :=
  match insts with
  | [] => Ok (c, acc)
  | inst :: rest =>
      let? (bs, ds) := refresh_bucket (get_bucket c (1, inst)) now in
      let c1 := set_bucket c (1, inst) bs in
      let acc1 := if ds then merge_q inst [(inst, TY_SRV)] acc else acc in
      let? (bt, dt) := refresh_bucket (get_bucket c1 (2, inst)) now in
      let c2 := set_bucket c1 (2, inst) bt in
      let acc2 := if dt then merge_q inst [(inst, TY_TXT)] acc1 else acc1 in
      refresh_srv_txt c2 now rest acc2
  end.

Definition hosts_of_bucket (b : bucket) : list bytes :=
  flat_map (fun e => match host_of (c_id e) with Some h => [h] | None => [] end) b.

(* refresh_due_hosts *)
Fixpoint refresh_hosts (c : cache) (now : N) (hosts : list bytes) : res (cache * list (list (bytes * N))) :=
  match hosts with
  | [] => Ok (c, [])
  | h :: rest =>
      let k := (3, lower h) in
      let? (b', d) := refresh_bucket (get_bucket c k) now in
      let c1 := set_bucket c k b' in
      let? (c2, qs) := refresh_hosts c1 now rest in
      Ok (c2, if d then [(h, TY_A); (h, TY_AAAA)] :: qs else qs)
  end.

Fixpoint mk_queries (c : cache) (qss : list (list (bytes * N))) (now : N) : res (list qdesc) :=
  match qss with
  | [] => Ok []
  | qs :: rest => let? q := mk_query c qs now in let? r := mk_queries c rest now in Ok (q :: r)
  end.

Definition live_instances (b : bucket) (now : N) : list bytes :=
  flat_map (fun e => if op_expired OP (c_t e) now then []
                     else match alias_of (c_id e) with Some a => [a] | None => [] end) b.

(* refresh_active_services for the browsed type *)
Definition refresh_browse (c : cache) (now : N) (ty : bytes) : res (cache * list qdesc) :=
  let? (bp, dp) := refresh_bucket (get_bucket c (0, ty)) now in
  let c1 := set_bucket c (0, ty) bp in
  let? qp := mk_queries c1 (if dp then [[(ty, TY_PTR)]] else []) now in
  let insts := live_instances bp now in
  let? (c2, due) := refresh_srv_txt c1 now insts [] in
  let? qi := mk_queries c2 (map snd due) now in
  let hosts := dedup_bytes (flat_map (fun i => hosts_of_bucket (get_bucket c2 (1, i))) insts) in
  let? (c3, hq) := refresh_hosts c2 now hosts in
  let? qh := mk_queries c3 hq now in
  Ok (c3, qp ++ qi ++ qh).

(* the hostname-resolver refresh of `run` *)
Definition refresh_host (c : cache) (now : N) (h : bytes) : res (cache * list qdesc) :=
  let k := (3, lower h) in
  let? (b', due) := refresh_once_bucket (get_bucket c k) now in
  let c1 := set_bucket c k b' in
  let? qs := mk_queries c1 (map (fun id => [(lower h, addr_qtype id)]) (dedup_scoped due)) now in
  Ok (c1, qs).

(* evict_expired_services: first every SRV Vec (remembering the instances left without any),
   then per PTR record of the browsed type: report the instance if its SRV records are gone,
   evict its expired TXT records; then the expired PTR records themselves; then all TXT Vecs *)
Fixpoint sweep_srv (c : cache) (now : N) : cache * list bytes :=
  match c with
  | [] => ([], [])
  | (k, b) :: rest =>
      let (rest', gone) := sweep_srv rest now in
      if fst k =? 1 then
        let kept := fst (evict b now) in
        if is_nil kept then (rest', snd k :: gone) else ((k, kept) :: rest', gone)
      else ((k, b) :: rest', gone)
  end.

Definition evict_instance (now : N) (gone : list bytes) (acc : cache * list bytes) (e : centry) : cache * list bytes :=
  match alias_of (c_id e) with
  | None => acc
  | Some inst =>
      let (c, rm) := acc in
      let rm' := if mem inst gone then rm ++ [inst] else rm in
      let kt := fst (evict (get_bucket c (2, inst)) now) in
      (set_bucket c (2, inst) kt, rm')
  end.

Fixpoint sweep (kinds : N -> bool) (c : cache) (now : N) : cache :=
  match c with
  | [] => []
  | (k, b) :: rest =>
      if kinds (fst k) then
        let kept := fst (evict b now) in
        if is_nil kept then sweep kinds rest now else (k, kept) :: sweep kinds rest now
      else (k, b) :: sweep kinds rest now
  end.

Definition evict_services (c : cache) (now : N) (browse : option bytes) : cache * list bytes :=
  let (c0, gone) := sweep_srv c now in
  let (c2, rm) :=
    match browse with
    | None => (c0, [])
    | Some ty =>
        let ptrs := get_bucket c0 (0, ty) in
        let (c1, rm1) := fold_left (evict_instance now gone) ptrs (c0, []) in
        let (kp, xp) := evict ptrs now in
        let rm2 := flat_map (fun e => match alias_of (c_id e) with Some a => [a] | None => [] end) xp in
        (set_bucket c1 (0, ty) kp, dedup_bytes (rm1 ++ rm2))
    end in
  (sweep (fun k => k =? 2) c2 now, rm).

(* evict_expired_addr; reported: the removed records of the resolved hostname *)
Definition evict_addrs (c : cache) (now : N) (host : option bytes) : cache * list ident :=
  let rm := match host with
            | Some h => map c_id (snd (evict (get_bucket c (3, lower h)) now))
            | None => []
            end in
  (sweep (fun k => k =? 3) c now, rm).

Record simcfg : Type := mkCfg { sc_browse : option bytes; sc_host : option bytes }.

(* One loop iteration of the daemon at `now`, as far as one browse and one hostname resolver are
   concerned: responses received (records in message order), n_sb / n_sh = number of browse /
   resolve-hostname (re)transmissions executed in this iteration (environment: the schedule is
   C19's business), refresh, eviction. *)
Definition sim_iter (cfg : simcfg) (c : cache) (now : N) (n_sb n_sh : nat) (recs : list (ident * N))
  : res (cache * iterobs) :=
  let? c0 := ingest c now recs in
  let? qb := match sc_browse cfg with
             | Some ty => let? q := mk_query c0 [(ty, TY_PTR)] now in Ok (repeat_q n_sb q)
             | None => Ok [] end in
  let? qh := match sc_host cfg with
             | Some h => let? q := mk_query c0 [(h, TY_A); (h, TY_AAAA)] now in Ok (repeat_q n_sh q)
             | None => Ok [] end in
  let? (c1, qr) := match sc_browse cfg with
                   | Some ty => refresh_browse c0 now ty
                   | None => Ok (c0, []) end in
  let? (c2, qa) := match sc_host cfg with
                   | Some h => refresh_host c1 now h
                   | None => Ok (c1, []) end in
  let (c3, rs) := evict_services c2 now (sc_browse cfg) in
  let (c4, ra) := evict_addrs c3 now (sc_host cfg) in
  Ok (c4, mkIO (qb ++ qh ++ qr ++ qa) rs ra).

Record simstep : Type := mkStep { ss_now : N; ss_nsb : nat; ss_nsh : nat; ss_recs : list (ident * N) }.

Fixpoint sim_run (cfg : simcfg) (c : cache) (steps : list simstep) : res (list iterobs) :=
  match steps with
  | [] => Ok []
  | s :: rest =>
      let? (c', o) := sim_iter cfg c (ss_now s) (ss_nsb s) (ss_nsh s) (ss_recs s) in
      let? os := sim_run cfg c' rest in Ok (o :: os)
  end.

End Cache.

Arguments mkC {T}. Arguments c_id {T}. Arguments c_t {T}.

(* ------------------------------------------------------------------ the two instances *)

Definition both_addr (a b : ident) : bool := is_addr_data (i_data a) && is_addr_data (i_data b).

(* the code: `class == .. && rtype == .. && now > created + 1000 && expire > now + 1000`
   (left to right, u64 additions), then the interface test for address records *)
Definition should_flush_trec (inc eid : ident) (t : trec) (now : N) : res bool :=
  if (i_class inc =? i_class eid) && (i_type inc =? i_type eid) then
    let? lhs := chk64 (flush_created_lhs (t_created t)) in
    if lhs <? now then
      let? _ := chk64 (flush_now_rhs now) in
      if flush_cond (i_class inc) (i_class eid) (i_type inc) (i_type eid) now (t_created t) (t_expires t) then
        Ok (if flush_is_addr_type (i_type inc) && both_addr eid inc
            then flush_same_intf (i_if eid) (i_if inc) else true)
      else Ok false
    else Ok false
  else Ok false.

Definition ka_ttl_trec (t : trec) (now : N) : res (option N) :=
  let? h := halflife_passed t now in
  if h then Ok None else let? t' := update_ttl t now in Ok (Some (t_ttl t')).

Definition trec_ops : ops trec :=
  mkOps trec new_rec is_expired refresh_maybe refresh_once reset_ttl should_flush_trec
    (fun t now => (set_expires t (flush_new_expire now), flush_new_expire now)) ka_ttl_trec t_ttl.

(* the property text *)
Definition should_flush_spec (inc eid : ident) (s : astate) (now : N) : res bool :=
  Ok ((i_class inc =? i_class eid) && (i_type inc =? i_type eid)
      && (a_created s + 1000 <? now) && (now + 1000 <? a_expires s)
      && (if ((i_type inc =? 1) || (i_type inc =? 28)) && both_addr eid inc
          then i_if eid =? i_if inc else true)).

Definition astate_ops : ops astate :=
  mkOps astate
    (fun now ttl => Ok (a_init now ttl))
    (fun s now => a_expires s <=? now)
    (fun s now => Ok (if a_due s now then (a_setk s (a_k s + 1), true) else (s, false)))
    (fun s now => Ok (if a_due s now then (a_setk s 4, true) else (s, false)))
    (fun _ ttl c => Ok (mkA c ttl (if 1 <? ttl then 0 else 4) (c + 1000 * ttl)))
    should_flush_spec
    (fun s now => (mkA (a_created s) (a_ttl s) (a_k s) (now + 1000), now + 1000))
    (* listed iff at least half of its lifetime is left: now + 500 ms * ttl <= expires *)
    (fun s now => Ok (if now + 500 * a_ttl s <=? a_expires s
                      then Some (ka_ttl_spec (a_ttl s) (a_created s) now) else None))
    a_ttl.

(* astate_ops with the code's known-answer rule (half life counted from `created` only): used
   to classify a rejected trace as the known finding "shortened shared record still listed" *)
Definition astate_ops_created_ka : ops astate :=
  mkOps astate (op_new astate_ops) (op_expired astate_ops) (op_refresh astate_ops) (op_refresh_once astate_ops)
    (op_reset astate_ops) (op_should_flush astate_ops) (op_shorten astate_ops)
    (fun s now => Ok (if now <=? a_created s + 500 * a_ttl s
                      then Some (ka_ttl_spec (a_ttl s) (a_created s) now) else None))
    a_ttl.
Definition spec_run_created_ka (cfg : simcfg) (steps : list (simstep)) : res (list iterobs) :=
  sim_run astate astate_ops_created_ka cfg [] steps.

(* daemon-level monitor: the observations the property text prescribes for this history *)
Definition spec_run (cfg : simcfg) (steps : list (simstep)) : res (list iterobs) :=
  sim_run astate astate_ops cfg [] steps.
Definition model_run (cfg : simcfg) (steps : list (simstep)) : res (list iterobs) :=
  sim_run trec trec_ops cfg [] steps.

(* ---- well-formed histories and equality of observations up to the answer sections ---- *)
Definition rec_ok (r : ident * N) : Prop := snd r < U32.                 (* wire TTL is a u32 *)
Definition step_ok (s : simstep) : Prop := ss_now s < B63 /\ Forall rec_ok (ss_recs s).
Definition qd_eq (q1 q2 : qdesc) : Prop := qd_questions q1 = qd_questions q2.
Definition io_eq (o1 o2 : iterobs) : Prop :=
  Forall2 qd_eq (io_queries o1) (io_queries o2) /\
  io_removed_services o1 = io_removed_services o2 /\ io_removed_addrs o1 = io_removed_addrs o2.
