(* Scheduling core of the daemon (src/service_daemon.rs), as it is in /repo now:
   Zeroconf::run (timer heap, resolver deadlines, command draining, re-run of due
   retransmissions, interface-check re-arming), exec_command_browse,
   exec_command_resolve_hostname, exec_command_stop_browse,
   exec_command_stop_resolve_hostname, add_hostname_resolver, add_retransmission, cleanup.

   Slice: histories WITHOUT incoming datagrams, registrations, verify requests or interface
   table changes.  The cache then stays empty, so query_cache_for_*, refresh_active_services,
   the address refresh, eviction, probing_handler and check_ip_changes do nothing observable
   and are not modelled; send_query_vec adds no known answers.  Listener channels are held by
   the caller (listener.send never fails).

   Browse and hostname resolution run through structurally identical Rust code; the model
   has ONE code path parameterised by `host : bool`:
     host = false  service_queriers[ty]            key = the type as given (exact bytes)
     host = true   hostname_resolvers[lower(host)]  key = the lower-cased host name
   `st_owners` is the union of the two hash maps (keys tagged by `host`), a browse owner
   never has a deadline.  Command::Browse(ty, delay, cache_only, listener) and
   Command::ResolveHostname(host, delay, listener, timeout) in `retransmissions` are the
   records `rerun` (a cache-only browse never enters the list).

   All numbers are N; `now + timeout` saturates at u64::MAX as in add_hostname_resolver.
   Arithmetic that is checked/wrapping in Rust but cannot overflow for now < 2^63 and
   delays <= 3600 is plain N arithmetic. *)
From Coq Require Import List NArith Bool.
From Mdns Require Import Bytes ParamsSched.
Import ListNotations.
Open Scope N_scope.

Definition name := bytes.
Definition chan := N.

(* ---- keys of the two listener maps ---- *)
Definition okey := (bool * name)%type.
Definition okey_of (host : bool) (nm : name) : okey := (host, if host then lower nm else nm).
Definition okey_eqb (a b : okey) : bool := Bool.eqb (fst a) (fst b) && beq (snd a) (snd b).

(* ---- API commands as they arrive on the command channel ---- *)
Inductive cmd : Type :=
| CStart (host : bool) (nm : name) (cache : bool) (timeout : option N) (ch : chan)
| CStop (host : bool) (nm : name)
| CSetIp (secs : N)
| CShutdown.

Definition Browse (ty : name) (ch : chan) : cmd := CStart false ty false None ch.
Definition BrowseCache (ty : name) (ch : chan) : cmd := CStart false ty true None ch.
Definition StopBrowse (ty : name) : cmd := CStop false ty.
Definition ResolveHostname (h : name) (timeout : option N) (ch : chan) : cmd := CStart true h false timeout ch.
Definition StopResolveHostname (h : name) : cmd := CStop true h.
Definition SetIpCheckInterval (secs : N) : cmd := CSetIp secs.
Definition Shutdown : cmd := CShutdown.

(* the API offers exactly these shapes *)
Definition wf_cmd (c : cmd) : bool :=
  match c with
  | CStart host _ cache timeout _ =>
      if host then negb cache else match timeout with None => true | Some _ => false end
  | _ => true
  end.

(* ---- state ---- *)
Record rerun := mkRerun { r_time : N; r_host : bool; r_name : name; r_delay : N; r_ch : chan }.
Definition rkey (r : rerun) : okey := okey_of (r_host r) (r_name r).

Record owner := mkOwner { ow_ch : chan; ow_deadline : option N }.

Record state := mkState {
  st_clock : N;                        (* virtual time of the last iteration *)
  st_timers : list N;                  (* BinaryHeap<Reverse<u64>> as a multiset *)
  st_retrans : list rerun;             (* Vec<ReRun>, order kept *)
  st_owners : list (okey * owner);     (* service_queriers + hostname_resolvers *)
  st_next_ip : N;                      (* local `next_ip_check` of run *)
  st_ip_ival : N;                      (* ip_check_interval (ms) *)
  st_alive : bool }.                   (* false after Exit *)

Definition set_sched (s : state) (timers : list N) (retrans : list rerun)
           (owners : list (okey * owner)) : state :=
  mkState (st_clock s) timers retrans owners (st_next_ip s) (st_ip_ival s) (st_alive s).

(* ---- outputs ---- *)
Inductive event : Type :=
| EStarted (n : name)
| EStopped (n : name)
| ETimeout (n : name)
| EClosed.

Definition question := (name * N)%type.
Definition packet := list question.

Record out := mkOut {
  o_now : N;
  o_sent : list packet;                (* queries, in emission order (per interface+family) *)
  o_events : list (chan * event);      (* channel events, in emission order *)
  o_wake : option N;                   (* earliest timer at the next gate *)
  o_exited : bool }.

(* ---- small helpers ---- *)
Fixpoint lookup (k : okey) (l : list (okey * owner)) : option owner :=
  match l with
  | [] => None
  | e :: t => if okey_eqb k (fst e) then Some (snd e) else lookup k t
  end.
Definition remove_key (k : okey) (l : list (okey * owner)) : list (okey * owner) :=
  filter (fun e => negb (okey_eqb k (fst e))) l.
Definition purge (k : okey) (l : list rerun) : list rerun :=
  filter (fun r => negb (okey_eqb (rkey r) k)) l.

Fixpoint min_list (l : list N) : option N :=
  match l with
  | [] => None
  | x :: t => match min_list t with None => Some x | Some m => Some (N.min x m) end
  end.

Fixpoint memN (x : N) (l : list N) : bool :=
  match l with [] => false | y :: t => (x =? y) || memN x t end.
Fixpoint dedupN (l : list N) : list N :=
  match l with [] => [] | x :: t => if memN x t then dedupN t else x :: dedupN t end.

Definition u64_max : N := 18446744073709551615.
Definition sat_add (a b : N) : N := N.min (a + b) u64_max.

(* ---- back-off arithmetic (Gen/ParamsSched.v is regenerated from the Rust) ---- *)
Definition next_time (host : bool) (now delay : N) : N :=
  if host then now + delay * resolve_millis_per_sec else browse_next_time now delay.
Definition next_delay (host : bool) (delay : N) : N :=
  if host then N.min (resolve_doubled delay) resolve_max_delay
  else N.min (browse_doubled delay) browse_max_delay.
Definition first_delay (host cache : bool) : N :=
  if host then resolve_first_delay else if cache then browse_cache_first_delay else browse_first_delay.

Definition qtype_ptr : N := 12.
Definition qtype_a : N := 1.
Definition qtype_aaaa : N := 28.
Definition pkt (host : bool) (nm : name) : packet :=
  if host then [(nm, qtype_a); (nm, qtype_aaaa)] else [(nm, qtype_ptr)].

(* "Only add retransmission if it does not exceed the hostname resolver timeout, if any."
   (a browse owner has no deadline; a missing owner means unwrap_or(true)) *)
Definition requeue_ok (k : okey) (owners : list (okey * owner)) (nt : N) : bool :=
  match lookup k owners with
  | Some o => match ow_deadline o with Some d => resolve_requeue_guard nt d | None => true end
  | None => true
  end.

(* the retransmission queued by one execution of Browse / ResolveHostname with `delay` *)
Definition requeue (now : N) (owners : list (okey * owner)) (host : bool) (nm : name)
           (delay : N) (ch : chan) : list rerun :=
  let nt := next_time host now delay in
  if requeue_ok (okey_of host nm) owners nt
  then [mkRerun nt host nm (next_delay host delay) ch] else [].

(* ---- commands ---- *)
Definition result := (state * list packet * list (chan * event))%type.

(* exec_command_browse / exec_command_resolve_hostname with repeating = false *)
Definition exec_start (now : N) (host : bool) (nm : name) (cache : bool) (timeout : option N)
           (ch : chan) (s : state) : result :=
  let k := okey_of host nm in
  let dl := option_map (sat_add now) timeout in
  let owners' := (k, mkOwner ch dl) :: remove_key k (st_owners s) in
  let retr := purge k (st_retrans s) in
  let timers1 := match dl with Some d => d :: st_timers s | None => st_timers s end in
  if cache
  then (set_sched s timers1 retr owners', [], [(ch, EStarted nm); (ch, EStopped nm)])
  else
    let new := requeue now owners' host nm (first_delay host cache) ch in
    (set_sched s (map r_time new ++ timers1) (retr ++ new) owners',
     [pkt host nm], [(ch, EStarted nm)]).

(* exec_command_stop_browse / exec_command_stop_resolve_hostname (the host name arrives
   lower-cased); nothing happens when there is no such search *)
Definition exec_stop (host : bool) (nm : name) (s : state) : result :=
  let k := okey_of host nm in
  match lookup k (st_owners s) with
  | None => (s, [], [])
  | Some o => (set_sched s (st_timers s) (purge k (st_retrans s)) (remove_key k (st_owners s)),
               [], [(ow_ch o, EStopped (snd k))])
  end.

Definition exec_set_ip (secs : N) (s : state) : result :=
  (mkState (st_clock s) (st_timers s) (st_retrans s) (st_owners s) (st_next_ip s)
           (ip_check_interval_of_secs secs) (st_alive s), [], []).

(* cleanup + return from run: every search gets SearchStopped, retransmissions cleared *)
Definition exec_shutdown (s : state) : result :=
  (mkState (st_clock s) (st_timers s) [] [] (st_next_ip s) (st_ip_ival s) false,
   [], map (fun e => (ow_ch (snd e), EStopped (snd (fst e)))) (st_owners s)).

Definition exec_cmd (now : N) (c : cmd) (s : state) : result :=
  match c with
  | CStart host nm cache timeout ch => exec_start now host nm cache timeout ch s
  | CStop host nm => exec_stop host nm s
  | CSetIp secs => exec_set_ip secs s
  | CShutdown => exec_shutdown s
  end.

(* `while let Ok(command) = receiver.try_recv()`: Exit ends the loop, later commands are dropped *)
Fixpoint run_cmds (now : N) (cmds : list cmd) (s : state) : result :=
  match cmds with
  | [] => (s, [], [])
  | c :: rest =>
      let '(s1, p1, e1) := exec_cmd now c s in
      match c with
      | CShutdown => (s1, p1, e1)
      | _ => let '(s2, p2, e2) := run_cmds now rest s1 in (s2, p1 ++ p2, e1 ++ e2)
      end
  end.

(* ---- resolver deadlines ("Remove hostname resolvers with expired timeouts") ---- *)
Definition expired (now : N) (e : okey * owner) : bool :=
  match ow_deadline (snd e) with Some d => resolver_expired now d | None => false end.

Definition timeout_events (now : N) (owners : list (okey * owner)) : list (chan * event) :=
  flat_map (fun e => if expired now e
                     then [(ow_ch (snd e), ETimeout (snd (fst e))); (ow_ch (snd e), EStopped (snd (fst e)))]
                     else []) owners.

(* ---- re-run of due retransmissions ---- *)
Definition due (now : N) (r : rerun) : bool := r_time r <=? now.   (* now >= next_time *)

Definition rerun_one (now : N) (owners : list (okey * owner)) (r : rerun) : list rerun :=
  requeue now owners (r_host r) (r_name r) (r_delay r) (r_ch r).

(* exec_command_resolve_hostname with repeating = true returns at once - no SearchStarted, no
   query, nothing queued - when no resolver exists for the lower-cased name ("A retransmission
   whose search was stopped or timed out meanwhile must not run").  The deadline block of run
   removes a resolver but not its queued retransmission; that retransmission is dropped here.
   exec_command_browse has no such test. *)
Definition rerun_live (owners : list (okey * owner)) (r : rerun) : bool :=
  negb (r_host r) || match lookup (rkey r) owners with Some _ => true | None => false end.

(* The Rust loop removes each due element and executes it; the execution pushes the next
   retransmission at the end of the vector.  A pushed element has next_time = now +
   delay*1000 with delay >= 1 (Proofs: inv_ret), so the same pass never re-runs it: the
   result is  (elements not due, in order) ++ (new elements, in execution order). *)
Definition rerun_phase (now : N) (s : state) : result :=
  let d := filter (rerun_live (st_owners s)) (filter (due now) (st_retrans s)) in
  let keep := filter (fun r => negb (due now r)) (st_retrans s) in
  let new := flat_map (rerun_one now (st_owners s)) d in
  (set_sched s (map r_time new ++ st_timers s) (keep ++ new) (st_owners s),
   map (fun r => pkt (r_host r) (r_name r)) d,
   map (fun r => (r_ch r, EStarted (r_name r))) d).

(* ---- interface check re-arming (check_ip_changes itself: no change in the slice) ---- *)
Definition ip_phase (now : N) (s : state) : state :=
  if ip_check_disabled (st_ip_ival s)
  then mkState (st_clock s) (st_timers s) (st_retrans s) (st_owners s) 0 (st_ip_ival s) (st_alive s)
  else if ip_check_unarmed (st_next_ip s)
  then let t := ip_check_rearm_time now (st_ip_ival s) in
       mkState (st_clock s) (t :: st_timers s) (st_retrans s) (st_owners s) t (st_ip_ival s) (st_alive s)
  else if ip_check_due now (st_next_ip s)
  then let t := ip_check_next_time now (st_ip_ival s) in
       mkState (st_clock s) (t :: st_timers s) (st_retrans s) (st_owners s) t (st_ip_ival s) (st_alive s)
  else s.

(* ---- channel disconnection: a receiver sees its channel closed when the daemon holds no
        sender any more (listener map entry, queued retransmission, queued command) ---- *)
Definition refs (s : state) : list chan :=
  map (fun e => ow_ch (snd e)) (st_owners s) ++ map r_ch (st_retrans s).
Definition intro_chans (cmds : list cmd) : list chan :=
  flat_map (fun c => match c with CStart _ _ _ _ ch => [ch] | _ => [] end) cmds.
Definition closed_events (before : state) (cmds : list cmd) (after : state) : list (chan * event) :=
  map (fun c => (c, EClosed))
      (filter (fun c => negb (memN c (refs after))) (dedupN (refs before ++ intro_chans cmds))).

(* ---- one loop iteration, from the gate to the next gate ---- *)
Record iter := mkIter { i_now : N; i_cmds : list cmd }.

(* pop_timers_till(now), then "Remove hostname resolvers with expired timeouts" *)
Definition timeout_phase (now : N) (s : state) : state :=
  mkState now (filter (fun v => timer_kept v now) (st_timers s)) (st_retrans s)
          (filter (fun e => negb (expired now e)) (st_owners s)) (st_next_ip s) (st_ip_ival s) true.

Definition iterate (s : state) (it : iter) : state * out :=
  let now := i_now it in
  let ev_t := timeout_events now (st_owners s) in
  let s1 := timeout_phase now s in
  (* commands *)
  let '(s2, p_c, ev_c) := run_cmds now (i_cmds it) s1 in
  if st_alive s2 then
    let '(s3, p_r, ev_r) := rerun_phase now s2 in
    let s4 := ip_phase now s3 in
    (s4, mkOut now (p_c ++ p_r) (ev_t ++ ev_c ++ ev_r ++ closed_events s (i_cmds it) s4)
               (min_list (st_timers s4)) false)
  else
    (s2, mkOut now p_c (ev_t ++ ev_c ++ closed_events s (i_cmds it) s2) None true).

(* a history: the iterations that take place; after Exit the thread is gone *)
Fixpoint run (s : state) (h : list iter) : list out :=
  match h with
  | [] => []
  | it :: h' => if st_alive s then let '(s', o) := iterate s it in o :: run s' h' else []
  end.

Fixpoint final (s : state) (h : list iter) : state :=
  match h with
  | [] => s
  | it :: h' => if st_alive s then final (fst (iterate s it)) h' else s
  end.

(* Zeroconf::new + the code of run before the loop, at virtual time t0 *)
Definition init (t0 : N) : state :=
  let ival := ip_check_interval_initial in
  if ip_check_first_armed ival
  then mkState t0 [t0 + ival] [] [] (t0 + ival) ival true
  else mkState t0 [] [] [] 0 ival true.

Definition init_out (t0 : N) : out :=
  mkOut t0 [] [] (min_list (st_timers (init t0))) false.

(* the whole observable trace: first arrival at the gate, then one record per iteration *)
Definition model_run (t0 : N) (h : list iter) : list out := init_out t0 :: run (init t0) h.

(* pending time-driven work of a state, with its due times (DESIGN appendix C, restricted to
   the slice): retransmissions, resolver deadlines, the interface check *)
Definition deadlines (owners : list (okey * owner)) : list N :=
  flat_map (fun e => match ow_deadline (snd e) with Some d => [d] | None => [] end) owners.
Definition due_work (s : state) : list N :=
  map r_time (st_retrans s) ++ deadlines (st_owners s)
  ++ (if ip_check_disabled (st_ip_ival s) then [] else [st_next_ip s]).
