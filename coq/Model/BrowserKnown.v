(* The classes of histories in which chk_C04 / chk_C05 are known to fail (known/C04.json,
   known/C05.json), as executable predicates on the delivery log of a history, and the mild
   name condition the history-level theorems assume.  Definitions only. *)
From Coq Require Import List NArith Bool.
From Mdns Require Import Res Bytes Rec Wire ParamsBrowser Cache Browser C03Spec BrowserSpec.
Import ListNotations.
Open Scope N_scope.

Definition log_of_history (ifs : iftab) (h : list iter) : list dlv := flat_map (iter_dlvs ifs) h.

(* C05-ptr-variant-expiry: two PTR records with the same owner pointing to the same instance
   that are NOT the same record (they differ in class or in the cache-flush bit) *)
Definition ptr_var (d d' : dlv) : bool :=
  (r_type (dl_rr d) =? TY_PTR) && (r_type (dl_rr d') =? TY_PTR)
  && beq (r_name (dl_rr d)) (r_name (dl_rr d'))
  && beq (alias_of (dl_rr d)) (alias_of (dl_rr d'))
  && negb (rr_matches (dl_rr d) 0 (dl_rr d') 0).

Definition known_ptr_variant (L : list dlv) : bool := existsb (fun d => existsb (ptr_var d) L) L.

(* C05-second-srv-target (found in round 4): two SRV records of one instance naming different
   hosts (names compared without regard to ASCII case) *)
Definition srv_tgt (d d' : dlv) : bool :=
  (r_type (dl_rr d) =? TY_SRV) && (r_type (dl_rr d') =? TY_SRV)
  && beq (r_name (dl_rr d)) (r_name (dl_rr d'))
  && negb (beq (lower (rr_host (dl_rr d))) (lower (rr_host (dl_rr d')))).

Definition known_srv_targets (L : list dlv) : bool := existsb (fun d => existsb (srv_tgt d) L) L.

(* not a finding, a condition on names: no PTR record with the root name as owner or target
   (the API refuses to browse the empty type; an instance named "" is never valid) *)
Definition ptr_names_ok (L : list dlv) : bool :=
  forallb (fun d => negb (r_type (dl_rr d) =? TY_PTR)
                    || (negb (is_nil (r_name (dl_rr d))) && negb (is_nil (alias_of (dl_rr d))))) L.

(* the histories outside the known classes that concern the SAFETY part of C05 *)
Definition safe_class (ifs : iftab) (h : list iter) : bool :=
  let L := log_of_history ifs h in
  negb (known_ptr_variant L) && negb (known_srv_targets L) && ptr_names_ok L.

Definition is_alive_fail (f : BrowserSpec.fail) : bool :=
  match f with BrowserSpec.F05_alive _ _ _ _ => true | _ => false end.

(* C04-found-missing-after-ptr-refresh (found in round 5): a browse is started while the cache
   holds a PTR record of that type with TTL > 1 that is in its last second (it is not reported
   by query_cache_for_service; if it is refreshed afterwards it is no new record, so ServiceFound
   never comes).  Evaluated on the spec cache at the moment of the browse call. *)
Definition soon_ptr_at_browse (c : cache) (now : N) (ty : bytes) : bool :=
  match bm_get ty (c_ptr c) with
  | Some b => existsb (fun p => expires_soon p now && (1 <? e_ttl p)) b
  | None => false
  end.

Fixpoint calls_browse_expiring (now : N) (sp : spec) (calls : list call) : bool :=
  match calls with
  | [] => false
  | cl :: t =>
    (match cl with CBrowse ty _ => soon_ptr_at_browse (sp_c sp) now ty | _ => false end)
    || calls_browse_expiring now (spec_call now sp cl) t
  end.

Fixpoint known_browse_expiring_from (ifs : iftab) (sp : spec) (h : list iter) : bool :=
  match h with
  | [] => false
  | it :: t =>
    let '(ds, _, sp3) := iter_snaps ifs sp it in
    calls_browse_expiring (i_now it) (last ds sp) (i_calls it) || known_browse_expiring_from ifs sp3 t
  end.

Definition known_browse_expiring (ifs : iftab) (h : list iter) : bool :=
  known_browse_expiring_from ifs init_spec h.

Definition is_order_fail (f : BrowserSpec.fail) : bool :=
  match f with BrowserSpec.F04_order _ _ _ => true | _ => false end.

(* a condition on histories, not a finding: every browse call uses a channel number greater
   than all channel numbers used before (the daemon creates a new channel per browse call; the
   history builders number them 1, 2, 3, ...) *)
Definition call_fresh (m : N) (cl : call) : option N :=
  match cl with CBrowse _ ch => if m <? ch then Some ch else None | _ => Some m end.

Fixpoint calls_fresh (m : N) (cls : list call) : option N :=
  match cls with
  | [] => Some m
  | cl :: t => match call_fresh m cl with Some m' => calls_fresh m' t | None => None end
  end.

Fixpoint fresh_channels_from (m : N) (h : list iter) : bool :=
  match h with
  | [] => true
  | it :: t => match calls_fresh m (i_calls it) with Some m' => fresh_channels_from m' t | None => false end
  end.

Definition fresh_channels (h : list iter) : bool := fresh_channels_from 0 h.

Definition is_again_fail (f : BrowserSpec.fail) : bool :=
  match f with BrowserSpec.F05_again _ _ _ => true | _ => false end.

(* C05-stop-browse-drops-shared-records (decided in round 5): stop_browse of a name while PTR
   records of ANOTHER name point to the same instance - remove_service_type drops the instance's
   SRV / TXT / address records although the instance is still browsed under the other name *)
Definition known_stop_second_name (ifs : iftab) (h : list iter) : bool :=
  let L := log_of_history ifs h in
  existsb (fun it => existsb (fun cl =>
    match cl with
    | CStop ty2 =>
      existsb (fun d => (r_type (dl_rr d) =? TY_PTR) && beq (r_name (dl_rr d)) ty2
                        && existsb (fun d' => (r_type (dl_rr d') =? TY_PTR)
                                              && negb (beq (r_name (dl_rr d')) ty2)
                                              && beq (alias_of (dl_rr d')) (alias_of (dl_rr d))) L) L
    | _ => false
    end) (i_calls it)) h.

(* C05-expiry-hidden-by-expiring-ptr, as a class of histories (round 6): at some call of
   resolve_updated_instances (after a response, or for the hosts whose addresses were just
   evicted) an updated instance that is in `resolved` cannot be resolved any more, while a PTR
   record of a browsed name pointing to it is in its last second - that name's browser is not told
   (the loop skips PTR records that expire within a second).  Evaluated along the model's run. *)
Definition hidden_in_resolve (s : st) (now : N) (updated : list bytes) : bool :=
  existsb (fun tc =>
    match bm_get (fst tc) (c_ptr (s_cache s)) with
    | Some b => existsb (fun p => let i := alias_of (e_rr p) in
                  expires_soon p now && mem i updated && mem i (s_resolved s)
                  && negb (is_valid (resolve_from_cache (s_cache s) now (fst tc) i))) b
    | None => false
    end) (s_q s).

Definition response_hidden (s : st) (now ifx : N) (m : msg) : bool :=
  let fu := for_us (s_q s) (m_answers m) in
  let '(c1, _, changes) :=
    hr_records (s_cache s) now ifx (s_q s) fu (m_answers m ++ m_authorities m ++ m_additionals m) in
  hidden_in_resolve (with_cache s c1) now (updated_of c1 changes).

Definition read_hidden (ifs : iftab) (s : st) (now : N) (d : dgram) : bool :=
  match accepted_msg ifs d with Some m => response_hidden s now (d_if d) m | None => false end.

Fixpoint reads_hidden (ifs : iftab) (s : st) (now : N) (ds : list dgram) : bool :=
  match ds with
  | [] => false
  | d :: t => read_hidden ifs s now d || reads_hidden ifs (fst (handle_read ifs s now d)) now t
  end.

Fixpoint hosts_hidden (s : st) (now : N) (names : list bytes) : bool :=
  match names with
  | [] => false
  | h :: t =>
    let upd := dedup (get_instances_on_host (s_cache s) h) in
    hidden_in_resolve s now upd || hosts_hidden (fst (resolve_updated s now upd)) now t
  end.

Definition evict_hidden (s : st) (now : N) : bool :=
  let '(c1, _) := evict_services (s_cache s) now in
  let '(c2, names) := evict_addr c1 now in
  hosts_hidden (with_cache s c2) now (dedup names).

Definition iter_hidden (ifs : iftab) (s : st) (it : iter) : bool :=
  let now := i_now it in
  let dgs := deliveries_in_order (i_dgrams it) in
  reads_hidden ifs s now dgs
  || (let s1 := fst (run_cmds (handle_read ifs) s now dgs) in
      let s2 := fst (run_cmds exec_call s1 now (i_calls it)) in
      let s3 := fst (run_retrans s2 now) in
      let c4 := fst (refresh_all (s_cache s3) now (s_q s3)) in
      evict_hidden (with_cache s3 c4) now).

Fixpoint known_hidden_from (ifs : iftab) (s : st) (h : list iter) : bool :=
  match h with
  | [] => false
  | it :: t => iter_hidden ifs s it || known_hidden_from ifs (fst (iterate ifs s it)) t
  end.

Definition known_removal_hidden (ifs : iftab) (h : list iter) : bool := known_hidden_from ifs init_st h.

(* the histories outside the known classes that concern the TIMELINESS part of C05 *)
Definition timely_class (ifs : iftab) (h : list iter) : bool :=
  safe_class ifs h && fresh_channels h && negb (known_stop_second_name ifs h) && negb (known_removal_hidden ifs h).

Definition is_dead_fail (f : BrowserSpec.fail) : bool :=
  match f with BrowserSpec.F05_dead _ _ _ _ _ _ => true | _ => false end.

(* C03-reannounced-record-keeps-position (round 6), as a class of delivery logs: the SRV or the
   TXT records of one name were delivered in the pattern A, B, A - a record, then a different
   record of the same name and type, then the first one again *)
Fixpoint aba_from (a : dlv) (seen_other : bool) (l : list dlv) : bool :=
  match l with
  | [] => false
  | x :: t =>
    if beq (r_name (dl_rr a)) (r_name (dl_rr x)) && (r_type (dl_rr a) =? r_type (dl_rr x))
    then if same_key a x then seen_other || aba_from a false t else aba_from a true t
    else aba_from a seen_other t
  end.

Fixpoint known_reannounced (l : list dlv) : bool :=
  match l with
  | [] => false
  | a :: t =>
    (((r_type (dl_rr a) =? TY_SRV) || (r_type (dl_rr a) =? TY_TXT)) && aba_from a false t)
    || known_reannounced t
  end.

(* C04-last-second-refresh-not-new / C04-browse-over-expiring-ptr as ONE class of histories (round 8):
   a delivery that is NOT reported as a new record (it refreshes a cached record, or is refused, or is
   a PTR record with TTL <= 1, which is never reported) turns an instance of a browsed name strongly
   alive - handle_response then has no reason to resolve it.  Evaluated along the model's run. *)
Definition turned_alive (c c' : cache) (q : list (bytes * N)) (now : N) : bool :=
  existsb (fun tc =>
    match bm_get (fst tc) (c_ptr c') with
    | Some b => existsb (fun p => alive_strong c' now (fst tc) (alias_of (e_rr p))
                                 && negb (alive_strong c now (fst tc) (alias_of (e_rr p)))) b
    | None => false
    end) q.

Definition reported_new (res : option (entry * bool)) : bool :=
  match res with
  | Some (e, true) => negb ((e_type e =? TY_PTR) && negb (found_ttl_guard (e_ttl e)))
  | _ => false
  end.

Fixpoint records_refresh_only (c : cache) (now ifx : N) (q : list (bytes * N)) (fu : bool) (rs : list rr) : bool :=
  match rs with
  | [] => false
  | r :: rest =>
    let '(c1, res) := add_or_update c now ifx r fu in
    (negb (reported_new res) && turned_alive c c1 q now) || records_refresh_only c1 now ifx q fu rest
  end.

Definition read_refresh_only (ifs : iftab) (s : st) (now : N) (d : dgram) : bool :=
  match accepted_msg ifs d with
  | Some m => records_refresh_only (s_cache s) now (d_if d) (s_q s) (for_us (s_q s) (m_answers m))
                                   (m_answers m ++ m_authorities m ++ m_additionals m)
  | None => false
  end.

Fixpoint reads_refresh_only (ifs : iftab) (s : st) (now : N) (ds : list dgram) : bool :=
  match ds with
  | [] => false
  | d :: t => read_refresh_only ifs s now d || reads_refresh_only ifs (fst (handle_read ifs s now d)) now t
  end.

Fixpoint known_refresh_from (ifs : iftab) (s : st) (h : list iter) : bool :=
  match h with
  | [] => false
  | it :: t =>
    reads_refresh_only ifs s (i_now it) (deliveries_in_order (i_dgrams it))
    || known_refresh_from ifs (fst (iterate ifs s it)) t
  end.

Definition known_refresh_completes (ifs : iftab) (h : list iter) : bool := known_refresh_from ifs init_st h.

(* the histories outside the known classes that concern the COMPLETENESS clause of C04 *)
Definition complete_class (ifs : iftab) (h : list iter) : bool :=
  safe_class ifs h && fresh_channels h && negb (known_refresh_completes ifs h).

Definition is_complete_fail (f : BrowserSpec.fail) : bool :=
  match f with BrowserSpec.F04_complete _ _ _ _ _ => true | _ => false end.

(* C04-found-withdrawn-in-same-message (round 9): a PTR record is reported new (ServiceFound) and a
   later record of the same message leaves no PTR record of that name to that instance with more
   than a second left (its goodbye follows in the same packet): resolve_updated_instances skips it,
   no follow-up series is started.  Evaluated along the model's run. *)
Definition found_withdrawn (c1 : cache) (now : N) (o1 : list out) : bool :=
  existsb (fun x => match x with
                    | OEvt _ (EFound ty i) =>
                      negb (match bm_get ty (c_ptr c1) with
                            | Some b => existsb (fun p => beq (alias_of (e_rr p)) i && negb (expires_soon p now)) b
                            | None => false
                            end)
                    | _ => false
                    end) o1.

Definition read_found_withdrawn (ifs : iftab) (s : st) (now : N) (d : dgram) : bool :=
  match accepted_msg ifs d with
  | Some m =>
    let '(c1, o1, _) := hr_records (s_cache s) now (d_if d) (s_q s) (for_us (s_q s) (m_answers m))
                                   (m_answers m ++ m_authorities m ++ m_additionals m) in
    found_withdrawn c1 now o1
  | None => false
  end.

Fixpoint reads_found_withdrawn (ifs : iftab) (s : st) (now : N) (ds : list dgram) : bool :=
  match ds with
  | [] => false
  | d :: t => read_found_withdrawn ifs s now d || reads_found_withdrawn ifs (fst (handle_read ifs s now d)) now t
  end.

Fixpoint known_found_withdrawn_from (ifs : iftab) (s : st) (h : list iter) : bool :=
  match h with
  | [] => false
  | it :: t =>
    reads_found_withdrawn ifs s (i_now it) (deliveries_in_order (i_dgrams it))
    || known_found_withdrawn_from ifs (fst (iterate ifs s it)) t
  end.

Definition known_found_withdrawn (ifs : iftab) (h : list iter) : bool := known_found_withdrawn_from ifs init_st h.

Definition is_followup_fail (f : BrowserSpec.fail) : bool :=
  match f with BrowserSpec.F04_followup _ _ _ => true | _ => false end.

(* C04-stale-resolve-overlaps-series (found by the seed sweep after round 9): when the retransmission
   pass of some iteration starts, two follow-up (Resolve) retransmissions for the SAME instance are
   queued - the leftover of an earlier episode (the instance was resolved meanwhile: it left
   pending_resolves, its queued Resolve command stayed) and the series of the current one.  The
   leftover then ends "its" series (the instance leaves pending_resolves although the new series is
   running, so the next new record starts a third one) or continues as a second, parallel series:
   more than three follow-up questions without new records.  Evaluated along the model's run. *)
Fixpoint resolve_insts (r : list (N * rcmd)) : list bytes :=
  match r with
  | [] => []
  | (_, RResolve i _) :: t => i :: resolve_insts t
  | _ :: t => resolve_insts t
  end.

Fixpoint has_dup (l : list bytes) : bool :=
  match l with
  | [] => false
  | x :: t => mem x t || has_dup t
  end.

Definition iter_overlap (ifs : iftab) (s : st) (it : iter) : bool :=
  let now := i_now it in
  let s1 := fst (run_cmds (handle_read ifs) s now (deliveries_in_order (i_dgrams it))) in
  let s2 := fst (run_cmds exec_call s1 now (i_calls it)) in
  has_dup (resolve_insts (s_retrans s2)).

Fixpoint known_overlap_from (ifs : iftab) (s : st) (h : list iter) : bool :=
  match h with
  | [] => false
  | it :: t => iter_overlap ifs s it || known_overlap_from ifs (fst (iterate ifs s it)) t
  end.

Definition known_overlapping_series (ifs : iftab) (h : list iter) : bool := known_overlap_from ifs init_st h.

Definition is_many_fail (f : BrowserSpec.fail) : bool :=
  match f with BrowserSpec.F04_many _ _ => true | _ => false end.
