(* Executable statements of C07, C08, C09 over observable traces: the monitors applied to the
   implementation's outputs, and the predicates the theorems of Props/C07-C09 speak about.

   A history is, per daemon, the initial interface table and a list of loop iterations
   (RegistryDaemon.iter: virtual time, delivered datagrams, API calls, jitter values drawn).
   The observation of one iteration is a list of RegistryDaemon.out values read off the wire
   (packets parsed independently), the event channels and the reply channels.  The checkers
   run the model next to the observation: the model's state before / after the iteration
   supplies what an outside observer cannot see (which names were renamed, which services
   are registered with which data, what work is due), the verdict is about the observation.

   Verdicts carry a numeric code; VKnown marks a deviation that lies in a decidable class
   described in known/C0x.json (the code of /repo behaves differently from the property
   text there), VFail anything else.  Definitions only. *)
From Coq Require Import List NArith Bool.
From Mdns Require Import Bytes Rec ParamsRegistry Names WireOut Registry RegistryDaemon.
Import ListNotations.
Open Scope N_scope.

Inductive verdict := VKnown (code : N) | VFail (code : N).

(* ---- equality of names / records / packets modulo presentation -------------------------------- *)

Definition same_name (a b : bytes) : bool := labels_beq (name_labels a) (name_labels b).
Definition lname (n : bytes) : list bytes := map lower (name_labels n).
Definition same_name_ci (a b : bytes) : bool := labels_beq (lname a) (lname b).

Definition rdata_eqv (a b : rdata) : bool :=
  match a, b with
  | RAddr x, RAddr y => beq x y
  | RPtr x, RPtr y => same_name x y
  | RSrv p w o h, RSrv p' w' o' h' => (p =? p') && (w =? w') && (o =? o') && same_name h h'
  | RTxt x, RTxt y => beq x y
  | RHinfo c o, RHinfo c' o' => beq c c' && beq o o'
  | RNsec n b, RNsec n' b' => same_name n n' && beq b b'
  | _, _ => false
  end.

Definition rr_eqv (a b : rr) : bool :=
  same_name (r_name a) (r_name b) && (r_type a =? r_type b) && (r_class a =? r_class b)
  && Bool.eqb (r_flush a) (r_flush b) && (r_ttl a =? r_ttl b) && rdata_eqv (r_data a) (r_data b).

Section Perm.
  Context {A : Type} (eqb : A -> A -> bool).
  Fixpoint remove1 (x : A) (l : list A) : option (list A) :=
    match l with
    | [] => None
    | y :: t => if eqb x y then Some t
                else match remove1 x t with Some r => Some (y :: r) | None => None end
    end.
  Fixpoint perm_by (l1 l2 : list A) : bool :=
    match l1 with
    | [] => match l2 with [] => true | _ => false end
    | x :: t => match remove1 x l2 with Some l2' => perm_by t l2' | None => false end
    end.
End Perm.

Definition q_eqv (a b : bytes * N) : bool := same_name (fst a) (fst b) && (snd a =? snd b).

Definition msg_eqv (a b : omsg) : bool :=
  Bool.eqb (o_resp a) (o_resp b) && perm_by q_eqv (o_q a) (o_q b)
  && perm_by rr_eqv (o_an a) (o_an b) && perm_by rr_eqv (o_ns a) (o_ns b)
  && perm_by rr_eqv (o_ar a) (o_ar b).

Definition dest_eqb (a b : dest) : bool :=
  match a, b with
  | Mcast, Mcast => true
  | Ucast i p, Ucast i' p' => beq i i' && (p =? p')
  | _, _ => false
  end.

Definition send : Type := (N * bool * dest * omsg)%type.
Definition send_eqv (a b : send) : bool :=
  let '(i, v, d, m) := a in let '(i', v', d', m') := b in
  (i =? i') && Bool.eqb v v' && dest_eqb d d' && msg_eqv m m'.
Definition sends_of (os : list out) : list send :=
  flat_map (fun o => match o with OSend i v d m => [(i, v, d, m)] | _ => [] end) os.
Definition replies_of (os : list out) : list (bytes * bool) :=
  flat_map (fun o => match o with OReply ch ok => [(ch, ok)] | _ => [] end) os.

Definition is_goodbye (m : omsg) : bool :=
  o_resp m && negb (match o_an m with [] => true | _ => false end)
  && forallb (fun r => r_ttl r =? 0) (o_an m ++ o_ar m).

(* an unsolicited announcement: a response whose ANSWER section holds a PTR and an SRV record *)
Definition is_announcement (m : omsg) : bool :=
  o_resp m && negb (is_goodbye m)
  && existsb (fun r => r_type r =? TY_PTR) (o_an m) && existsb (fun r => r_type r =? TY_SRV) (o_an m).

Definition is_probe (m : omsg) : bool := negb (o_resp m).

(* ======================================================================================================
   C09  unregister / shutdown: status reply, goodbye packets, silence afterwards
   ====================================================================================================== *)

(* The goodbye the property asks for, for one service on one interface and family:
   PTR, subtype PTR, SRV, TXT and the addresses of that family in the interface's subnet, all
   with TTL 0.  `resolved`: under the names most recently announced there (after a rename the
   new names); `resolved = false` describes what /repo builds (the names of the ServiceInfo). *)
Definition spec_goodbye_msg (rg : registry) (resolved : bool) (s : svc) (addrs : list bytes) : omsg :=
  let nm := fun n => if resolved then resolve_name rg n else n in
  mkOut true []
    (ptr_rrs s 0 (nm (s_full s))
     ++ [mkRR (nm (s_full s)) TY_SRV class_in true 0 (RSrv 0 0 (s_port s) (nm (s_host s)));
         mkRR (nm (s_full s)) TY_TXT class_in true 0 (RTxt (s_txt s))]
     ++ map (fun a => mkRR (nm (s_host s)) (addr_type a) class_in true 0 (RAddr a)) addrs)
    [] [].

(* `announced_only`: only on interfaces where the service reached the announced state *)
Definition spec_goodbyes (st : dstate) (resolved announced_only : bool) (s : svc) : list send :=
  flat_map
    (fun i =>
       if announced_only && negb (announced_on (if_index i) s) then []
       else
         flat_map (fun v4 => match addrs_on_intf s i v4 with
                             | [] => []
                             | addrs => [(if_index i, v4, Mcast,
                                          spec_goodbye_msg (get_reg st (if_index i)) resolved s addrs)]
                             end) [true; false])
    (d_intfs st).

(* expected replies and goodbyes of the calls of one iteration, walking the model state *)
Fixpoint spec_calls (st : dstate) (cs : list call) (now : N) (js : list N) (resolved announced_only : bool)
  : list (bytes * bool) * list send * bool * list svc :=
  match cs with
  | [] => ([], [], false, [])
  | c :: t =>
    let '(st1, _, js1, stop) := exec_call st c now js in
    let '(reps, gbs, seen) :=
      match c with
      | CUnregister n ch =>
        match aget (lower n) (d_svcs st) with
        | Some s => ([(ch, true)], spec_goodbyes st resolved announced_only s, [])
        | None => ([(ch, false)], [], [])
        end
      | CShutdown => ([], flat_map (fun ks => spec_goodbyes st resolved announced_only (snd ks)) (d_svcs st), [])
      | CRegister s => ([], [], [s])
      | _ => ([], [], [])
      end in
    if stop then (reps, gbs, true, seen)
    else let '(reps2, gbs2, ex, seen2) := spec_calls st1 t now js1 resolved announced_only in
         (reps ++ reps2, gbs ++ gbs2, ex, seen ++ seen2)
  end.

(* goodbye repeats due in this iteration: the identical packet, same interface and family *)
Definition spec_resends (st : dstate) (now : N) : list send :=
  flat_map (fun e => match snd e with
                     | UnregisterResend m i v4 =>
                       if (fst e <=? now)
                          && match find_intf st i with Some itf => intf_has_family itf v4 | None => false end
                       then [(i, v4, Mcast, m)] else []
                     | _ => []
                     end) (d_retrans st).

Definition reply_eqb (a b : bytes * bool) : bool := beq (fst a) (fst b) && Bool.eqb (snd a) (snd b).

(* names a service may legitimately appear under in a response *)
Definition svc_names (regs : list registry) (s : svc) : list bytes :=
  let base := [s_ty s; s_full s; s_host s] ++ match s_sub s with Some b => [b] | None => [] end in
  base ++ flat_map (fun rg => [resolve_name rg (s_full s); resolve_name rg (s_host s);
                               resolve_name rg (lower (s_full s))]) regs.

Definition justified (names : list bytes) (n : bytes) : bool :=
  same_name_ci n META_QUERY || existsb (same_name_ci n) names.

Definition live_records (m : omsg) : list rr := filter (fun r => negb (r_ttl r =? 0)) (o_an m ++ o_ar m).

Definition c09_iter (st : dstate) (it : iter) (post : dstate) (obs : list out) (wake : option N) : list verdict :=
  let now := it_now it in
  let g4 := filter (fun g => g_v4 g) (it_dgrams it) in
  let g6 := filter (fun g => negb (g_v4 g)) (it_dgrams it) in
  let '(st1, _, js1) := handle_dgrams st (g4 ++ g6) now (it_jitter it) in
  let '(reps, _, exited, seen) := spec_calls st1 (it_calls it) now js1 true true in
  let resends := if exited then [] else spec_resends st now in
  let obs_gb := filter (fun s => is_goodbye (snd s)) (sends_of obs) in
  let v_reply := if perm_by reply_eqb (replies_of obs) reps then [] else [VFail 1] in
  let '(_, gbs, _, _) := spec_calls st1 (it_calls it) now js1 true true in
  let v_gb := if perm_by send_eqv obs_gb (gbs ++ resends) then [] else [VFail 2] in
  let svcs := map snd (d_svcs st1) ++ seen in
  let v_quiet :=
    flat_map
      (fun s => let '(i, _, _, m) := s in
                if o_resp m then
                  let names := flat_map (svc_names [get_reg st i; get_reg post i]) svcs in
                  if forallb (fun r => justified names (r_name r)) (live_records m) then [] else [VFail 3]
                else [])
      (sends_of obs) in
  (* a probe query proposes SRV / TXT records only under names of registered services: after an
     unregister the probe for the instance name stops (fix d685fcf) *)
  let v_probe :=
    flat_map
      (fun s => let '(i, _, _, m) := s in
                if negb (o_resp m) then
                  let names := flat_map (svc_names [get_reg st i; get_reg post i]) svcs in
                  if forallb (fun r => negb ((r_type r =? TY_SRV) || (r_type r =? TY_TXT)) || justified names (r_name r)) (o_ns m)
                  then [] else [VFail 5]
                else [])
      (sends_of obs) in
  (* the repeat of a goodbye is due 120 ms later: the daemon asks to be woken by then *)
  let pending := flat_map (fun e => match snd e with UnregisterResend _ _ _ => [fst e] | _ => [] end) (d_retrans post) in
  let v_wake :=
    if d_dead post then []
    else match pending with
         | [] => []
         | d0 :: t => let d := fold_left N.min t d0 in
                      match wake with Some w => if w <=? d then [] else [VFail 4] | None => [VFail 4] end
         end in
  v_reply ++ v_gb ++ v_quiet ++ v_probe ++ v_wake.

(* ======================================================================================================
   C08  after a rename, every packet uses the new names; the daemon thread survives
   ====================================================================================================== *)

(* original names that were given up on this interface *)
Definition old_names (rg : registry) : list bytes :=
  flat_map (fun kv => if beq (fst kv) (snd kv) then [] else [fst kv]) (rg_changes rg).

Definition rdata_names (d : rdata) : list bytes :=
  match d with
  | RPtr a => [a]
  | RSrv _ _ _ h => [h]
  | _ => []
  end.

Definition uses_old (olds : list bytes) (r : rr) : bool :=
  existsb (fun o => same_name_ci o (r_name r) || existsb (same_name_ci o) (rdata_names (r_data r))) olds.

(* the owner of an SRV/TXT record is a name that was given up *)
Definition owns_old (olds : list bytes) (r : rr) : bool :=
  ((r_type r =? TY_SRV) || (r_type r =? TY_TXT)) && existsb (fun o => same_name_ci o (r_name r)) olds.

Definition pkey : Type := (N * list bytes)%type.          (* interface, lower-cased labels *)
Definition pkey_eqb (a b : pkey) : bool := (fst a =? fst b) && labels_beq (snd a) (snd b).

Definition probed_keys (os : list out) : list pkey :=
  flat_map (fun s => let '(i, _, _, m) := s in
                     if negb (o_resp m) then map (fun q => (i, lname (fst q))) (o_q m) else []) (sends_of os).

(* Competing probes delivered in this iteration that the daemon LOSES (its probe has started and
   its records compare Less, by the specification's tb_cmp): the name must not be probed again
   before now + 1000. *)
Definition lost_tiebreaks (st : dstate) (it : iter) : list (pkey * N) :=
  flat_map
    (fun g =>
       if g_resp g then []
       else match g_ns g with
            | [] => []
            | _ =>
              flat_map (fun q =>
                 if snd q =? TY_ANY then
                   match aget (fst q) (rg_probing (get_reg st (g_if g))) with
                   | Some pb =>
                     if (pb_start pb <? it_now it)
                        && match tb_cmp (map p_rr (pb_records pb)) (filter (fun r => beq (r_name r) (fst q)) (g_ns g)) with
                           | Lt => true | _ => false end
                     then [((g_if g, lname (fst q)), it_now it + 1000)] else []
                   | None => []
                   end
                 else []) (g_q g)
            end)
    (it_dgrams it).

(* `e`: how the iteration ended on the implementation, `em`: in the model; `mos`: the model's
   outputs of the iteration; `defer`: names deferred by lost tie-breaks and until when. *)
Definition c08_iter (defer : list (pkey * N)) (st : dstate) (it : iter) (post : dstate) (obs mos : list out) (e em : ending)
  : list (pkey * N) * list verdict :=
  let now := it_now it in
  let defer1 := filter (fun kd => now <? snd kd) (defer ++ lost_tiebreaks st it) in
  let early (os : list out) (k : pkey) : bool := existsb (pkey_eqb k) (probed_keys os) in
  (defer1,
   (match e, em with
    | Panicked, _ => [VFail 21]
    | _, _ => [] end)
   ++ flat_map (fun kd => if early obs (fst kd)
                          then (if early mos (fst kd) then [VKnown 30] else [VFail 29]) else []) defer1
   ++ flat_map
        (fun s => let '(i, _, _, m) := s in
                  let olds := old_names (get_reg st i) in
                  if o_resp m && existsb (uses_old olds) (o_an m ++ o_ar m) then
                    if is_goodbye m then [VFail 22]
                    else if is_announcement m then [VFail 24]
                    else if existsb (owns_old olds) (o_an m ++ o_ar m) then [VFail 28]
                    else [VFail 23]
                  else [])
        (sends_of obs)).

(* End of a history in which several daemons on one loss-free link registered the same instance:
   every daemon ends announced (its last announced instance name at least twice), the final
   names are pairwise different, exactly one of them is the name that was registered. *)
Definition ann_names (obs : list out) : list bytes :=
  flat_map (fun s => let m := snd s in
                     if is_announcement m
                     then flat_map (fun r => if r_type r =? TY_SRV then [r_name r] else []) (o_an m)
                     else []) (sends_of obs).

Definition last_opt {A} (l : list A) : option A := match rev l with x :: _ => Some x | [] => None end.

Definition c08_final (registered : bytes) (per_daemon : list (list bytes)) : list verdict :=
  let finals := map last_opt per_daemon in
  let announced_twice :=
    forallb (fun l => match last_opt l with
                      | Some f => Nat.leb 2 (length (filter (same_name_ci f) l))
                      | None => false end) per_daemon in
  let names := flat_map (fun o => match o with Some f => [f] | None => [] end) finals in
  let fix distinct (l : list bytes) : bool :=
    match l with [] => true | x :: t => negb (existsb (same_name_ci x) t) && distinct t end in
  let keepers := length (filter (same_name_ci registered) names) in
  (if announced_twice then [] else [VFail 25])
  ++ (if distinct names then [] else [VFail 26])
  ++ (if Nat.eqb keepers 1 then [] else [VFail 27]).

(* ======================================================================================================
   C07  three probes 250 ms apart, 250 ms of silence, two announcements one second apart
   ====================================================================================================== *)

Section KV.
  Context {K V : Type} (keqb : K -> K -> bool).
  Fixpoint kget (k : K) (l : list (K * V)) : option V :=
    match l with [] => None | (k', v) :: t => if keqb k k' then Some v else kget k t end.
  Fixpoint kset (k : K) (v : V) (l : list (K * V)) : list (K * V) :=
    match l with
    | [] => [(k, v)]
    | (k', v') :: t => if keqb k k' then (k, v) :: t else (k', v') :: kset k v t
    end.
End KV.

Definition rkey : Type := (N * rr)%type.                  (* interface, record as on the wire *)
Definition rr_eqv_nottl (a b : rr) : bool :=
  same_name_ci (r_name a) (r_name b) && (r_type a =? r_type b) && (r_class a =? r_class b)
  && rdata_eqv (r_data a) (r_data b).
Definition rkey_eqb (a b : rkey) : bool := (fst a =? fst b) && rr_eqv_nottl (snd a) (snd b).

Record g7 : Type := mkG7 {
  g_last : list (pkey * N);        (* time of the last probe query for the name (in the current series) *)
  g_cnt : list (pkey * N);         (* number of iterations that sent a probe query for the name (current series) *)
  g_rcnt : list (rkey * N);        (* number of those that carried the record in the authority section *)
  g_est : list pkey;               (* names that completed three probes and the 250 ms wait (and stay held) *)
  g_late : bool;                   (* some iteration ran later than the wake-up the daemon had asked for *)
  g_due : option N;                (* the model's earliest due work after the previous iteration *)
  g_ann : list (pkey * (N * N * bool));  (* instance -> (time of the first announcement, announcements so far,
                                      first announced while an interface was being added) *)
  g_unreg : bool;                  (* an unregister or shutdown call was made *)
  g_toggled : bool }.              (* enable_interface / disable_interface was called *)

Definition g7_init : g7 := mkG7 [] [] [] [] false None [] false false.

Definition dedup_by {A} (eqb : A -> A -> bool) (l : list A) : list A :=
  fold_left (fun acc x => if existsb (eqb x) acc then acc else acc ++ [x]) l [].

(* (interface, name) pairs probed and (interface, record) pairs carried in this iteration *)
Definition probed_names (obs : list out) : list pkey :=
  dedup_by pkey_eqb
    (flat_map (fun s => let '(i, _, _, m) := s in
                        if is_probe m then map (fun q => (i, lname (fst q))) (o_q m) else []) (sends_of obs)).
Definition probed_records (obs : list out) : list rkey :=
  dedup_by rkey_eqb
    (flat_map (fun s => let '(i, _, _, m) := s in
                        if is_probe m then map (fun r => (i, r)) (o_ns m) else []) (sends_of obs)).

Definition incr {K} (keqb : K -> K -> bool) (k : K) (l : list (K * N)) : list (K * N) :=
  kset keqb k (match kget keqb k l with Some n => n + 1 | None => 1 end) l.

Definition unique_type (t : N) : bool := (t =? TY_SRV) || (t =? TY_TXT) || (t =? TY_A) || (t =? TY_AAAA).

(* names of services registered without probing (from the history and the model state) *)
Definition noprobe_names (svcs : list svc) : list bytes :=
  flat_map (fun s => if s_probe s then [] else [s_full s; s_host s]) svcs.

Definition registered_in (cs : list call) : list svc :=
  flat_map (fun c => match c with CRegister s => [s] | _ => [] end) cs.

Definition c07_iter (g : g7) (st : dstate) (it : iter) (post : dstate) (obs : list out) (wake : option N)
  : g7 * list verdict :=
  let now := it_now it in
  let late := g_late g || match g_due g with Some d => d <? now | None => false end in
  (* interfaces that were taken away in this iteration: everything established there is void *)
  let gone (k : N) : bool :=
    match find_intf st k with Some _ => match find_intf post k with None => true | Some _ => false end | None => false end
    || match nget k (d_regs st) with Some _ => match nget k (d_regs post) with None => true | Some _ => false end
                                   | None => false end in
  (* probes that were (re)started in this iteration - by a registration, a lost tie-break, a
     conflict - begin a new series of three (seen in the state after the datagrams, after the calls
     or at the end: a later start_time, or a next_send that moved back) *)
  let g4 := filter (fun d => g_v4 d) (it_dgrams it) in
  let g6 := filter (fun d => negb (g_v4 d)) (it_dgrams it) in
  let '(st1, _, js1) := handle_dgrams st (g4 ++ g6) now (it_jitter it) in
  let '(st2, _, js2) := exec_calls st1 (it_calls it) now js1 in
  let '(st3, _, _) := retransmit st2 now js2 in
  let restarted : list pkey :=
    flat_map (fun mid : dstate =>
      flat_map (fun ir => flat_map (fun np =>
                match aget (fst np) (rg_probing (get_reg st (fst ir))) with
                | Some p0 => if (pb_start p0 <? pb_start (snd np)) || (pb_next (snd np) <? pb_next p0)
                             then [(fst ir, lname (fst np))] else []
                | None => [(fst ir, lname (fst np))]
                end) (rg_probing (snd ir))) (d_regs mid)) [st1; st2; post] in
  (* services that leave the service map in this iteration (unregister): their instance names start
     over - a later registration of the name has to be probed three times anew (fix d685fcf) *)
  let left_names : list bytes :=
    flat_map (fun ks => match aget (fst ks) (d_svcs post) with
                        | Some _ => []
                        | None => s_full (snd ks) :: map (fun ir => resolve_name (snd ir) (s_full (snd ks))) (d_regs st)
                        end) (d_svcs st) in
  let left (k : pkey) : bool := existsb (fun n => labels_beq (snd k) (lname n)) left_names in
  let keepk (k : pkey) : bool := negb (gone (fst k)) && negb (existsb (pkey_eqb k) restarted) in
  let last0 := filter (fun kv => keepk (fst kv)) (g_last g) in
  let cnt0 := filter (fun kv => keepk (fst kv)) (g_cnt g) in
  let rcnt0 := filter (fun kv => keepk (fst (fst kv), lname (r_name (snd (fst kv))))) (g_rcnt g) in
  let est0 := filter (fun k => negb (gone (fst k))) (g_est g) in
  (* a series that is complete by now counts even when this iteration starts a new one for the name
     (a further record of the name goes into a fresh probe) *)
  let lastg := filter (fun kv => negb (gone (fst (fst kv)))) (g_last g) in
  let cntg := filter (fun kv => negb (gone (fst (fst kv)))) (g_cnt g) in
  (* 1. probe spacing *)
  let pn := probed_names obs in
  let v_space :=
    flat_map (fun k => match kget pkey_eqb k last0 with
                       | Some l => if now <? l + 250 then [VFail 31] else []
                       | None => [] end) pn in
  (* probe questions are of type ANY *)
  let v_form :=
    flat_map (fun s => let m := snd s in
                       if is_probe m && negb (forallb (fun q => snd q =? TY_ANY) (o_q m)) then [VFail 37] else [])
             (sends_of obs) in
  (* 2. responses speak only for established names; announcements only carry records that were
        proposed in three probes *)
  let svcs := map snd (d_svcs st) ++ map snd (d_svcs post) ++ registered_in (it_calls it) in
  let free := noprobe_names svcs in
  let est :=
    fold_left (fun acc kc => let '(k, c) := kc in
                             if (3 <=? c)
                                && match kget pkey_eqb k lastg with Some l => l + 250 <=? now | None => false end
                                && negb (existsb (pkey_eqb k) acc)
                             then acc ++ [k] else acc) cntg est0 in
  let established (i : N) (n : bytes) : bool :=
    existsb (same_name_ci n) free || existsb (pkey_eqb (i, lname n)) est in
  (* names of services whose addresses do not follow the interface table: they keep their
     per-interface status when an interface is taken away and comes back *)
  let static_names : list bytes :=
    flat_map (fun s => if s_auto s then [] else svc_names (map snd (d_regs st) ++ map snd (d_regs post)) s) svcs in
  let proposed (i : N) (r : rr) : bool :=
    existsb (same_name_ci (r_name r)) free
    || match kget rkey_eqb (i, r) rcnt0 with Some c => 3 <=? c | None => false end in
  let v_resp :=
    flat_map
      (fun s => let '(i, _, _, m) := s in
                if o_resp m && negb (is_goodbye m) then
                  let uniq := filter (fun r => unique_type (r_type r)) (live_records m) in
                  (if forallb (fun r => established i (r_name r)) uniq then []
                   else if late then [VKnown 42]
                   else if g_toggled g
                           && forallb (fun r => established i (r_name r)
                                                || existsb (same_name_ci (r_name r)) static_names) uniq
                   then [VKnown 48]
                   else [VFail 32])
                  ++ (if is_announcement m
                         && forallb (fun r => established i (r_name r)) uniq
                         && negb (forallb (proposed i) uniq)
                      then [VKnown 44] else [])
                else [])
      (sends_of obs) in
  (* 2b. the shared records too: a PTR (type or subtype -> instance) is said only for an instance name
         that is established on the interface, the service-type enumeration PTR (meta name -> type)
         only if some service of that type has an established instance name there *)
  let inst_names (s : svc) : list bytes :=
    s_full s :: map (fun rg => resolve_name rg (s_full s)) (map snd (d_regs st) ++ map snd (d_regs post)) in
  let ptr_ok (i : N) (r : rr) : bool :=
    match r_data r with
    | RPtr t => if same_name_ci (r_name r) META_QUERY
                then existsb (fun s => beq t (s_ty s) && existsb (established i) (inst_names s)) svcs
                else established i t
    | _ => true
    end in
  let ptr_static (r : rr) : bool :=
    match r_data r with
    | RPtr t => if same_name_ci (r_name r) META_QUERY
                then existsb (fun s => beq t (s_ty s) && negb (s_auto s)) svcs
                else existsb (same_name_ci t) static_names
    | _ => false
    end in
  let v_ptr :=
    flat_map
      (fun s => let '(i, _, _, m) := s in
                if o_resp m && negb (is_goodbye m) then
                  let ptrs := filter (fun r => r_type r =? TY_PTR) (live_records m) in
                  if forallb (ptr_ok i) ptrs then []
                  else if late then [VKnown 42]
                  else if g_toggled g && forallb (fun r => ptr_ok i r || ptr_static r) ptrs then [VKnown 48]
                  else [VFail 36]
                else [])
      (sends_of obs) in
  (* 3. the daemon asks to be woken no later than its next due work *)
  let due := due_work post in
  let v_wake :=
    if d_dead post then []
    else match due, wake with
         | Some d, Some w => if w <=? d then [] else [VFail 34]
         | Some _, None => [VFail 34]
         | None, _ => []
         end in
  (* 4. second announcement one second after the first *)
  let toggled := g_toggled g || existsb (fun c => match c with CIfSel _ _ => true | _ => false end) (it_calls it) in
  let adding := toggled in
  let anns := dedup_by pkey_eqb
                (flat_map (fun s => let '(i, _, _, m) := s in
                                    if is_announcement m
                                    then flat_map (fun r => if r_type r =? TY_SRV then [(i, lname (r_name r))] else [])
                                                  (o_an m)
                                    else []) (sends_of obs)) in
  (* a service that is registered again starts over *)
  let rereg := flat_map (svc_names (map snd (d_regs post))) (registered_in (it_calls it)) in
  (* an interface that lost an address (a family was disabled): what was announced there may have
     nothing left to announce; the pairs on that interface are not followed further *)
  let shrunk (k : N) : bool :=
    match find_intf st k, find_intf post k with
    | Some a, Some b => Nat.ltb (length (if_addrs b)) (length (if_addrs a))
    | _, _ => false
    end in
  let g_ann0 := filter (fun kv => negb (gone (fst (fst kv))) && negb (shrunk (fst (fst kv)))
                                  && negb (existsb (fun n => labels_beq (snd (fst kv)) (lname n)) rereg)) (g_ann g) in
  (* an announcement that a pending RegisterResend makes IS a second announcement (its first may have
     gone out on an earlier incarnation of the interface): it does not open a new pair *)
  let resent : list pkey :=
    flat_map (fun e => match snd e with
                       | RegisterResend full i =>
                         if fst e <=? now
                         then map (fun n => (i, lname n)) (full :: map (fun rg => resolve_name rg full)
                                                                      [get_reg st i; get_reg post i])
                         else []
                       | _ => [] end) (d_retrans st) in
  let g_ann' :=
    fold_left (fun acc k => match kget pkey_eqb k acc with
                            | Some (t0, c, a) => kset pkey_eqb k (t0, c + 1, a) acc
                            | None => kset pkey_eqb k (now, if existsb (pkey_eqb k) resent then 2 else 1, adding) acc
                            end) anns g_ann0 in
  let unreg := g_unreg g || existsb (fun c => match c with CUnregister _ _ | CShutdown => true | _ => false end)
                                    (it_calls it) in
  let v_second :=
    if unreg || late || d_dead post then []
    else flat_map (fun kv : pkey * (N * N * bool) =>
                     let '(t0, c, a) := snd kv in
                     if (t0 + 1000 <=? now) && (c <? 2) then [VFail 35] else []) g_ann' in
  (* what is carried forward: nothing under the instance names of services that left in this iteration
     (the responses of this iteration itself were judged above with what was established before) *)
  (mkG7 (filter (fun kv => negb (left (fst kv))) (fold_left (fun acc k => kset pkey_eqb k now acc) pn last0))
        (filter (fun kv => negb (left (fst kv))) (fold_left (fun acc k => incr pkey_eqb k acc) pn cnt0))
        (filter (fun kv => negb (left (fst (fst kv), lname (r_name (snd (fst kv)))))) (fold_left (fun acc k => incr rkey_eqb k acc) (probed_records obs) rcnt0))
        (filter (fun k => negb (left k)) est) late (if d_dead post then None else due) g_ann' unreg toggled,
   v_space ++ v_form ++ v_resp ++ v_ptr ++ v_wake ++ v_second).

(* ---- running a checker next to the model over a whole history ------------------------------------- *)

Record observed : Type := mkObs { ob_outs : list out; ob_end : ending; ob_wake : option N }.

Fixpoint chk_C09 (st : dstate) (its : list iter) (obs : list observed) : list verdict :=
  match its, obs with
  | it :: t, o :: ot =>
    let '(st', _, _, _) := iterate st it in
    (if d_dead st then [] else c09_iter st it st' (ob_outs o) (ob_wake o)) ++ chk_C09 st' t ot
  | _, _ => []
  end.

Fixpoint chk_C08 (defer : list (pkey * N)) (st : dstate) (its : list iter) (obs : list observed) : list verdict :=
  match its, obs with
  | it :: t, o :: ot =>
    let '(st', mos, em, _) := iterate st it in
    if d_dead st then chk_C08 defer st' t ot
    else let (defer', vs) := c08_iter defer st it st' (ob_outs o) mos (ob_end o) em in vs ++ chk_C08 defer' st' t ot
  | _, _ => []
  end.

Fixpoint chk_C07 (g : g7) (st : dstate) (its : list iter) (obs : list observed) : list verdict :=
  match its, obs with
  | it :: t, o :: ot =>
    let '(st', _, _, _) := iterate st it in
    if d_dead st then chk_C07 g st' t ot
    else let (g', vs) := c07_iter g st it st' (ob_outs o) (ob_wake o) in vs ++ chk_C07 g' st' t ot
  | _, _ => []
  end.

(* the model's own observation of a history, in the same shape *)
Fixpoint model_obs (st : dstate) (its : list iter) : list observed :=
  match its with
  | [] => []
  | it :: t => let '(st', os, e, _) := iterate st it in mkObs os e (due_work st') :: model_obs st' t
  end.

(* ---- what an observer of the wire sees of probing (statement vocabulary of C07's history theorem) ------ *)

(* question names of the probe queries sent on interface k in one iteration *)
Definition probe_names_on (os : list out) (k : N) : list bytes :=
  flat_map (fun o => match o with
                     | OSend i _ _ m => if (i =? k) && negb (o_resp m) then map fst (o_q m) else []
                     | _ => [] end) os.

(* times of the iterations that sent a probe query for name n on interface k *)
Fixpoint wire_probe_times (k : N) (n : bytes) (st : dstate) (its : list iter) : list N :=
  match its with
  | [] => []
  | it :: t =>
    let '(st', os, _, _) := iterate st it in
    (if mem n (probe_names_on os k) then [it_now it] else []) ++ wire_probe_times k n st' t
  end.

Fixpoint iter_times_from (t : N) (its : list iter) : Prop :=
  match its with
  | [] => True
  | it :: r => t <= it_now it /\ iter_times_from (it_now it) r
  end.
