(* Timers of cached records (C12 for the cache layer): the daemon-level model of
   Model/LifeCache.v instantiated with record operations that additionally keep, per cached
   record, the wake-up times the daemon pushes into its timer heap for that record
   (src/service_daemon.rs: handle_response pushes expiry and refresh time of every new or renewed
   record and `now + 1000` for every flushed one; refresh_active_services pushes the new refresh
   time of every record it refreshed; pop_timers_till(now) drops the entries <= now).
   The cache code itself is the SAME Gallina text as for C11 (parametric in `ops`); erasing the
   logs gives back the C11 model (Proofs/LifeTimerProofs.v: log_erase).
   The real heap additionally holds timers of records that are gone, of retransmissions, probes
   and the interface check: a superset, which only adds wake-ups. *)
From Coq Require Import List NArith Bool.
From Mdns Require Import Res Bytes Rec ParamsLife Life LifeSpec LifeCache.
Import ListNotations.
Open Scope N_scope.

Definition lrec : Type := (trec * list N)%type.

Definition log_ops : ops lrec :=
  mkOps lrec
    (fun now ttl => let? r := new_rec now ttl in Ok (r, [t_expires r; t_refresh r]))
    (fun x now => is_expired (fst x) now)
    (fun x now => let? (r', b) := refresh_maybe (fst x) now in
                  Ok ((r', if b then snd x ++ [t_refresh r'] else snd x), b))
    (fun x now => let? (r', b) := refresh_once (fst x) now in Ok ((r', snd x), b))
    (fun x ttl now => let? r' := reset_ttl (fst x) ttl now in Ok (r', snd x ++ [t_expires r'; t_refresh r']))
    (fun inc id x now => should_flush_trec inc id (fst x) now)
    (fun x now => ((set_expires (fst x) (flush_new_expire now), snd x ++ [flush_new_expire now]),
                   flush_new_expire now))
    (fun x now => ka_ttl_trec (fst x) now)
    (fun x => t_ttl (fst x)).

Notation lcache := (cache lrec).
Notation lentry := (centry lrec).

(* pop_timers_till(now) *)
Definition pop_entry (now : N) (e : lentry) : lentry :=
  mkC (c_id e) (fst (c_t e), filter (fun tau => now <? tau) (snd (c_t e))).
Definition pop_cache (now : N) (c : lcache) : lcache :=
  map (fun kb => (fst kb, map (pop_entry now) (snd kb))) c.

(* the timer set *)
Definition timers (c : lcache) : list N :=
  flat_map (fun kb => flat_map (fun e : lentry => snd (c_t e)) (snd kb)) c.

(* DnsCache::remove_service_type (stop_browse): the PTR Vec of the type, the SRV and TXT Vecs
   of its instances, and the address Vecs of their hosts that no remaining SRV record names *)
Section Remove.
Variable T : Type.
Definition names_host (h : bytes) (c : cache T) : bool :=
  existsb (fun kb : ckey * bucket T => (fst (fst kb) =? 1)
             && existsb (fun h' => beq (lower h') h) (hosts_of_bucket T (snd kb))) c.
Definition remove_service_type (ty : bytes) (c : cache T) : cache T :=
  let insts := flat_map (fun e : centry T => match alias_of (c_id e) with Some a => [a] | None => [] end)
                        (get_bucket T c (0, ty)) in
  let hosts := map lower (flat_map (fun i => hosts_of_bucket T (get_bucket T c (1, i))) insts) in
  let c1 := fold_left (fun c i => set_bucket T (set_bucket T c (1, i) []) (2, i) []) insts c in
  let c2 := set_bucket T c1 (0, ty) [] in
  fold_left (fun c h => if names_host h c then c else set_bucket T c (3, h) []) hosts c2.
End Remove.

(* One loop iteration: what arrived, what the API was asked (the searches open once this
   iteration's commands are executed; a browse stopped in this iteration), the clock. *)
Record tstep : Type := mkTStep {
  ts_now : N; ts_nsb : nat; ts_nsh : nat; ts_recs : list (ident * N);
  ts_cfg : simcfg; ts_stop : option bytes }.

Definition t_iter (s : tstep) (c : lcache) : res (lcache * iterobs) :=
  let? c0 := ingest lrec log_ops (pop_cache (ts_now s) c) (ts_now s) (ts_recs s) in
  let c0' := match ts_stop s with Some ty => remove_service_type lrec ty c0 | None => c0 end in
  sim_iter lrec log_ops (ts_cfg s) c0' (ts_now s) (ts_nsb s) (ts_nsh s) [].

(* reachable states: cache with timers, time of the last iteration, searches open *)
Definition tstep_ok (prev : N) (s : tstep) : Prop :=
  prev <= ts_now s /\ ts_now s < B63 /\ Forall rec_ok (ts_recs s).

Inductive treach : lcache -> N -> simcfg -> Prop :=
| treach_init : forall cfg, treach [] 0 cfg
| treach_step : forall c n cfg s c' o,
    treach c n cfg -> tstep_ok n s -> t_iter s c = Ok (c', o) -> treach c' (ts_now s) (ts_cfg s).

(* ---- time-driven work that is due ---- *)

Definition l_expires (e : lentry) : N := t_expires (fst (c_t e)).
Definition l_refresh (e : lentry) : N := t_refresh (fst (c_t e)).

(* Vecs on which eviction works: SRV, TXT and address Vecs always, the PTR Vec of the browsed type *)
Definition acted (cfg : simcfg) (k : ckey) : bool :=
  (fst k =? 1) || (fst k =? 2) || (fst k =? 3) || match sc_browse cfg with Some ty => key_eqb k (0, ty) | None => false end.

(* records the refresh step works on: the PTR records of the browsed type, SRV and TXT records
   of the instances its live PTR records name, address records of the hosts their SRV records
   name, address records of the resolved host name *)
Definition subject (cfg : simcfg) (c : lcache) (now : N) : list lentry :=
  let ptr := match sc_browse cfg with Some ty => get_bucket lrec c (0, ty) | None => [] end in
  let insts := live_instances lrec log_ops ptr now in
  let srvtxt := flat_map (fun i => get_bucket lrec c (1, i) ++ get_bucket lrec c (2, i)) insts in
  let hosts := flat_map (fun i => hosts_of_bucket lrec (get_bucket lrec c (1, i))) insts in
  ptr ++ srvtxt ++ flat_map (fun h => get_bucket lrec c (3, lower h)) hosts
  ++ match sc_host cfg with Some h => get_bucket lrec c (3, lower h) | None => [] end.

(* the times at which the model will do something time-driven if nothing else happens: evict a
   record (ServiceRemoved / AddressesRemoved, also the one-second expiry after a cache flush or
   a goodbye), send a refresh query (the pending mark of a record the refresh step works on;
   a mark in the past means: at once) *)
Definition due_work (cfg : simcfg) (c : lcache) (now : N) : list N :=
  flat_map (fun kb => if acted cfg (fst kb) then map l_expires (snd kb) else []) c
  ++ flat_map (fun e => if l_refresh e <? l_expires e then [l_refresh e] else []) (subject cfg c now).

(* erasing the logs *)
Definition erase_entry (e : lentry) : centry trec := mkC (c_id e) (fst (c_t e)).
Definition erase (c : lcache) : cache trec := map (fun kb => (fst kb, map erase_entry (snd kb))) c.

Fixpoint t_run (c : lcache) (steps : list tstep) : res (list iterobs) :=
  match steps with
  | [] => Ok []
  | s :: rest => let? (c', o) := t_iter s c in let? os := t_run c' rest in Ok (o :: os)
  end.

(* a history of the C11 model (fixed searches, nothing stopped) as a timed history *)
Definition tstep_of (cfg : simcfg) (s : simstep) : tstep :=
  mkTStep (ss_now s) (ss_nsb s) (ss_nsh s) (ss_recs s) cfg None.

(* ---- stopping a browse (C13: the records cached for the stopped browse are forgotten) ---- *)

(* what remove_service_type removes: the instances the PTR records under the type name, the
   (lower-cased) hosts their SRV records name *)
Definition stop_instances (ty : bytes) (c : lcache) : list bytes :=
  flat_map (fun e : lentry => match alias_of (c_id e) with Some a => [a] | None => [] end)
           (get_bucket lrec c (0, ty)).
Definition stop_hosts (ty : bytes) (c : lcache) : list bytes :=
  map lower (flat_map (fun i => hosts_of_bucket lrec (get_bucket lrec c (1, i))) (stop_instances ty c)).
(* the cache once the PTR Vec and the SRV / TXT Vecs of those instances are gone: an address Vec
   is removed iff no SRV record that is left names its host *)
Definition stop_core (ty : bytes) (c : lcache) : lcache :=
  set_bucket lrec
    (fold_left (fun c i => set_bucket lrec (set_bucket lrec c (1, i) []) (2, i) []) (stop_instances ty c) c)
    (0, ty) [].
Definition removed_key (ty : bytes) (c : lcache) (k : ckey) : bool :=
  key_eqb k (0, ty)
  || existsb (fun i => key_eqb k (1, i) || key_eqb k (2, i)) (stop_instances ty c)
  || existsb (fun h => key_eqb k (3, h) && negb (names_host lrec h (stop_core ty c))) (stop_hosts ty c).

(* the cache after the records of an iteration have been taken in (before its commands) *)
Definition after_ingest (s : tstep) (c : lcache) : res lcache :=
  ingest lrec log_ops (pop_cache (ts_now s) c) (ts_now s) (ts_recs s).

(* several iterations in a row *)
Inductive truns : lcache -> N -> list tstep -> lcache -> N -> Prop :=
| truns_nil : forall c n, truns c n [] c n
| truns_cons : forall c n s c1 o steps c' n',
    tstep_ok n s -> t_iter s c = Ok (c1, o) -> truns c1 (ts_now s) steps c' n' ->
    truns c n (s :: steps) c' n'.
