(* Specifications / executable checkers for C11 and C10 at record level (definitions only).
   The property text is phrased here with LITERAL numbers (80/85/90/95/100 %, 1000 ms, half
   TTL); the theorems in Proofs/LifeProofs.v relate the model of the code (Model/Life.v, built
   from the regenerated Gen/ParamsLife.v) to these. The same checkers, extracted, are the monitors
   applied to what the implementation returned. *)
From Coq Require Import List NArith Bool.
From Mdns Require Import Res Bytes Rec Life.
Import ListNotations.
Open Scope N_scope.

(* ---------------------------------------------------------------- the refresh ladder *)

(* refresh_maybe applied at each observation time, collecting the answers *)
Fixpoint refresh_obs (r : trec) (obs : list N) : res (list bool) :=
  match obs with
  | [] => Ok []
  | now :: rest =>
      let? (r', b) := refresh_maybe r now in
      let? bs := refresh_obs r' rest in Ok (b :: bs)
  end.

(* the hostname-resolver variant *)
Fixpoint refresh_once_obs (r : trec) (obs : list N) : res (list bool) :=
  match obs with
  | [] => Ok []
  | now :: rest =>
      let? (r', b) := refresh_once r now in
      let? bs := refresh_once_obs r' rest in Ok (b :: bs)
  end.

(* What the property says: the pending marks are taken one per observation, the next one at
   the first observation at or after it, never at or after expiry. *)
Fixpoint ladder_spec (marks : list N) (expires : N) (obs : list N) : list bool :=
  match obs with
  | [] => []
  | now :: rest =>
      match marks with
      | m :: marks' =>
          if (now <? expires) && (m <=? now) then true :: ladder_spec marks' expires rest
          else false :: ladder_spec marks expires rest
      | [] => false :: ladder_spec [] expires rest
      end
  end.

Definition marks4 (created ttl : N) : list N :=
  [created + 800 * ttl; created + 850 * ttl; created + 900 * ttl; created + 950 * ttl].

Definition count_true (l : list bool) : nat := length (filter (fun b => b) l).

(* times at which the answer was true *)
Fixpoint true_times (obs : list N) (bs : list bool) : list N :=
  match obs, bs with
  | now :: obs', b :: bs' => if b then now :: true_times obs' bs' else true_times obs' bs'
  | _, _ => []
  end.

(* the k-th refresh happens at or after the k-th mark *)
Fixpoint at_or_after (marks times : list N) {struct times} : Prop :=
  match times with
  | [] => True
  | t :: ts => match marks with m :: ms => m <= t /\ at_or_after ms ts | [] => False end
  end.

(* ---------------------------------------------------------------- abstract record state *)

(* What the property lets one know about a cached record: when it was received, with which
   TTL, how many refresh marks have been used (4 = none left), and its current expiry. *)
Record astate : Type := mkA { a_created : N; a_ttl : N; a_k : N; a_expires : N }.

Definition mark_percent (k : N) : N := 80 + 5 * k.          (* k = 0..4 -> 80,85,90,95,100 *)
Definition amark (s : astate) : N := a_created s + a_ttl s * mark_percent (a_k s) * 10.
Definition a_init (created ttl : N) : astate := mkA created ttl 0 (created + 1000 * ttl).
Definition a_due (s : astate) (now : N) : bool :=
  (now <? a_expires s) && (a_k s <? 4) && (amark s <=? now).
Definition a_setk (s : astate) (k : N) : astate := mkA (a_created s) (a_ttl s) k (a_expires s).

(* None = the operation is outside the property's quantifier (raw set_expire, update_ttl on a
   cached record: the daemon applies them only guarded / only to clones);
   Some (s', None) = allowed, result not specified; Some (s', Some x) = result must be x. *)
Definition aspec_op (s : astate) (o : lop) : option (astate * option lout) :=
  match o with
  | OIsExpired now => Some (s, Some (LBool (a_expires s <=? now)))
  | OExpiresSoon now => Some (s, Some (LBool (a_expires s <=? now + 1000)))
  | ORefreshDue now => Some (s, Some (LBool (amark s <=? now)))
  | OHalflife now => Some (s, Some (LBool (a_created s + 500 * a_ttl s <? now)))
  | ORefreshMaybe now =>
      if a_due s now then Some (a_setk s (a_k s + 1), Some (LBool true))
      else Some (s, Some (LBool false))
  | OUpdatedRefresh now =>
      if a_due s now then let s' := a_setk s (a_k s + 1) in Some (s', Some (LOpt (Some (amark s'))))
      else Some (s, Some (LOpt None))
  | ONoMore => Some (a_setk s 4, Some LUnit)
  | ORemaining _ => Some (s, None)
  | OSetExpireSooner x =>
      Some (mkA (a_created s) (a_ttl s) (a_k s) (N.min x (a_expires s)), Some LUnit)
  | OResetTtl t c => Some (mkA c t (if 1 <? t then 0 else 4) (c + 1000 * t), Some LUnit)
  | OSnapshot => Some (s, Some (LSnap (mkT (a_ttl s) (a_created s) (a_expires s) (amark s))))
  | ORefreshOnce now =>
      if a_due s now then Some (a_setk s 4, Some (LBool true)) else Some (s, Some (LBool false))
  | OSetExpire _ | OUpdateTtl _ => None
  end.

Definition trec_eqb (a b : trec) : bool :=
  (t_ttl a =? t_ttl b) && (t_created a =? t_created b) && (t_expires a =? t_expires b)
  && (t_refresh a =? t_refresh b).

Definition lout_eqb (a b : lout) : bool :=
  match a, b with
  | LBool x, LBool y => Bool.eqb x y
  | LOpt None, LOpt None => true
  | LOpt (Some x), LOpt (Some y) => x =? y
  | LUnit, LUnit => true
  | LNum x, LNum y => x =? y
  | LSnap x, LSnap y => trec_eqb x y
  | _, _ => false
  end.

Fixpoint chk_life (s : astate) (ops : list lop) (outs : list lout) : bool :=
  match ops, outs with
  | [], [] => true
  | o :: ops', x :: outs' =>
      match aspec_op s o with
      | None => true
      | Some (s', None) => chk_life s' ops' outs'
      | Some (s', Some y) => lout_eqb x y && chk_life s' ops' outs'
      end
  | _, _ => false
  end.

(* bounds of the quantifier: TTLs of cached records are 1..2^32-1 (a response's TTL 0 is stored
   as 1), clock values below 2^63 *)
Definition B63 : N := 9223372036854775808.
Definition ttl_ok (t : N) : bool := (1 <=? t) && (t <? U32).
Definition op_bounds (o : lop) : bool :=
  match o with
  | OIsExpired n | OExpiresSoon n | ORefreshDue n | OHalflife n | ORefreshMaybe n
  | OUpdatedRefresh n | ORemaining n | OUpdateTtl n | OSetExpire n | OSetExpireSooner n
  | ORefreshOnce n => n <? B63
  | OResetTtl t c => ttl_ok t && (c <? B63)
  | ONoMore | OSnapshot => true
  end.
Definition life_bounds (created ttl : N) (ops : list lop) : bool :=
  ttl_ok ttl && (created <? B63) && forallb op_bounds ops.

(* operations after which a Panic is not excluded by the property: get_remaining_ttl after
   expiry, update_ttl beyond the TTL (both characterised exactly by separate theorems) *)
Definition op_total (o : lop) : bool :=
  match o with ORemaining _ | OUpdateTtl _ => false | _ => true end.

(* C11 monitor for one record's operation history *)
Definition chk_C11_life (created ttl : N) (ops : list lop) (outs : list lout) : bool :=
  if life_bounds created ttl ops then chk_life (a_init created ttl) ops outs else true.

(* ---------------------------------------------------------------- C10 at record level *)

(* "that same record (owner, type, class, RDATA)": the cache-flush bit is not part of it;
   address records are additionally tied to the interface they belong to *)
Definition same_record (a b : ident) : bool :=
  beq (i_name a) (i_name b) && (i_type a =? i_type b) && (i_class a =? i_class b)
  && beq_rdata (i_data a) (i_data b)
  && (if is_addr_data (i_data a) then i_if a =? i_if b else true).

(* suppression as the property states it: same record and listed TTL above half *)
Definition suppress_spec (mine : ident) (mine_ttl : N) (theirs : ident) (theirs_ttl : N) : bool :=
  same_record mine theirs && (mine_ttl <? 2 * theirs_ttl).

(* monitor of a `rel` observation (matches, rrdata_match, suppressed_by_answer) *)
Definition chk_C10_rel (mine : ident) (mine_ttl : N) (theirs : ident) (theirs_ttl : N) (m r s : bool) : bool :=
  Bool.eqb s (suppress_spec mine mine_ttl theirs theirs_ttl) && (implb m r).

(* remaining TTL written into a known answer, as the property states it *)
Definition ka_ttl_spec (ttl created now : N) : N := ttl - (now - created) / 1000.
