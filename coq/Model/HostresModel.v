(* C17: model of hostname resolution in the daemon, as the code is (src/service_daemon.rs:
   exec_command_resolve_hostname, add_hostname_resolver, query_cache_for_hostname,
   exec_command_stop_resolve_hostname, the resolver-timeout / retransmission / address-refresh /
   eviction blocks of Zeroconf::run, handle_response; src/dns_cache.rs: add_or_update,
   get_addresses_for_host, evict_expired_addr, refresh_due_hostname_resolutions).

   Domain of the model: histories whose API calls are resolve_hostname / stop_resolve_hostname
   (no browse, no registration), responses with arbitrary records.  Only address records are
   kept in the model's cache; of the other records only "is a PTR in the answer section"
   matters (the is_for_us rule), because no service type is browsed.

   One loop iteration (Zeroconf::run after the gate):
     1 responses (handle_read -> handle_response)   2 resolver timeouts   3 commands
     4 due retransmissions   5 address refresh   6 eviction            [7 channel closure]
   Hash-map iteration orders are unspecified in Rust; the model uses insertion order and the
   observation is canonicalised (`canon_out`) before it is compared.
   Definitions only. *)
From Coq Require Import List NArith Bool.
From Mdns Require Import Bytes ParamsHostres HostresBase.
Import ListNotations.
Open Scope N_scope.

(* ---- cached address record (DnsRecordIntf holding a DnsAddress) --------------------------- *)
Record arec := mkA {
  a_name : name;      (* owner name, spelled as received *)
  a_ty : N;           (* 1 = A, 28 = AAAA *)
  a_class : N;        (* class without the cache-flush bit *)
  a_flush : bool;     (* cache-flush bit (part of DnsEntry equality) *)
  a_addr : bytes;     (* 4 or 16 bytes *)
  a_if : N;           (* interface index the record was received on *)
  a_life : life }.

Definition a_set_life (l : life) (r : arec) : arec :=
  mkA (a_name r) (a_ty r) (a_class r) (a_flush r) (a_addr r) (a_if r) l.

(* DnsAddress::matches: address, DnsEntry (name as spelled, type, class, cache-flush) and
   interface all equal *)
Definition arec_matches (r x : arec) : bool :=
  beq (a_addr r) (a_addr x) && beq (a_name r) (a_name x) && (a_ty r =? a_ty x)
  && (a_class r =? a_class x) && Bool.eqb (a_flush r) (a_flush x) && (a_if r =? a_if x).

(* cache.addr: HashMap<lower-cased name, Vec<DnsRecordIntf>>; an absent key and an empty
   bucket are indistinguishable for every operation modelled here *)
Definition cache := list (name * list arec).
Definition bucket_of (c : cache) (k : name) : list arec :=
  match aget k c with Some b => b | None => [] end.

(* ---- inputs ------------------------------------------------------------------------------ *)
Record inrec := mkIn {
  i_ans : bool;       (* in the answer section *)
  i_ty : N;
  i_name : name;
  i_class : N;
  i_flush : bool;
  i_ttl : N;          (* as on the wire *)
  i_data : bytes }.   (* address bytes for A / AAAA *)
(* records in DnsIncoming::all_records order: answers, authorities, additionals *)
Record msg := mkMsg { m_if : N; m_recs : list inrec }.

Inductive call :=
| CResolve (host : name) (timeout : option N) (chan : N)   (* accepted resolve_hostname *)
| CStop (host : name).                                     (* stop_resolve_hostname *)

Record iter := mkIter { it_now : N; it_calls : list call; it_msgs : list msg }.

(* ---- outputs ------------------------------------------------------------------------------ *)
Inductive ev :=
| EStarted (host : name)
| EFound (host : name) (addrs : list saddr)
| ERemoved (host : name) (addrs : list saddr)
| ETimeout (host : name)
| EStopped (host : name)
| EClosed.

Definition query := list (name * N).      (* the question section of one query message *)

Record out := mkOut { o_now : N; o_events : list (N * ev); o_queries : list query }.

(* ---- state ---------------------------------------------------------------------------------- *)
Record resolver := mkRes { r_key : name; r_chan : N; r_deadline : option N }.
Record rerun := mkRR { rr_time : N; rr_host : name; rr_delay : N; rr_chan : N }.
Record st := mkSt {
  s_cache : cache;
  s_res : list resolver;       (* hostname_resolvers *)
  s_retr : list rerun;         (* retransmissions holding Command::ResolveHostname, Vec order *)
  s_open : list N }.           (* channels handed out and not yet seen disconnected *)

Definition st0 : st := mkSt [] [] [] [].

Fixpoint find_res (k : name) (l : list resolver) : option resolver :=
  match l with
  | [] => None
  | r :: t => if beq k (r_key r) then Some r else find_res k t
  end.
Definition del_res (k : name) (l : list resolver) : list resolver :=
  filter (fun r => negb (beq k (r_key r))) l.
(* HashMap::insert *)
Fixpoint set_res (x : resolver) (l : list resolver) : list resolver :=
  match l with
  | [] => [x]
  | r :: t => if beq (r_key x) (r_key r) then x :: t else r :: set_res x t
  end.

(* ---- get_addresses_for_host: spelling -> set of (address, interface) ----------------------- *)
Fixpoint group_add (sp : name) (a : saddr) (m : list (name * list saddr)) : list (name * list saddr) :=
  match m with
  | [] => [(sp, [a])]
  | (sp', s) :: t => if beq sp sp' then (sp', saddr_add a s) :: t else (sp', s) :: group_add sp a t
  end.
Definition group_addrs (b : list arec) : list (name * list saddr) :=
  fold_left (fun m r => group_add (a_name r) (a_addr r, a_if r) m) b [].
Definition addresses_for_host (c : cache) (host : name) : list (name * list saddr) :=
  group_addrs (bucket_of c (lower host)).

(* ---- handle_response ------------------------------------------------------------------------ *)
(* the is_for_us loop over the answer section, with no browsed service type *)
Fixpoint for_us_scan (res : list resolver) (answers : list inrec) (acc : bool) : bool :=
  match answers with
  | [] => acc
  | r :: t =>
    if i_ty r =? ty_PTR then for_us_scan res t false
    else if is_addr_ty (i_ty r) then
      match find_res (lower (i_name r)) res with
      | Some _ => true                       (* break *)
      | None => for_us_scan res t acc
      end
    else for_us_scan res t acc
  end.
Definition is_for_us (res : list resolver) (m : msg) : bool :=
  for_us_scan res (filter i_ans (m_recs m)) true.

Definition arec_of (now ifx : N) (r : inrec) : arec :=
  mkA (i_name r) (i_ty r) (i_class r) (i_flush r) (i_data r) ifx (life_new now (wire_ttl (i_ttl r))).

(* cache-flush pass of add_or_update over the existing records of the bucket *)
Definition flush_one (now : N) (x r : arec) : arec :=
  if (a_class x =? a_class r) && (a_ty x =? a_ty r)
     && hp_flush_old_enough now (l_created (a_life r))
     && hp_flush_far_enough now (l_expires (a_life r))
     && (a_if r =? a_if x)
  then a_set_life (life_set_expire (hp_flush_new_expire now) (a_life r)) r
  else r.

(* first record that `matches`: reset_ttl on it *)
Fixpoint update_match (now : N) (x : arec) (b : list arec) : option (list arec) :=
  match b with
  | [] => None
  | r :: t =>
    if arec_matches r x then Some (a_set_life (life_reset now (l_ttl (a_life x))) r :: t)
    else match update_match now x t with
         | Some t' => Some (r :: t')
         | None => None
         end
  end.

(* a matching record that was on its way out (TTL <= 1, a goodbye) and is announced again with
   TTL > 1 counts as new *)
Fixpoint revived (x : arec) (b : list arec) : bool :=
  match b with
  | [] => false
  | r :: t => if arec_matches r x then hp_revived (l_ttl (a_life r)) (l_ttl (a_life x)) else revived x t
  end.

(* DnsCache::add_or_update for an address record; result: new cache, "a new record was added" *)
Definition add_or_update (now : N) (for_us : bool) (x : arec) (c : cache) : cache * bool :=
  let k := lower (a_name x) in
  let b := bucket_of c k in
  match b, for_us with
  | [], false => (c, false)
  | _, _ =>
    let b1 := if a_flush x then map (flush_one now x) b else b in
    match update_match now x b1 with
    | Some b2 => (aset k b2 c, revived x b1)
    | None => (aset k (x :: b1) c, true)
    end
  end.

Definition found_events (res : list resolver) (c : cache) (host : name) : list (N * ev) :=
  match find_res (lower host) res with
  | None => []
  | Some r => map (fun g => (r_chan r, EFound (fst g) (snd g))) (addresses_for_host c host)
  end.

Definition absorb (now : N) (fu : bool) (ifx : N) (acc : cache * list name) (r : inrec) : cache * list name :=
  if is_addr_ty (i_ty r) then
    let x := arec_of now ifx r in
    let '(c', isnew) := add_or_update now fu x (fst acc) in
    (c', if isnew then snd acc ++ [a_name x] else snd acc)
  else acc.

(* handle_response on (resolver table, cache): new cache and the AddressesFound events *)
Definition respond (now : N) (res : list resolver) (c : cache) (m : msg) : cache * list (N * ev) :=
  let fu := is_for_us res m in
  let '(c', changes) := fold_left (absorb now fu (m_if m)) (m_recs m) (c, []) in
  (c', flat_map (found_events res c') changes).

Definition respond_all (now : N) (res : list resolver) (c : cache) (ms : list msg) : cache * list (N * ev) :=
  fold_left (fun acc m => let '(c', e) := respond now res (fst acc) m in (c', snd acc ++ e)) ms (c, []).

(* ---- resolver timeouts ---------------------------------------------------------------------- *)
Definition timed_out (now : N) (r : resolver) : bool :=
  match r_deadline r with Some d => hp_deadline_reached now d | None => false end.

Definition do_timeouts (now : N) (s : st) : st * list (N * ev) :=
  (mkSt (s_cache s) (filter (fun r => negb (timed_out now r)) (s_res s)) (s_retr s) (s_open s),
   flat_map (fun r => [(r_chan r, ETimeout (r_key r)); (r_chan r, EStopped (r_key r))])
            (filter (timed_out now) (s_res s))).

(* ---- commands ------------------------------------------------------------------------------- *)
Definition host_query (host : name) : query := [(host, ty_A); (host, ty_AAAA)].

Definition rearm_ok (res : list resolver) (host : name) (next_time : N) : bool :=
  match find_res (lower host) res with
  | Some r => match r_deadline r with Some d => hp_host_rearm next_time d | None => true end
  | None => true
  end.

(* the part of exec_command_resolve_hostname common to first run and re-run: the query and
   the next retransmission *)
Definition send_and_rearm (now : N) (host : name) (delay chan : N) (s : st) : st * list query :=
  let next_time := now + delay * hp_host_delay_unit_ms in
  let delay' := N.min (hp_host_next_delay delay hp_host_max_delay) hp_host_max_delay in
  let retr := if rearm_ok (s_res s) host next_time
              then s_retr s ++ [mkRR next_time host delay' chan] else s_retr s in
  (mkSt (s_cache s) (s_res s) retr (s_open s), [host_query host]).

Definition exec_call (now : N) (s : st) (c : call) : st * list (N * ev) * list query :=
  match c with
  | CResolve host timeout chan =>
    let k := lower host in
    let retr := filter (fun rr => negb (beq (lower (rr_host rr)) k)) (s_retr s) in
    let res := set_res (mkRes k chan (option_map (sat_add now) timeout)) (s_res s) in
    let replay := map (fun g => (chan, EFound (fst g) (snd g))) (addresses_for_host (s_cache s) host) in
    let s1 := mkSt (s_cache s) res retr (s_open s ++ [chan]) in
    let '(s2, qs) := send_and_rearm now host hp_host_first_delay chan s1 in
    (s2, (chan, EStarted host) :: replay, qs)
  | CStop host =>
    let k := lower host in
    match find_res k (s_res s) with
    | None => (s, [], [])
    | Some r =>
      (mkSt (s_cache s) (del_res k (s_res s))
            (filter (fun rr => negb (beq (lower (rr_host rr)) k)) (s_retr s)) (s_open s),
       [(r_chan r, EStopped k)], [])
    end
  end.

(* ---- due retransmissions -------------------------------------------------------------------- *)
Definition rr_due (now : N) (rr : rerun) : bool := hp_rerun_due now (rr_time rr).

(* a retransmission whose search was stopped or timed out meanwhile does not run *)
Definition exec_rerun (now : N) (acc : st * list (N * ev) * list query) (rr : rerun)
  : st * list (N * ev) * list query :=
  let '(s, evs, qs) := acc in
  match find_res (lower (rr_host rr)) (s_res s) with
  | None => acc
  | Some _ =>
    let '(s', q) := send_and_rearm now (rr_host rr) (rr_delay rr) (rr_chan rr) s in
    (s', evs ++ [(rr_chan rr, EStarted (rr_host rr))], qs ++ q)
  end.

Definition do_reruns (now : N) (s : st) : st * list (N * ev) * list query :=
  let due := filter (rr_due now) (s_retr s) in
  let keep := filter (fun rr => negb (rr_due now rr)) (s_retr s) in
  fold_left (exec_rerun now) due (mkSt (s_cache s) (s_res s) keep (s_open s), [], []).

(* ---- refresh of address records of resolved names (once, at 80 %) --------------------------- *)
Definition refresh_wanted (now : N) (r : arec) : bool :=
  negb (life_expired now (a_life r)) && life_refresh_due now (a_life r).

Definition refresh_bucket (now : N) (b : list arec) : list arec * list saddr :=
  (map (fun r => if refresh_wanted now r then a_set_life (life_no_more (a_life r)) r else r) b,
   fold_left (fun acc r => if refresh_wanted now r then saddr_add (a_addr r, a_if r) acc else acc) b []).

Definition refresh_one (now : N) (acc : cache * list query) (r : resolver) : cache * list query :=
  let '(c, qs) := acc in
  match aget (r_key r) c with
  | None => (c, qs)
  | Some b =>
    let '(b', due) := refresh_bucket now b in
    (aset (r_key r) b' c, qs ++ map (fun a => [(r_key r, addr_qtype (fst a))]) due)
  end.

Definition refresh_all (now : N) (res : list resolver) (c : cache) : cache * list query :=
  fold_left (refresh_one now) res (c, []).

Definition do_refresh (now : N) (s : st) : st * list query :=
  let '(c, qs) := refresh_all now (s_res s) (s_cache s) in
  (mkSt c (s_res s) (s_retr s) (s_open s), qs).

(* ---- eviction --------------------------------------------------------------------------------- *)
Definition a_expired (now : N) (r : arec) : bool := life_expired now (a_life r).

Definition evict_cache (now : N) (c : cache) : cache :=
  filter (fun kb => match snd kb with [] => false | _ => true end)
         (map (fun kb => (fst kb, filter (fun r => negb (a_expired now r)) (snd kb))) c).

Definition evicted (now : N) (c : cache) : list arec :=
  flat_map (fun kb => filter (a_expired now) (snd kb)) c.

Definition removed_events (res : list resolver) (g : name * list saddr) : list (N * ev) :=
  match find_res (lower (fst g)) res with
  | None => []
  | Some r => [(r_chan r, ERemoved (fst g) (snd g))]
  end.

Definition evict_all (now : N) (res : list resolver) (c : cache) : cache * list (N * ev) :=
  (evict_cache now c, flat_map (removed_events res) (group_addrs (evicted now c))).

Definition do_evict (now : N) (s : st) : st * list (N * ev) :=
  let '(c, e) := evict_all now (s_res s) (s_cache s) in
  (mkSt c (s_res s) (s_retr s) (s_open s), e).

(* ---- channel closure: no Sender left (resolver table, queued retransmission) ---------------- *)
Definition chan_held (s : st) (c : N) : bool :=
  existsb (fun r => r_chan r =? c) (s_res s) || existsb (fun rr => rr_chan rr =? c) (s_retr s).

Definition do_closed (s : st) : st * list (N * ev) :=
  (mkSt (s_cache s) (s_res s) (s_retr s) (filter (chan_held s) (s_open s)),
   map (fun c => (c, EClosed)) (filter (fun c => negb (chan_held s c)) (s_open s))).

(* ---- one iteration ---------------------------------------------------------------------------- *)
Definition fold_msgs (now : N) (s : st) (ms : list msg) : st * list (N * ev) :=
  let '(c, e) := respond_all now (s_res s) (s_cache s) ms in
  (mkSt c (s_res s) (s_retr s) (s_open s), e).

Definition fold_calls (now : N) (s : st) (cs : list call) : st * list (N * ev) * list query :=
  fold_left (fun acc c => let '(s0, e0, q0) := acc in
                          let '(s', e, q) := exec_call now s0 c in (s', e0 ++ e, q0 ++ q))
            cs (s, [], []).

Definition step (s : st) (i : iter) : st * out :=
  let now := it_now i in
  let '(s1, e1) := fold_msgs now s (it_msgs i) in
  let '(s2, e2) := do_timeouts now s1 in
  let '(s3, e3, q3) := fold_calls now s2 (it_calls i) in
  let '(s4, e4, q4) := do_reruns now s3 in
  let '(s5, q5) := do_refresh now s4 in
  let '(s6, e6) := do_evict now s5 in
  let '(s7, e7) := do_closed s6 in
  (s7, mkOut now (e1 ++ e2 ++ e3 ++ e4 ++ e6 ++ e7) (q3 ++ q4 ++ q5)).

Fixpoint run_from (s : st) (h : list iter) : list out :=
  match h with
  | [] => []
  | i :: t => let '(s', o) := step s i in o :: run_from s' t
  end.
Definition run (h : list iter) : list out := run_from st0 h.

Fixpoint state_after (s : st) (h : list iter) : st :=
  match h with
  | [] => s
  | i :: t => state_after (fst (step s i)) t
  end.

(* ---- what the daemon has to wake up for (DESIGN Appendix C, hostname part) ------------------ *)
Definition rec_due (res : list resolver) (kb : name * list arec) : list N :=
  flat_map (fun r =>
    l_expires (a_life r) ::
    match find_res (fst kb) res with
    | Some _ => if l_refresh (a_life r) <? l_expires (a_life r) then [l_refresh (a_life r)] else []
    | None => []
    end) (snd kb).
Definition due_times (s : st) : list N :=
  flat_map (fun r => match r_deadline r with Some d => [d] | None => [] end) (s_res s)
  ++ map rr_time (s_retr s)
  ++ flat_map (rec_due (s_res s)) (s_cache s).

(* ---- canonical form of the observation ---------------------------------------------------- *)
(* runs of AddressesFound (resp. AddressesRemoved) events come out of a HashMap iteration:
   sorted by spelling, then address set; address sets sorted; queries of one iteration sorted *)
Definition canon_addrs (l : list saddr) : list saddr := isort saddr_leb l.

Definition canon_ev (e : ev) : ev :=
  match e with
  | EFound h a => EFound h (canon_addrs a)
  | ERemoved h a => ERemoved h (canon_addrs a)
  | _ => e
  end.

Definition ev_rank (e : ev) : N :=
  match e with EFound _ _ => 1 | ERemoved _ _ => 2 | _ => 0 end.
Definition ev_key (e : ev) : name * list saddr :=
  match e with EFound h a => (h, a) | ERemoved h a => (h, a) | _ => ([], []) end.
Definition key_leb (a b : name * list saddr) : bool :=
  if beq (fst a) (fst b) then saddrs_leb (snd a) (snd b) else lex_leb (fst a) (fst b).

(* insert e into the sorted run of same-rank events that starts the list *)
Fixpoint ins_run (e : ev) (r : list ev) : list ev :=
  match r with
  | [] => [e]
  | x :: r' =>
    if ev_rank x =? ev_rank e then
      if key_leb (ev_key e) (ev_key x) then e :: r else x :: ins_run e r'
    else e :: r
  end.
Fixpoint sort_runs (l : list ev) : list ev :=
  match l with
  | [] => []
  | e :: t => if ev_rank e =? 0 then e :: sort_runs t else ins_run e (sort_runs t)
  end.

Definition chans_of (l : list (N * ev)) : list N :=
  isort N.leb (fold_left (fun acc x => if existsb (N.eqb (fst x)) acc then acc else acc ++ [fst x]) l []).

Definition canon_events (l : list (N * ev)) : list (N * ev) :=
  flat_map (fun c => map (fun e => (c, e))
                         (sort_runs (map (fun x => canon_ev (snd x)) (filter (fun x => fst x =? c) l))))
           (chans_of l).

Definition q_leb (a b : name * N) : bool :=
  if beq (fst a) (fst b) then snd a <=? snd b else lex_leb (fst a) (fst b).
Fixpoint query_leb (a b : query) : bool :=
  match a, b with
  | [], _ => true
  | _ :: _, [] => false
  | x :: a', y :: b' =>
    if beq (fst x) (fst y) && (snd x =? snd y) then query_leb a' b' else q_leb x y
  end.

Definition canon_out (o : out) : out :=
  mkOut (o_now o) (canon_events (o_events o)) (isort query_leb (o_queries o)).

(* the observation: one canonical record per iteration *)
Definition out_nonempty (o : out) : bool :=
  match o_events o, o_queries o with [], [] => false | _, _ => true end.

Definition observe (l : list out) : list out := map canon_out l.
