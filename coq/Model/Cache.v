(* Model of the record cache src/dns_cache.rs (DnsCache) together with the record lifetime
   fields of src/dns_parser.rs (DnsRecord: ttl / created / expires / refresh) as far as the
   browser side uses them.

   HashMap<String, Vec<DnsRecordIntf>>  ->  association list  key -> bucket  (insertion order;
   the Vec order inside a bucket is kept exactly: insert(0, ..), first(), find).
   A bucket may be EMPTY: `entry(..).or_default()` in add_or_update creates it even when the
   record is then refused as "not for us"; the empty bucket is observable until the eviction at
   the end of the loop iteration sweeps it (query_unresolved, evict_expired_services).
   Interfaces are identified by their index (the histories use a one-to-one name/index table).
   Definitions only; proofs are in Proofs/CacheProofs.v. *)
From Coq Require Import List NArith Bool.
From Mdns Require Import Bytes Rec ParamsBrowser.
Import ListNotations.
Open Scope N_scope.

(* ---- one cached record: DnsRecordIntf ------------------------------------------------------ *)

Record entry : Type := mkEntry {
  e_rr : rr;          (* name, type, class, cache-flush bit, ttl (seconds), rdata *)
  e_created : N;      (* millis *)
  e_expires : N;
  e_refresh : N;
  e_if : N }.         (* src_intf; for A/AAAA also DnsAddress.interface_id *)

Definition e_type (e : entry) : N := r_type (e_rr e).
Definition e_ttl (e : entry) : N := r_ttl (e_rr e).
Definition e_name (e : entry) : bytes := r_name (e_rr e).

Definition set_expires (e : entry) (x : N) : entry :=
  mkEntry (e_rr e) (e_created e) x (e_refresh e) (e_if e).
Definition set_refresh (e : entry) (x : N) : entry :=
  mkEntry (e_rr e) (e_created e) (e_expires e) x (e_if e).
Definition set_ttl (r : rr) (ttl : N) : rr :=
  mkRR (r_name r) (r_type r) (r_class r) (r_flush r) ttl (r_data r).

(* DnsRecord::new, with created = the virtual time of the iteration that decodes the packet *)
Definition new_entry (r : rr) (now ifx : N) : entry :=
  mkEntry r now (expiration_time now (r_ttl r) new_expires_percent)
          (expiration_time now (r_ttl r) new_refresh_percent) ifx.

Definition is_expired (e : entry) (now : N) : bool := is_expired_g now (e_expires e).
Definition expires_soon (e : entry) (now : N) : bool := expires_soon_g now (e_expires e).
Definition refresh_due (e : entry) (now : N) : bool := refresh_due_g now (e_refresh e).

(* DnsRecord::reset_ttl(other): other = the incoming record, created in this iteration *)
Definition reset_ttl (e : entry) (incoming : rr) (now : N) : entry :=
  let ttl := r_ttl incoming in
  let expires := expiration_time now ttl reset_expires_percent in
  mkEntry (set_ttl (e_rr e) ttl) now expires
          (if reset_refresh_guard ttl then expiration_time now ttl reset_refresh_percent else expires)
          (e_if e).

(* set_expire_sooner *)
Definition expire_sooner (e : entry) (at_ : N) : entry :=
  if expire_sooner_guard at_ (e_expires e) then set_expires e at_ else e.

(* refresh_maybe / updated_refresh_time: (record', was due) *)
Definition refresh_maybe (e : entry) (now : N) : entry * bool :=
  if is_expired e now || negb (refresh_due e now) then (e, false)
  else
    let at_ p := expiration_time (e_created e) (e_ttl e) p in
    let r := e_refresh e in
    (set_refresh e
       (if r =? at_ ladder_from1 then at_ ladder_to1
        else if r =? at_ ladder_from2 then at_ ladder_to2
        else if r =? at_ ladder_from3 then at_ ladder_to3
        else at_ no_more_percent), true).

(* ---- record identity: DnsRecordExt::matches ------------------------------------------------ *)

Definition is_addr_type (t : N) : bool := (t =? TY_A) || (t =? TY_AAAA).

(* same DnsEntry (name, type, class, cache-flush bit) and same rdata; address records
   additionally the same interface_id *)
Definition rr_matches (a : rr) (aif : N) (b : rr) (bif : N) : bool :=
  beq (r_name a) (r_name b) && (r_type a =? r_type b) && (r_class a =? r_class b)
  && Bool.eqb (r_flush a) (r_flush b) && beq_rdata (r_data a) (r_data b)
  && (if is_addr_type (r_type a) then aif =? bif else true).

Definition entry_matches (e : entry) (r : rr) (ifx : N) : bool :=
  rr_matches (e_rr e) (e_if e) r ifx.

(* ---- maps -------------------------------------------------------------------------------- *)

Definition bucket := list entry.
Definition bmap := list (bytes * bucket).

Fixpoint bm_get (k : bytes) (m : bmap) : option bucket :=
  match m with
  | [] => None
  | (k', b) :: t => if beq k k' then Some b else bm_get k t
  end.

(* replace the bucket of k (first occurrence), or append (k, b) *)
Fixpoint bm_set (k : bytes) (b : bucket) (m : bmap) : bmap :=
  match m with
  | [] => [(k, b)]
  | (k', b') :: t => if beq k k' then (k', b) :: t else (k', b') :: bm_set k b t
  end.

Fixpoint bm_remove (k : bytes) (m : bmap) : bmap :=
  match m with
  | [] => []
  | (k', b) :: t => if beq k k' then bm_remove k t else (k', b) :: bm_remove k t
  end.

Definition bm_has (k : bytes) (m : bmap) : bool :=
  match bm_get k m with Some _ => true | None => false end.

Definition bm_count (m : bmap) : N := fold_right (fun kb acc => N.of_nat (length (snd kb)) + acc) 0 m.

Record cache : Type := mkCache {
  c_ptr : bmap;                     (* keyed by ty_domain *)
  c_srv : bmap;                     (* keyed by instance fullname *)
  c_txt : bmap;
  c_addr : bmap;                    (* keyed by LOWER-CASED host name *)
  c_nsec : bmap;
  c_sub : list (bytes * bytes) }.   (* instance fullname -> subtype PTR name *)

Definition empty_cache : cache := mkCache [] [] [] [] [] [].

Inductive kind : Type := KPtr | KSrv | KTxt | KAddr | KNsec.

Definition kind_of_type (t : N) : option kind :=
  if t =? TY_PTR then Some KPtr
  else if t =? TY_SRV then Some KSrv
  else if t =? TY_TXT then Some KTxt
  else if is_addr_type t then Some KAddr
  else if t =? TY_NSEC then Some KNsec
  else None.

Definition get_map (c : cache) (k : kind) : bmap :=
  match k with KPtr => c_ptr c | KSrv => c_srv c | KTxt => c_txt c | KAddr => c_addr c | KNsec => c_nsec c end.

Definition set_map (c : cache) (k : kind) (m : bmap) : cache :=
  match k with
  | KPtr => mkCache m (c_srv c) (c_txt c) (c_addr c) (c_nsec c) (c_sub c)
  | KSrv => mkCache (c_ptr c) m (c_txt c) (c_addr c) (c_nsec c) (c_sub c)
  | KTxt => mkCache (c_ptr c) (c_srv c) m (c_addr c) (c_nsec c) (c_sub c)
  | KAddr => mkCache (c_ptr c) (c_srv c) (c_txt c) m (c_nsec c) (c_sub c)
  | KNsec => mkCache (c_ptr c) (c_srv c) (c_txt c) (c_addr c) m (c_sub c)
  end.

(* the key under which a record of kind k with owner `name` is filed *)
Definition key_of (k : kind) (name : bytes) : bytes :=
  match k with KAddr => lower name | _ => name end.

(* ---- split_sub_domain: does the name contain "._sub." ? ------------------------------------- *)

Definition SUB_MARK : bytes := [46; 95; 115; 117; 98; 46].   (* "._sub." *)

Fixpoint is_prefix (p s : bytes) : bool :=
  match p, s with
  | [], _ => true
  | x :: p', y :: s' => (x =? y) && is_prefix p' s'
  | _ :: _, [] => false
  end.

Fixpoint has_infix (p s : bytes) : bool :=
  is_prefix p s || match s with [] => false | _ :: t => has_infix p t end.

Definition has_sub_mark (name : bytes) : bool := has_infix SUB_MARK name.

Fixpoint sub_get (k : bytes) (m : list (bytes * bytes)) : option bytes :=
  match m with
  | [] => None
  | (k', v) :: t => if beq k k' then Some v else sub_get k t
  end.

(* ---- add_or_update ---------------------------------------------------------------------------

   Returns the new cache and None (refused / unsupported type) or Some (stored record, is_new);
   is_new also for a revived record (see update_first).
   `now` is current_time_millis() of the iteration = created of the incoming record. *)

Definition alias_of (r : rr) : bytes := match r_data r with RPtr a => a | _ => [] end.

Definition flush_one (r : rr) (ifx now : N) (e : entry) : entry :=
  if flush_cond (r_class r) (r_class (e_rr e)) (r_type r) (e_type e) now (e_created e) (e_expires e)
     && (if flush_is_addr_type (r_type r) then flush_same_intf (e_if e) ifx else true)
  then set_expires e (flush_new_expire now) else e.

(* find the first matching record and reset its TTL; `revived`: it was on its way out
   (TTL <= 1, a goodbye) and is announced again with TTL > 1 - reported like a new record *)
Fixpoint update_first (b : bucket) (r : rr) (ifx now : N) : option (bucket * (entry * bool)) :=
  match b with
  | [] => None
  | e :: t =>
    if entry_matches e r ifx
    then let e' := reset_ttl e r now in Some (e' :: t, (e', revived_guard (e_ttl e) (r_ttl r)))
    else match update_first t r ifx now with
         | Some (t', x) => Some (e :: t', x)
         | None => None
         end
  end.

Definition note_subtype (c : cache) (r : rr) (for_us : bool) : cache :=
  if (r_type r =? TY_PTR) && for_us && has_sub_mark (r_name r) then
    match r_data r with
    | RPtr alias =>
      match sub_get alias (c_sub c) with
      | Some _ => c
      | None => mkCache (c_ptr c) (c_srv c) (c_txt c) (c_addr c) (c_nsec c) (c_sub c ++ [(alias, r_name r)])
      end
    | _ => c
    end
  else c.

Definition add_or_update (c : cache) (now ifx : N) (r : rr) (for_us : bool)
    : cache * option (entry * bool) :=
  let c1 := note_subtype c r for_us in
  match kind_of_type (r_type r) with
  | None => (c1, None)
  | Some k =>
    let key := key_of k (r_name r) in
    let m := get_map c1 k in
    let b := match bm_get key m with Some b => b | None => [] end in
    match b with
    | [] => if for_us
            then let e := new_entry r now ifx in (set_map c1 k (bm_set key [e] m), Some (e, true))
            else (set_map c1 k (bm_set key [] m), None)       (* or_default() left an empty bucket *)
    | _ =>
      let b1 := if r_flush r then map (flush_one r ifx now) b else b in
      match update_first b1 r ifx now with
      | Some (b2, (e', revived)) => (set_map c1 k (bm_set key b2 m), Some (e', revived))
      | None => let e := new_entry r now ifx in
                (set_map c1 k (bm_set key (e :: b1) m), Some (e, true))
      end
    end
  end.

(* ---- eviction ---------------------------------------------------------------------------------- *)

Definition live_only (now : N) (b : bucket) : bucket := filter (fun e => negb (is_expired e now)) b.

(* records_map.retain(|_, records| { records.retain(not expired); !records.is_empty() }) *)
Definition sweep (now : N) (m : bmap) : bmap :=
  filter (fun kb => match snd kb with [] => false | _ => true end)
         (map (fun kb => (fst kb, live_only now (snd kb))) m).

(* the loop over the PTR records of one ty_domain: an instance whose SRV bucket was emptied by
   the preceding SRV pass (srv_expired) is reported; its TXT records are evicted *)
Fixpoint evict_instances (now : N) (ty : bytes) (ptrs : bucket) (srv_expired : list bytes) (txt : bmap)
    : bmap * list (bytes * bytes) :=
  match ptrs with
  | [] => (txt, [])
  | p :: rest =>
    let inst := alias_of (e_rr p) in
    let ex1 := if mem inst srv_expired then [(ty, inst)] else [] in
    let txt1 := match bm_get inst txt with
                | Some tb => bm_set inst (live_only now tb) txt
                | None => txt
                end in
    let '(txt2, ex2) := evict_instances now ty rest srv_expired txt1 in
    (txt2, ex1 ++ ex2)
  end.

Fixpoint evict_types (now : N) (ptr : bmap) (srv_expired : list bytes) (txt : bmap)
    : bmap * bmap * list (bytes * bytes) :=
  match ptr with
  | [] => ([], txt, [])
  | (ty, ptrs) :: rest =>
    let '(txt1, ex1) := evict_instances now ty ptrs srv_expired txt in
    let gone := map (fun p => (ty, alias_of (e_rr p))) (filter (fun p => is_expired p now) ptrs) in
    let '(ptr2, txt2, ex2) := evict_types now rest srv_expired txt1 in
    ((ty, live_only now ptrs) :: ptr2, txt2, ex1 ++ gone ++ ex2)
  end.

(* the instances whose SRV bucket holds no unexpired record (srv.retain(..) of the SRV pass) *)
Definition srv_expired_of (now : N) (srv : bmap) : list bytes :=
  map fst (filter (fun kb => match live_only now (snd kb) with [] => true | _ => false end) srv).

(* evict_expired_services: the new cache and the (ty_domain, instance) pairs reported, in the
   order of discovery (Rust collects them in a HashMap of HashSets: duplicates collapse).
   SRV records are evicted first, everywhere; then every PTR name pointing to an instance left
   without SRV records reports it, as does every expired PTR; TXT and NSEC are swept. *)
Definition evict_services (c : cache) (now : N) : cache * list (bytes * bytes) :=
  let '(ptr1, txt1, ex) := evict_types now (c_ptr c) (srv_expired_of now (c_srv c)) (c_txt c) in
  (mkCache ptr1 (sweep now (c_srv c)) (sweep now txt1) (c_addr c) (sweep now (c_nsec c)) (c_sub c), ex).

(* evict_expired_addr: the owner names (as in the records) of the evicted addresses *)
Definition evict_addr (c : cache) (now : N) : cache * list bytes :=
  let gone := flat_map (fun kb => map e_name (filter (fun e => is_expired e now) (snd kb))) (c_addr c) in
  (mkCache (c_ptr c) (c_srv c) (c_txt c) (sweep now (c_addr c)) (c_nsec c) (c_sub c), gone).

(* ---- lookups ----------------------------------------------------------------------------------- *)

Definition rr_host (r : rr) : bytes := match r_data r with RSrv _ _ _ h => h | _ => [] end.
Definition rr_port (r : rr) : N := match r_data r with RSrv _ _ p _ => p | _ => 0 end.
Definition rr_octets (r : rr) : bytes := match r_data r with RAddr o => o | _ => [] end.
Definition rr_text (r : rr) : bytes := match r_data r with RTxt t => t | _ => [] end.
Definition srv_host (e : entry) : bytes := rr_host (e_rr e).
Definition srv_port (e : entry) : N := rr_port (e_rr e).
Definition addr_octets (e : entry) : bytes := rr_octets (e_rr e).
Definition txt_text (e : entry) : bytes := rr_text (e_rr e).

Definition get_addr (c : cache) (host : bytes) : option bucket := bm_get (lower host) (c_addr c).

(* get_instances_on_host: instances whose FIRST SRV record names `host`, letter case ignored *)
Definition get_instances_on_host (c : cache) (host : bytes) : list bytes :=
  flat_map (fun kb => match snd kb with
                      | e :: _ => if beq (lower (srv_host e)) (lower host) then [fst kb] else []
                      | [] => []
                      end) (c_srv c).

(* ---- service_verify_queries --------------------------------------------------------------------- *)

Definition sooner_all (at_ : option N) (b : bucket) : bucket :=
  match at_ with Some x => map (fun e => expire_sooner e x) b | None => b end.

(* addresses are looked up under the lower-cased srv.host() *)
Fixpoint verify_addrs (at_ : option N) (srvs : bucket) (addr : bmap) : bmap :=
  match srvs with
  | [] => addr
  | s :: rest =>
    let addr1 := match bm_get (lower (srv_host s)) addr with
                 | Some ab => bm_set (lower (srv_host s)) (sooner_all at_ ab) addr
                 | None => addr
                 end in
    verify_addrs at_ rest addr1
  end.

Definition service_verify_queries (c : cache) (inst : bytes) (at_ : option N)
    : cache * list (bytes * N) :=
  match bm_get inst (c_srv c) with
  | None => (c, [])
  | Some sb =>
    let sb' := sooner_all at_ sb in
    let qs := (inst, TY_SRV) :: flat_map (fun s => [(srv_host s, TY_A); (srv_host s, TY_AAAA)]) sb in
    (mkCache (c_ptr c) (bm_set inst sb' (c_srv c)) (c_txt c) (verify_addrs at_ sb (c_addr c))
             (c_nsec c) (c_sub c), qs)
  end.

(* DnsCache::has_ptr_to (fix 48ec5c0): some cached PTR record, under any key, expired or not, whose
   alias is exactly the instance *)
Definition has_ptr_to (c : cache) (inst : bytes) : bool :=
  existsb (fun kb => existsb (fun p => beq (alias_of (e_rr p)) inst) (snd kb)) (c_ptr c).

(* ---- remove_service_type ------------------------------------------------------------------------- *)

Definition all_srv_hosts_lower (srv : bmap) : list bytes :=
  flat_map (fun kb => map (fun e => lower (srv_host e)) (snd kb)) srv.

Definition remove_service_type (c : cache) (ty : bytes) : cache :=
  match bm_get ty (c_ptr c) with
  | None => c
  | Some ptrs =>
    let insts := map (fun p => alias_of (e_rr p)) ptrs in
    let hosts := flat_map (fun i => match bm_get i (c_srv c) with
                                    | Some sb => map (fun e => lower (srv_host e)) sb
                                    | None => []
                                    end) insts in
    let srv1 := fold_left (fun m i => bm_remove i m) insts (c_srv c) in
    let txt1 := fold_left (fun m i => bm_remove i m) insts (c_txt c) in
    let still := all_srv_hosts_lower srv1 in
    let addr1 := fold_left (fun m h => if mem h still then m else bm_remove h m) hosts (c_addr c) in
    mkCache (bm_remove ty (c_ptr c)) srv1 txt1 addr1 (c_nsec c) (c_sub c)
  end.

(* ---- refresh ----------------------------------------------------------------------------------------

   refresh_due_ptr / refresh_due_srv_txt / refresh_due_hosts of one browsed ty_domain: the
   refresh marks of the records are advanced, the result says what has to be asked. *)

Fixpoint refresh_bucket (now : N) (b : bucket) : bucket * bool :=
  match b with
  | [] => ([], false)
  | e :: t =>
    let '(e', due) := refresh_maybe e now in
    let '(t', due') := refresh_bucket now t in
    (e' :: t', due || due')
  end.

Definition refresh_key (now : N) (k : bytes) (m : bmap) : bmap * bool :=
  match bm_get k m with
  | Some b => let '(b', due) := refresh_bucket now b in (bm_set k b' m, due)
  | None => (m, false)
  end.

(* instances = aliases of the not expired PTR records of ty (with repetitions, in Vec order) *)
Definition live_instances (c : cache) (ty : bytes) (now : N) : list bytes :=
  match bm_get ty (c_ptr c) with
  | Some ptrs => map (fun p => alias_of (e_rr p)) (live_only now ptrs)
  | None => []
  end.

Fixpoint refresh_srv_txt (now : N) (insts : list bytes) (srv txt : bmap)
    : bmap * bmap * list (bytes * N) :=
  match insts with
  | [] => (srv, txt, [])
  | i :: rest =>
    let '(srv1, d1) := refresh_key now i srv in
    let '(txt1, d2) := refresh_key now i txt in
    let '(srv2, txt2, qs) := refresh_srv_txt now rest srv1 txt1 in
    (srv2, txt2, (if d1 then [(i, TY_SRV)] else []) ++ (if d2 then [(i, TY_TXT)] else []) ++ qs)
  end.

Fixpoint dedup (l : list bytes) : list bytes :=
  match l with
  | [] => []
  | x :: t => if mem x t then dedup t else x :: dedup t
  end.

Fixpoint refresh_hosts (now : N) (hosts : list bytes) (addr : bmap) : bmap * list (bytes * N) :=
  match hosts with
  | [] => (addr, [])
  | h :: rest =>
    let '(addr1, d) := refresh_key now (lower h) addr in
    let '(addr2, qs) := refresh_hosts now rest addr1 in
    (addr2, (if d then [(h, TY_A); (h, TY_AAAA)] else []) ++ qs)
  end.

(* one ty_domain of refresh_active_services; PTR refresh questions are not reported (they are
   the browse query itself), the refresh marks of the PTR records are advanced all the same *)
Definition refresh_type (c : cache) (ty : bytes) (now : N) : cache * list (bytes * N) :=
  let '(ptr1, _) := refresh_key now ty (c_ptr c) in
  let c1 := mkCache ptr1 (c_srv c) (c_txt c) (c_addr c) (c_nsec c) (c_sub c) in
  let insts := live_instances c1 ty now in
  let '(srv1, txt1, q1) := refresh_srv_txt now insts (c_srv c1) (c_txt c1) in
  let hosts := dedup (flat_map (fun i => match bm_get i srv1 with
                                         | Some sb => map srv_host sb
                                         | None => []
                                         end) insts) in
  let '(addr1, q2) := refresh_hosts now hosts (c_addr c1) in
  (mkCache ptr1 srv1 txt1 addr1 (c_nsec c1) (c_sub c1), q1 ++ q2).
