(* Model of the TXT property codec of src/service_info.rs:
     ServiceInfo::new (property validation), encode_txt, decode_txt, decode_txt_unique,
     TxtProperties::get.
   Definitions only; proofs are in Proofs/TxtProofs.v. *)
From Coq Require Import List NArith Bool.
From Mdns Require Import Res Bytes Utf8 Params.
Import ListNotations.
Open Scope N_scope.

(* key bytes (UTF-8 of the Rust String), value: None = boolean key, Some [] = empty value *)
Definition prop : Type := (bytes * option bytes)%type.

Definition eq_sign : N := 61. (* '=' *)

(* the string written for one property: key, or key '=' value *)
Definition prop_bytes (p : prop) : bytes :=
  match snd p with
  | None => fst p
  | Some v => fst p ++ eq_sign :: v
  end.

(* ServiceInfo::new, the loop over txt_properties (src/service_info.rs:188-212, plus the
   empty-boolean-key refusal added by the fix for D10). *)
Definition prop_len (p : prop) : nat :=
  length (fst p) + match snd p with None => 0 | Some v => length v + 1 end.

Definition accepted_prop (p : prop) : bool :=
  is_ascii (fst p)
  && negb (contains eq_sign (fst p))
  && negb (match fst p, snd p with [], None => true | _, _ => false end)
  && negb (Params.txt_prop_refused_len (N.of_nat (prop_len p))).

Definition accepted (ps : list prop) : bool := forallb accepted_prop ps.

(* encode_txt: with debug assertions on, a string above 255 bytes panics (debug_assert!);
   a release build truncates instead (encode_txt_release). *)
Definition encode_one (p : prop) : bytes :=
  let s := prop_bytes p in N.of_nat (length s) :: s.

Fixpoint encode_txt_body (ps : list prop) : res bytes :=
  match ps with
  | [] => Ok []
  | p :: t =>
    if Nat.ltb 255 (length (prop_bytes p)) then Panic
    else let? r := encode_txt_body t in Ok (encode_one p ++ r)
  end.

Definition encode_txt (ps : list prop) : res bytes :=
  let? b := encode_txt_body ps in
  Ok (match b with [] => [0] | _ => b end).

Definition encode_one_release (p : prop) : bytes :=
  let s := firstn 255 (prop_bytes p) in N.of_nat (length s) :: s.
Definition encode_txt_release (ps : list prop) : bytes :=
  let b := concat (map encode_one_release ps) in
  match b with [] => [0] | _ => b end.

(* checked slice: Rust `&v[..n]` panics when n > len *)
Definition take (n : nat) (l : bytes) : res bytes :=
  if Nat.leb n (length l) then Ok (firstn n l) else Panic.
Definition drop (n : nat) (l : bytes) : res bytes :=
  if Nat.leb n (length l) then Ok (skipn n l) else Panic.

(* split at the first '=' *)
Definition split_kv (kv : bytes) : res prop :=
  match index_of eq_sign kv with
  | None => Ok (kv, None)
  | Some i =>
    let? k := take i kv in
    let? v := drop (S i) kv in
    Ok (k, Some v)
  end.

(* decode_txt: `txt` is the not yet consumed suffix (offset = bytes consumed so far).
   The fuel is the number of loop iterations; length txt + 1 always suffices
   (Proofs/TxtProofs.v, decode_txt_fuel_enough). *)
Fixpoint decode_txt_fuel (fuel : nat) (txt : bytes) : res (list prop) :=
  match fuel with
  | O => OutOfFuel
  | S f =>
    match txt with
    | [] => Ok []                                   (* offset < txt.len() fails *)
    | len :: rest =>
      if len =? 0 then Ok []                        (* length == 0: break *)
      else if Nat.ltb (length rest) (N.to_nat len) then Ok []   (* offset_end > len: break *)
      else
        let? kv := take (N.to_nat len) rest in      (* &txt[offset..offset_end] *)
        let? p := split_kv kv in
        let? rest' := drop (N.to_nat len) rest in
        let? tl := decode_txt_fuel f rest' in
        Ok (if utf8_valid (fst p) then p :: tl else tl)
    end
  end.

Definition decode_txt (txt : bytes) : res (list prop) :=
  decode_txt_fuel (S (length txt)) txt.

(* retain the first occurrence of each key, compared after lower-casing *)
Fixpoint dedup_ci_aux (seen : list bytes) (ps : list prop) : list prop :=
  match ps with
  | [] => []
  | p :: t =>
    let k := lower (fst p) in
    if mem k seen then dedup_ci_aux seen t else p :: dedup_ci_aux (k :: seen) t
  end.
Definition dedup_ci (ps : list prop) : list prop := dedup_ci_aux [] ps.

Definition decode_txt_unique (txt : bytes) : res (list prop) :=
  let? ps := decode_txt txt in Ok (dedup_ci ps).

(* TxtProperties::get *)
Definition txt_get (ps : list prop) (key : bytes) : option prop :=
  find (fun p => beq (lower (fst p)) (lower key)) ps.

(* ServiceInfo::new restricted to its TXT part: stored properties and published RDATA *)
Definition service_new_txt (ps : list prop) : res (list prop * bytes) :=
  if accepted ps then let? b := encode_txt ps in Ok (ps, b) else Err.
