(* C04 and C05 as executable checkers over (history, requested wake-ups, observed events and
   questions).

   Both replay the delivery history through the CACHE COMPONENT only (add_or_update with the
   for-us rule, stop_browse's removal, verify's shortening, eviction): the "spec cache", whose
   history-level meaning is theorem C03_cache_from_history (every entry is the latest delivery
   of its record, no older than its TTL, shortened by displacement/verify).  The browser's own
   bookkeeping (resolved / pending_resolves / retransmissions) is NOT replayed: the checkers
   judge the observed events and questions against what the spec cache says is live.

   live "strongly"  = more than one second of TTL left (not expires_soon: the crate's and RFC
                      6762 10.1's convention that a record in its last second is as good as gone)
   live "weakly"    = not expired.

   C05 (viol_C05):
     S  a ServiceRemoved(ty, i) is observed only in an iteration in which, at some point (after
        one of its datagrams, after its commands, or after its eviction), i does NOT have a
        strongly live PTR under ty, a strongly live SRV and a strongly live address of that
        SRV's host;
     T  at the end of every iteration, every instance that is reported "up" on a channel (its
        last event there is ServiceResolved) is weakly alive: PTR, an SRV and an address of
        its host all unexpired.  So when a goodbye's second, a TTL, or a verify timeout runs
        out, the ServiceRemoved is in the first iteration at or after that instant;
     W  the wake-up the daemon asks for is not later than the instant at which an "up"
        instance stops being weakly alive (with T: removal exactly on time on a timer-exact
        schedule, late by exactly the lateness otherwise);
     N  no ServiceResolved for an instance after its ServiceRemoved unless a record of the
        instance (PTR, SRV, TXT, address of the host) was delivered since.
   C04 (viol_C04):
     F  ServiceResolved on a channel only after ServiceFound for that instance on that channel;
     C  at the end of an iteration that delivered a record of the instance (or started the
        browse), an instance of a browsed type that is strongly alive is reported "up";
     Q1 after a ServiceFound that did not lead to ServiceResolved, a follow-up question
        ((instance, ANY) while no SRV is cached, else (host, A) while the host has no address)
        is asked in the first iteration at or after +500 ms, again 500 ms after that try and once
        more 500 ms after the second (three tries, as long as something is missing), and the
        requested wake-ups are not later than those instants;
     Q2 without new records, (instance, ANY) is asked in at most 3 iterations;
     Q4 an ANY question asks for a name (label list) that some delivered PTR points to.
   Definitions only. *)
From Coq Require Import List NArith Bool.
From Mdns Require Import Res Bytes Rec Wire WireOut Rfc1035 Txt ParamsBrowser Cache Browser C03Spec.
Import ListNotations.
Open Scope N_scope.

(* ---- observations ------------------------------------------------------------------------------ *)

Record obs : Type := mkObs {
  ob_evts : list (N * event);              (* (channel, event); per (channel, instance) in emission order *)
  ob_qs : list (list bytes * N) }.         (* questions as (labels in lower case, qtype): DNS names
                                              are compared without regard to ASCII case *)

Definition obs_of (o : list out) : obs :=
  mkObs (flat_map (fun x => match x with OEvt c e => [(c, e)] | _ => [] end) o)
        (map (fun q => (map lower (name_labels (fst q)), snd q)) (questions_of o)).

(* ---- the spec cache ------------------------------------------------------------------------------ *)

Record spec : Type := mkSpec { sp_c : cache; sp_q : list (bytes * N) }.

Definition init_spec : spec := mkSpec empty_cache [].

Definition spec_msg (sp : spec) (now ifx : N) (m : msg) : spec :=
  let fu := for_us (sp_q sp) (m_answers m) in
  let '(c1, _, _) := hr_records (sp_c sp) now ifx (sp_q sp) fu (msg_records m) in
  mkSpec c1 (sp_q sp).

Definition spec_dgram (ifs : iftab) (now : N) (sp : spec) (d : dgram) : spec :=
  match accepted_msg ifs d with
  | Some m => spec_msg sp now (d_if d) m
  | None => sp
  end.

Definition srv_entries_of (c : cache) (inst : bytes) : bucket :=
  match bm_get inst (c_srv c) with Some b => b | None => [] end.

(* the records of the datagram that were NEW to the cache and not themselves expiring (TTL > 1:
   a new goodbye record cannot make anything resolvable): (type, owner name; for a PTR the
   instance it points to) *)
Fixpoint rec_news (c : cache) (now ifx : N) (fu : bool) (rs : list rr) : list (N * bytes) :=
  match rs with
  | [] => []
  | r :: rest =>
    let '(c1, res) := add_or_update c now ifx r fu in
    (match res with
     | Some (_, true) =>
       if 1 <? r_ttl r then [(r_type r, if r_type r =? TY_PTR then alias_of r else r_name r)] else []
     | _ => []
     end) ++ rec_news c1 now ifx fu rest
  end.

Definition dgram_news (ifs : iftab) (now : N) (sp : spec) (d : dgram) : list (N * bytes) :=
  match accepted_msg ifs d with
  | Some m => rec_news (sp_c sp) now (d_if d) (for_us (sp_q sp) (m_answers m)) (msg_records m)
  | None => []
  end.

Fixpoint iter_news (ifs : iftab) (now : N) (sp : spec) (ds : list dgram) : list (N * bytes) :=
  match ds with
  | [] => []
  | d :: t => dgram_news ifs now sp d ++ iter_news ifs now (spec_dgram ifs now sp d) t
  end.

Definition news_relevant (c : cache) (inst : bytes) (tn : N * bytes) : bool :=
  let t := fst tn in
  (((t =? TY_PTR) || (t =? TY_SRV) || (t =? TY_TXT)) && beq (snd tn) inst)
  || (is_addr_type t && existsb (fun e => beq (lower (snd tn)) (lower (srv_host e))) (srv_entries_of c inst)).

Definition spec_call (now : N) (sp : spec) (cl : call) : spec :=
  match cl with
  | CBrowse ty ch => mkSpec (sp_c sp) (q_set ty ch (sp_q sp))
  | CStop ty =>
    match q_get ty (sp_q sp) with
    | Some _ => mkSpec (remove_service_type (sp_c sp) ty) (q_remove ty (sp_q sp))
    | None => sp
    end
  | CVerify inst timeout =>
    mkSpec (fst (service_verify_queries (sp_c sp) inst (Some (now + timeout)))) (sp_q sp)
  | CMetrics _ => sp
  end.

Definition spec_evict (now : N) (sp : spec) : spec :=
  let '(c1, _) := evict_services (sp_c sp) now in
  let '(c2, _) := evict_addr c1 now in
  mkSpec c2 (sp_q sp).

(* states after each element *)
Fixpoint scan {A S} (f : S -> A -> S) (s : S) (l : list A) : list S :=
  match l with
  | [] => []
  | a :: t => let s1 := f s a in s1 :: scan f s1 t
  end.

(* snapshots of one iteration: after each datagram, after the commands, after the eviction *)
Definition iter_snaps (ifs : iftab) (sp : spec) (it : iter) : list spec * spec * spec :=
  let now := i_now it in
  let ds := scan (spec_dgram ifs now) sp (deliveries_in_order (i_dgrams it)) in
  let sp1 := last ds sp in
  let sp2 := fold_left (spec_call now) (i_calls it) sp1 in
  (ds, sp2, spec_evict now sp2).

(* ---- liveness of an instance in a cache ---------------------------------------------------------- *)

Definition ptr_entries (c : cache) (ty inst : bytes) : bucket :=
  match bm_get ty (c_ptr c) with
  | Some b => filter (fun p => beq (alias_of (e_rr p)) inst) b
  | None => []
  end.

Definition srv_entries (c : cache) (inst : bytes) : bucket :=
  match bm_get inst (c_srv c) with Some b => b | None => [] end.

Definition addr_entries (c : cache) (host : bytes) : bucket :=
  match get_addr c host with Some b => b | None => [] end.

Definition alive_strong (c : cache) (now : N) (ty inst : bytes) : bool :=
  existsb (fun p => negb (expires_soon p now)) (ptr_entries c ty inst)
  && existsb (fun e => negb (expires_soon e now) && negb (is_nil (srv_host e))
                       && existsb (fun a => negb (expires_soon a now)) (addr_entries c (srv_host e)))
             (srv_entries c inst).

Definition alive_weak (c : cache) (now : N) (ty inst : bytes) : bool :=
  existsb (fun p => negb (is_expired p now)) (ptr_entries c ty inst)
  && existsb (fun e => negb (is_expired e now)
                       && existsb (fun a => negb (is_expired a now)) (addr_entries c (srv_host e)))
             (srv_entries c inst).

Definition max_exp (b : bucket) : N := fold_right (fun e acc => N.max (e_expires e) acc) 0 b.

(* the instant at which the instance stops being weakly alive if nothing else arrives *)
Definition death_time (c : cache) (ty inst : bytes) : N :=
  N.min (max_exp (ptr_entries c ty inst))
        (fold_right (fun e acc => N.max (N.min (e_expires e) (max_exp (addr_entries c (srv_host e)))) acc)
                    0 (srv_entries c inst)).

(* a NEW record of the instance arrived in a datagram after which the instance was strongly
   alive: handle_response then has to resolve it (otherwise the instance became complete by
   refreshed records only) *)
Fixpoint iter_fresh (ifs : iftab) (now : N) (sp : spec) (ds : list dgram) (ty inst : bytes) : bool :=
  match ds with
  | [] => false
  | d :: t =>
    let sp1 := spec_dgram ifs now sp d in
    (existsb (news_relevant (sp_c sp1) inst) (dgram_news ifs now sp d) && alive_strong (sp_c sp1) now ty inst)
    || iter_fresh ifs now sp1 t ty inst
  end.

(* a delivery that concerns the instance (host: the host name it is / was resolved to) *)
Definition relevant (inst host : bytes) (d : dlv) : bool :=
  let r := dl_rr d in
  ((r_type r =? TY_PTR) && beq (alias_of r) inst)
  || (((r_type r =? TY_SRV) || (r_type r =? TY_TXT)) && beq (r_name r) inst)
  || (is_addr_type (r_type r) && negb (is_nil host) && beq (lower (r_name r)) (lower host)).

Definition relevant_any_host (c : cache) (inst : bytes) (d : dlv) : bool :=
  relevant inst [] d || existsb (fun e => relevant inst (srv_host e) d) (srv_entries c inst).

(* ---- failures -------------------------------------------------------------------------------------- *)

Inductive fail : Type :=
| F_len
| F04_order (k ch : N) (inst : bytes)
| F04_complete (k ch : N) (ty inst : bytes) (fresh : bool)   (* fresh: a NEW record of the instance was cached in this iteration *)
| F04_followup (k : N) (inst : bytes) (stale : bool)
| F04_wake (k : N) (inst : bytes) (stale : bool)
| F04_many (k : N) (inst : bytes)
| F04_labels (k : N) (ls : list bytes)
| F05_alive (k ch : N) (ty inst : bytes)
| F05_dead (k ch : N) (ty inst : bytes) (ptr_soon srv_live : bool)  (* ptr_soon: every PTR of it is in its last second; srv_live: an SRV of it is unexpired *)
| F05_wake (k ch : N) (ty inst : bytes)
| F05_again (k ch : N) (inst : bytes).

(* ---- "up" bookkeeping shared by both checkers ------------------------------------------------------ *)

Definition up_entry := (N * (bytes * bytes))%type.      (* channel, (ty, inst) *)

Definition up_is (ch : N) (inst : bytes) (u : up_entry) : bool := (fst u =? ch) && beq (snd (snd u)) inst.

Definition ups_add (ch : N) (ty inst : bytes) (ups : list up_entry) : list up_entry :=
  if existsb (up_is ch inst) ups then ups else ups ++ [(ch, (ty, inst))].

Definition ups_del (ch : N) (inst : bytes) (ups : list up_entry) : list up_entry :=
  filter (fun u => negb (up_is ch inst u)) ups.

(* keep the entries whose channel is still the channel of its type *)
Definition ups_current (q : list (bytes * N)) (ups : list up_entry) : list up_entry :=
  filter (fun u => match q_get (fst (snd u)) q with Some ch => ch =? fst u | None => false end) ups.

Definition browse_called (ty : bytes) (calls : list call) : bool :=
  existsb (fun c => match c with CBrowse t _ => beq t ty | _ => false end) calls.

(* ---- C05 ---------------------------------------------------------------------------------------------- *)

Record t05 : Type := mkT05 {
  t5_sp : spec;
  t5_ups : list up_entry;
  t5_dead : list (N * (bytes * N));          (* channel, (inst, iteration of the ServiceRemoved) *)
  t5_log : list (N * dlv) }.                 (* (iteration, delivery) *)

Definition dead_is (ch : N) (inst : bytes) (x : N * (bytes * N)) : bool :=
  (fst x =? ch) && beq (fst (snd x)) inst.

(* one observed event *)
Definition ev05 (k now : N) (snaps : list spec) (log : list (N * dlv))
    (acc : list up_entry * list (N * (bytes * N)) * list fail) (ce : N * event)
    : list up_entry * list (N * (bytes * N)) * list fail :=
  let '(ups, dead, fs) := acc in
  let ch := fst ce in
  match snd ce with
  | EFound _ _ => acc
  | ERemoved ty inst =>
    let ok := existsb (fun sp => negb (alive_strong (sp_c sp) now ty inst)) snaps in
    (ups_del ch inst ups, dead ++ [(ch, (inst, k))], if ok then fs else fs ++ [F05_alive k ch ty inst])
  | EResolved r =>
    let inst := rs_name r in
    let bad := existsb (fun x => dead_is ch inst x
                                 && negb (existsb (fun jd => (snd (snd x) <=? fst jd)
                                                             && relevant inst (rs_host r) (snd jd)) log)) dead in
    (ups_add ch (rs_ty r) inst ups, filter (fun x => negb (dead_is ch inst x)) dead,
     if bad then fs ++ [F05_again k ch inst] else fs)
  end.

Definition step05 (ifs : iftab) (k : N) (t : t05) (it : iter) (wake : option N) (ob : obs)
    : t05 * list fail :=
  let now := i_now it in
  let '(ds, sp2, sp3) := iter_snaps ifs (t5_sp t) it in
  let log := t5_log t ++ map (fun d => (k, d)) (iter_dlvs ifs it) in
  let '(ups1, dead1, fs1) := fold_left (ev05 k now (ds ++ [sp2; sp3]) log) (ob_evts ob) (t5_ups t, t5_dead t, []) in
  let ups2 := ups_current (sp_q sp3) ups1 in
  let dead2 := filter (fun x => existsb (fun tc => snd tc =? fst x) (sp_q sp3)) dead1 in
  let fsT := flat_map (fun u => if alive_weak (sp_c sp3) now (fst (snd u)) (snd (snd u)) then []
                               else [F05_dead k (fst u) (fst (snd u)) (snd (snd u))
                                       (negb (existsb (fun p => negb (expires_soon p now))
                                                      (ptr_entries (sp_c sp3) (fst (snd u)) (snd (snd u)))))
                                       (existsb (fun e => negb (is_expired e now))
                                                (srv_entries (sp_c sp3) (snd (snd u))))]) ups2 in
  let fsW := flat_map (fun u =>
               let ok := match wake with
                         | Some w => w <=? death_time (sp_c sp3) (fst (snd u)) (snd (snd u))
                         | None => false
                         end in
               if ok || negb (alive_weak (sp_c sp3) now (fst (snd u)) (snd (snd u))) then []
               else [F05_wake k (fst u) (fst (snd u)) (snd (snd u))]) ups2 in
  (mkT05 sp3 ups2 dead2 log, fs1 ++ fsT ++ fsW).

Fixpoint viol05_from (ifs : iftab) (k : N) (t : t05) (h : list iter) (wakes : list (option N))
    (tr : list obs) : list fail :=
  match h, wakes, tr with
  | [], [], [] => []
  | it :: h', w :: wakes', ob :: tr' =>
    let '(t1, fs) := step05 ifs k t it w ob in fs ++ viol05_from ifs (k + 1) t1 h' wakes' tr'
  | _, _, _ => [F_len]
  end.

Definition viol_C05 (ifs : iftab) (h : list iter) (wakes : list (option N)) (tr : list obs) : list fail :=
  viol05_from ifs 0 (mkT05 init_spec [] [] []) h wakes tr.

Definition chk_C05 (ifs : iftab) (h : list iter) (wakes : list (option N)) (tr : list obs) : bool :=
  is_nil (viol_C05 ifs h wakes tr).

(* ---- C04 ---------------------------------------------------------------------------------------------- *)

Record t04 : Type := mkT04 {
  t4_sp : spec;
  t4_ups : list up_entry;
  t4_found : list (N * bytes);                 (* (channel, inst) for which ServiceFound was seen *)
  t4_oblig : list (bytes * (N * (bool * N)));  (* inst, (due time of the next follow-up, (stale, number of the try)) *)
  t4_open : list bytes;                        (* instances with a follow-up episode and no ServiceResolved since *)
  t4_any : list (bytes * N);                   (* inst -> iterations with an (inst, ANY) question since the last record *)
  t4_targets : list (list bytes) }.            (* label lists of delivered PTR targets *)

Definition ptr_targets_of (d : bytes) : list (list bytes) :=
  match ref_parse d with
  | Some m =>
    flat_map (fun r => if fr_type r =? TY_PTR then match fr_data r with FName ls => [ls] | _ => [] end else [])
             (fm_answers m ++ fm_authorities m ++ fm_additionals m)
  | None => []
  end.

Fixpoint labels_mem (ls : list bytes) (l : list (list bytes)) : bool :=
  match l with
  | [] => false
  | x :: t => labels_beq ls x || labels_mem ls t
  end.

Fixpoint q_mem (q : list bytes * N) (l : list (list bytes * N)) : bool :=
  match l with
  | [] => false
  | x :: t => (labels_beq (fst q) (fst x) && (snd q =? snd x)) || q_mem q t
  end.

(* the question query_unresolved would ask, given the cache after this iteration's datagrams
   and commands *)
Definition expected_followup (c : cache) (inst : bytes) : option (bytes * N) :=
  if negb (valid_instance_name inst) then None
  else if negb (has_ptr_to c inst) then None      (* fix 48ec5c0: the chain ends when no PTR points to the instance *)
  else match bm_get inst (c_srv c) with
       | None => Some (inst, TY_ANY)
       | Some recs =>
         match find (fun e => match get_addr c (srv_host e) with None => true | Some _ => false end) recs with
         | Some e => Some (srv_host e, TY_A)
         | None => None
         end
       end.

Definition ev04 (k : N)
    (acc : list up_entry * list (N * bytes) * list bytes * list bytes * list bytes * list fail)
    (ce : N * event) : list up_entry * list (N * bytes) * list bytes * list bytes * list bytes * list fail :=
  let '(ups, found, newfound, resolved_now, removed_now, fs) := acc in
  let ch := fst ce in
  match snd ce with
  | EFound _ inst => (ups, found ++ [(ch, inst)], newfound ++ [inst], resolved_now, removed_now, fs)
  | ERemoved _ inst => (ups_del ch inst ups, found, newfound, resolved_now, removed_now ++ [inst], fs)
  | EResolved r =>
    let inst := rs_name r in
    let ok := existsb (fun x => (fst x =? ch) && beq (snd x) inst) found in
    (ups_add ch (rs_ty r) inst ups, found, newfound, resolved_now ++ [inst], removed_now,
     if ok then fs else fs ++ [F04_order k ch inst])
  end.

Fixpoint any_get (inst : bytes) (l : list (bytes * N)) : N :=
  match l with
  | [] => 0
  | (i, n) :: t => if beq i inst then n else any_get inst t
  end.

Fixpoint any_set (inst : bytes) (n : N) (l : list (bytes * N)) : list (bytes * N) :=
  match l with
  | [] => [(inst, n)]
  | (i, m) :: t => if beq i inst then (i, n) :: t else (i, m) :: any_set inst n t
  end.

Definition step04 (ifs : iftab) (k : N) (t : t04) (it : iter) (wake : option N) (ob : obs)
    : t04 * list fail :=
  let now := i_now it in
  let '(_, sp2, sp3) := iter_snaps ifs (t4_sp t) it in
  let cur := iter_dlvs ifs it in
  let targets := t4_targets t ++ map (map lower) (flat_map (fun d => ptr_targets_of (d_data d)) (i_dgrams it)) in
  (* Q1: follow-up tries that are due: the expected question must be asked; tries 1 and 2 are
     followed by another try 500 ms later, the chain ends when nothing is missing *)
  let sat inst := match expected_followup (sp_c sp2) inst with
                  | Some q => q_mem (map lower (name_labels (fst q)), snd q) (ob_qs ob)
                  | None => true
                  end in
  let due := filter (fun o => fst (snd o) <=? now) (t4_oblig t) in
  (* an obligation marked stale belongs to an instance that may still have a chain running from
     an earlier episode (no second chain is started): it is met by the expected question in ANY
     iteration up to its due time, is not chained and needs no wake-up of its own *)
  let notdue := filter (fun o => negb (fst (snd o) <=? now) && negb (fst (snd (snd o)) && sat (fst o))) (t4_oblig t) in
  let fsQ1 := flat_map (fun o =>
                match expected_followup (sp_c sp2) (fst o) with
                | Some q => if q_mem (map lower (name_labels (fst q)), snd q) (ob_qs ob) then []
                            else [F04_followup k (fst o) (fst (snd (snd o)))]
                | None => []
                end) due in
  let chained := flat_map (fun o =>
                   match expected_followup (sp_c sp2) (fst o) with
                   | Some q => if q_mem (map lower (name_labels (fst q)), snd q) (ob_qs ob) && (snd (snd (snd o)) <? 3)
                                  && negb (fst (snd (snd o)))
                               then [(fst o, (now + 500, (fst (snd (snd o)), snd (snd (snd o)) + 1)))]
                               else []
                   | None => []
                   end) due in
  (* events *)
  let '(ups1, found1, newfound, resolved_now, removed_now, fsE) :=
    fold_left (ev04 k) (ob_evts ob) (t4_ups t, t4_found t, [], [], [], []) in
  let ups2 := ups_current (sp_q sp3) ups1 in
  let found2 := filter (fun x => existsb (fun tc => snd tc =? fst x) (sp_q sp3)) found1 in
  (* C: complete, triggered, browsed => up *)
  let fsC := flat_map (fun tc =>
               flat_map (fun inst =>
                 if alive_strong (sp_c sp3) now (fst tc) inst
                    && (existsb (relevant_any_host (sp_c sp3) inst) cur || browse_called (fst tc) (i_calls it))
                    && negb (existsb (up_is (snd tc) inst) ups2)
                 then [F04_complete k (snd tc) (fst tc) inst
                         (iter_fresh ifs now (t4_sp t) (deliveries_in_order (i_dgrams it)) (fst tc) inst
                          || browse_called (fst tc) (i_calls it))]
                 else [])
                 (dedup (map (fun p => alias_of (e_rr p))
                             (match bm_get (fst tc) (c_ptr (sp_c sp3)) with Some b => b | None => [] end))))
               (sp_q sp3) in
  (* follow-up episodes *)
  (* an instance has an open episode after a ServiceFound without ServiceResolved, and after a
     ServiceRemoved (the daemon then waits for records again), until its next ServiceResolved *)
  let open1 := filter (fun i => negb (mem i resolved_now)) (dedup (t4_open t ++ removed_now)) in
  let is_up inst := existsb (fun u => beq (snd (snd u)) inst) ups1 in
  let '(oblig2, open2) :=
    fold_left (fun (acc : list (bytes * (N * (bool * N))) * list bytes) inst =>
                 let '(ob_, op_) := acc in
                 if is_up inst || mem inst resolved_now || existsb (fun o => beq (fst o) inst) ob_ then acc
                 else if mem inst op_ && sat inst then acc
                 else (ob_ ++ [(inst, (now + 500, (mem inst op_, 1)))], if mem inst op_ then op_ else op_ ++ [inst]))
              (dedup newfound) (notdue ++ chained, open1) in
  let fsW := flat_map (fun o : bytes * (N * (bool * N)) =>
               if fst (snd (snd o)) then []
               else match wake with
                    | Some w => if w <=? fst (snd o) then [] else [F04_wake k (fst o) false]
                    | None => [F04_wake k (fst o) false]
                    end) oblig2 in
  (* Q2 / Q4 *)
  let any1 := filter (fun x => negb (existsb (relevant (fst x) []) cur)) (t4_any t) in
  let any1 := if is_nil (filter (fun c => match c with CBrowse _ _ => true | _ => false end) (i_calls it))
              then any1 else [] in
  let asked := flat_map (fun q => if snd q =? TY_ANY then [fst q] else []) (ob_qs ob) in
  let fsQ4 := flat_map (fun ls => if labels_mem ls targets then [] else [F04_labels k ls]) asked in
  let insts := dedup (map snd (t4_found t) ++ newfound) in
  let '(any2, fsQ2) :=
    fold_left (fun (acc : list (bytes * N) * list fail) inst =>
                 if labels_mem (map lower (name_labels inst)) asked then
                   let n := any_get inst (fst acc) + 1 in
                   (any_set inst n (fst acc), if 3 <? n then snd acc ++ [F04_many k inst] else snd acc)
                 else acc) insts (any1, []) in
  (mkT04 sp3 ups2 found2 oblig2 open2 any2 targets, fsQ1 ++ fsE ++ fsC ++ fsW ++ fsQ4 ++ fsQ2).

Fixpoint viol04_from (ifs : iftab) (k : N) (t : t04) (h : list iter) (wakes : list (option N))
    (tr : list obs) : list fail :=
  match h, wakes, tr with
  | [], [], [] => []
  | it :: h', w :: wakes', ob :: tr' =>
    let '(t1, fs) := step04 ifs k t it w ob in fs ++ viol04_from ifs (k + 1) t1 h' wakes' tr'
  | _, _, _ => [F_len]
  end.

Definition viol_C04 (ifs : iftab) (h : list iter) (wakes : list (option N)) (tr : list obs) : list fail :=
  viol04_from ifs 0 (mkT04 init_spec [] [] [] [] [] []) h wakes tr.

Definition chk_C04 (ifs : iftab) (h : list iter) (wakes : list (option N)) (tr : list obs) : bool :=
  is_nil (viol_C04 ifs h wakes tr).
