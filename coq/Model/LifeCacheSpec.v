(* Literal-number functional specifications of the cache rules (C11 cache-flush, C10 known-answer
   list) for the model instance `trec_ops` (definitions only; proofs in
   Proofs/LifeCacheProofs.v). *)
From Coq Require Import List NArith Bool.
From Mdns Require Import Res Bytes Rec Life LifeSpec LifeCache.
Import ListNotations.
Open Scope N_scope.

Definition tbucket := bucket trec.
Definition tentry := centry trec.

(* the one-second rule: same class and type (the Vec holds one name), received more than one
   second ago, expiring more than one second ahead; address records: same interface *)
Definition flushable (inc : ident) (now : N) (e : tentry) : bool :=
  (i_class inc =? i_class (c_id e)) && (i_type inc =? i_type (c_id e))
  && (t_created (c_t e) + 1000 <? now) && (now + 1000 <? t_expires (c_t e))
  && (if ((i_type inc =? 1) || (i_type inc =? 28)) && both_addr (c_id e) inc
      then i_if (c_id e) =? i_if inc else true).

Definition flush_entry (inc : ident) (now : N) (e : tentry) : tentry :=
  if i_flush inc && flushable inc now e then mkC (c_id e) (set_expires (c_t e) (now + 1000)) else e.

(* lifetime of a record just (re)received at `now` with TTL ttl, as reset_ttl leaves it *)
Definition fresh_reset (ttl now : N) : trec :=
  if 1 <? ttl then mkT ttl now (now + 1000 * ttl) (now + 800 * ttl)
  else mkT ttl now (now + 1000 * ttl) (now + 1000 * ttl).
(* ... and as DnsRecord::new makes it *)
Definition fresh_new (ttl now : N) : trec := mkT ttl now (now + 1000 * ttl) (now + 800 * ttl).

(* the first matching record is refreshed in place; the flag: it had TTL <= 1 and the incoming
   record has TTL > 1 (a goodbye followed by a new announcement: reported as new) *)
Fixpoint replace_first (inc : ident) (ttl : N) (fresh : trec) (b : tbucket) : option (tbucket * bool) :=
  match b with
  | [] => None
  | e :: rest =>
      if matches (c_id e) inc then Some (mkC (c_id e) fresh :: rest, (t_ttl (c_t e) <=? 1) && (1 <? ttl))
      else match replace_first inc ttl fresh rest with Some (r, rv) => Some (e :: r, rv) | None => None end
  end.

Definition aou_spec (b : tbucket) (inc : ident) (ttl now : N) (is_for_us : bool)
  : option (tbucket * list N * bool) :=
  if is_nil b && negb is_for_us then None
  else
    let b1 := map (flush_entry inc now) b in
    let ts := map (fun _ => now + 1000) (filter (fun e => i_flush inc && flushable inc now e) b) in
    match replace_first inc ttl (fresh_reset ttl now) b1 with
    | Some (b2, revived) => Some (b2, ts, revived)
    | None => Some (mkC inc (fresh_new ttl now) :: b1, ts, true)
    end.

(* known-answer list: shared records not past half life, TTL = remaining whole seconds *)
Definition ka_spec (b : tbucket) (now : N) : list (ident * N) :=
  flat_map (fun e =>
    if negb (i_flush (c_id e)) && (now <=? t_created (c_t e) + 500 * t_ttl (c_t e))
    then [(c_id e, ka_ttl_spec (t_ttl (c_t e)) (t_created (c_t e)) now)] else []) b.

(* bounds on a Vec of cached records *)
Definition entry_ok (e : tentry) : Prop :=
  t_created (c_t e) < B63 /\ t_ttl (c_t e) < U32.

(* ---- known answers over histories (C10 querier side) ---- *)

(* the known-answer list the property prescribes for a question list, read off a cache: for
   every question the shared records cached under the question's key that have not passed
   half of their lifetime, each with its remaining TTL *)
Definition question_key (q : bytes * N) : option ckey :=
  match kind_of_type (snd q) with
  | Some k => Some (k, if k =? 3 then lower (fst q) else fst q)
  | None => None
  end.

Definition ka_of_spec (c : cache trec) (qs : list (bytes * N)) (now : N) : list (ident * N) :=
  flat_map (fun q => match question_key q with
                     | Some k => ka_spec (get_bucket trec c k) now
                     | None => [] end) qs.

(* the caches the model can be in between two loop iterations *)
Inductive reach (cfg : simcfg) : cache trec -> Prop :=
| reach_init : reach cfg []
| reach_step : forall c s c' o,
    reach cfg c -> step_ok s ->
    sim_iter trec trec_ops cfg c (ss_now s) (ss_nsb s) (ss_nsh s) (ss_recs s) = Ok (c', o) ->
    reach cfg c'.
